#!/bin/bash
# storeseed.sh <ID> <round> <outdir> <letterA> <letterB>: copies an agent's deliverables A,B into seeded/<ID>-<letter>/ with meta.json
set -e
id=$1; round=$2; out=$3; la=$4; lb=$5
V=$(cd "$(dirname "$0")/.." && pwd)
for pair in A:$la B:$lb; do
  src=${pair%%:*}; dst=${pair##*:}
  d=$V/seeded/$id-$dst
  [ -d "$out/$src" ] || { echo "missing $out/$src"; continue; }
  rm -rf "$d"; mkdir -p "$d"
  cp -r "$out/$src/." "$d/"
  python3 - "$d" "$id" "$dst" "$round" <<'PY'
import sys,json,re,os
d,id_,letter,rnd=sys.argv[1:5]
notes=open(os.path.join(d,'NOTES.md')).read() if os.path.exists(os.path.join(d,'NOTES.md')) else ''
m=re.search(r'(?is)(?:what (?:it )?changes?|the change|change)\W*\n+(.+?)\n\s*\n',notes)
change=(m.group(1) if m else notes[:400]).strip().replace('\n',' ')[:400]
json.dump({"name":f"{id_}-{letter}","breaks":[id_],"origin":f"independent sub-agent, round {rnd} (told which mechanisms earlier rounds had used, asked for different and rarer ones)","change":change,"needs_to_manifest":"see NOTES.md","confirmed":"tools/seedcheck.sh (as round 1)"},open(os.path.join(d,'meta.json'),'w'),indent=1)
PY
done
