HOOK_COMMITS = ["2542ac5"]
NOTES = ("Technique family: runtime monitoring and sanitizers. Every check executes the real library under generated / hostile / "
         "stress workloads while an oracle (reference model, history checker, invariant hook, Go race detector / checkptr / ASan) "
         "watches. Verdicts are 'held on the executions observed'; evidence files say what was observed. See DESIGN.md.")
ENGINES = [
 {"name": "history", "path": "harness/internal/hist", "serves_properties": ["C02"], "kind_free_text": "client-boundary history recorder + porcupine linearizability checking against small sequential models (per-key partition), with witness shrinking"},
 {"name": "refmodel", "path": "harness/c*/ (E3)", "serves_properties": ["C03","C06","C14"], "kind_free_text": "reference-model monitor with exhaustive-to-depth and seeded random sequence generation; every observable compared after every call"},
]
NOT_CLAIMED = {}
CHECKS = {
 "C02": dict(level="exploration", engine="history", ref="DESIGN.md §3 C02",
   technique="client-boundary history recording + porcupine linearizability check against a per-key sequential model; outcome-class and version-injectivity monitors; Go race detector; miniredis pre-hook delay injection",
   text="Thousands (quick 6 000, thorough 300 000) of short concurrent histories (2-8 clients x 4-12 operations, 1-3 keys; mixed, racing-creators and racing-CAS flavours) are produced on both backends under the race detector, with random per-command delays injected on the Redis server side. Each history is checked by porcupine against the per-key sequential model (unique values make reads identify writes), every error outside the documented outcomes is a violation, the map version -> write must be injective over the history, and at most one CAS per expected version may win. Held = all observed histories linearizable and clean; found and repaired the Redis CAS-loser defect.",
   note="Trusted: porcupine, the sequential model (harness/internal/hist), miniredis. Only interleavings that the scheduler and the injected delays produced are judged; evidence reports how many histories had real overlap."),
 "C03": dict(level="exploration", engine="refmodel", ref="DESIGN.md §3 C03",
   technique="runtime reference-model monitor: executable contract model of kvs.Storage compared call by call with each backend (inmem; Redis on in-process miniredis) over exhaustive-to-depth and random operation sequences",
   text="All sequences over 39 operation instances to depth 3 (quick) / 4 (thorough) and seeded random sequences of length 30-200 are executed against the in-memory backend and against the Redis backend (miniredis); after every call error class, returned record, version relations (fresh, reported-with-ErrExist, CAS outcome) and ListKeys (as a set) are compared with the contract model, optionally with a full observation (GetMany of all keys + ListKeys) after every step. Held = no divergence on the sequences executed; found and repaired 3 Redis defects.",
   note="Trusted: the contract model (harness/internal/kvmodel), miniredis as a faithful Redis. Keys with a leading '/', invalid patterns and cancelled contexts are not generated."),
 "C06": dict(level="exploration", engine="refmodel", ref="DESIGN.md §3 C06",
   technique="runtime reference-model monitor with a logical clock: inmem under testing/synctest virtual time, Redis under miniredis FastForward; first-toucher matrix + exhaustive-to-depth + random sequences; parked-waiter-then-expiry scenario decided at quiescence / by counted polls",
   text="Every operation kind is tried as the first (and second) one to touch a key whose expiry has passed, for 5 ways of writing the record, 4 interludes and 3 clock advances; all sequences over 22-23 operation instances incl. clock advances to depth 3/4; random sequences; waiters parked on a live record whose expiry then passes. Each sequence ends with a full observation (Get, GetMany, ListKeys, Create). Time is virtual (no wall clock in the oracle). Held = no divergence; found and repaired the inmem expiry defects.",
   note="Trusted: the model, synctest virtual time, miniredis TTL handling. The exact expiry instant is never sampled (expiries at half units). Redis records written with an already-past expiry are not generated (miniredis keeps them until FastForward)."),
 "C14": dict(level="exploration", engine="refmodel", ref="DESIGN.md §3 C14",
   technique="runtime reference-model monitor (slice model) over exhaustively enumerated and random call sequences; zeroed-slot invariant hook",
   text="Every call sequence to depth 3-6 from every (read,write)-index start position of capacities 0..4 and seeded random long sequences on capacities 7/64/1000 are executed on the real ring buffer; after every call results, error class, panics, Len, Cap, the untouched ReadN tail and (through a verif hook) zeroing of consumed slots are compared with a slice model. Held = no divergence on the sequences executed.",
   note="Trusted: the slice model, Go runtime. Sequences beyond the depth bound on small capacities are only sampled randomly."),
}
