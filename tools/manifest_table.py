HOOK_COMMITS = ["2542ac5"]
NOTES = ("Technique family: runtime monitoring and sanitizers. Every check executes the real library under generated / hostile / "
         "stress workloads while an oracle (reference model, history checker, invariant hook, Go race detector / checkptr / ASan) "
         "watches. Verdicts are 'held on the executions observed'; evidence files say what was observed. See DESIGN.md.")
ENGINES = [
 {"name": "refmodel", "path": "harness/c*/ (E3)", "serves_properties": ["C14"], "kind_free_text": "reference-model monitor with exhaustive-to-depth and seeded random sequence generation; every observable compared after every call"},
]
NOT_CLAIMED = {}
CHECKS = {
 "C14": dict(level="exploration", engine="refmodel", ref="DESIGN.md §3 C14",
   technique="runtime reference-model monitor (slice model) over exhaustively enumerated and random call sequences; zeroed-slot invariant hook",
   text="Every call sequence to depth 3-6 from every (read,write)-index start position of capacities 0..4 and seeded random long sequences on capacities 7/64/1000 are executed on the real ring buffer; after every call results, error class, panics, Len, Cap, the untouched ReadN tail and (through a verif hook) zeroing of consumed slots are compared with a slice model. Held = no divergence on the sequences executed.",
   note="Trusted: the slice model, Go runtime. Sequences beyond the depth bound on small capacities are only sampled randomly."),
}
