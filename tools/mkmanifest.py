#!/usr/bin/env python3
"""Regenerates /verif/MANIFEST.json from the table below (kept in one place so it stays valid)."""
import json, os, sys

BASELINE_CMD = "cd /repo && GOFLAGS=-mod=mod go test -json -vet=off -count=1 -timeout 25m ./..."

# id -> (level category, technique, level text, level note, design ref)
CHECKS = {
}

def load_table():
    import importlib.util
    p = os.path.join(os.path.dirname(__file__), "manifest_table.py")
    spec = importlib.util.spec_from_file_location("manifest_table", p)
    m = importlib.util.module_from_spec(spec); spec.loader.exec_module(m)
    return m

def main():
    t = load_table()
    props = [json.loads(l)["id"] for l in open("/verif/properties.jsonl")]
    checks = []
    na = []
    for pid in props:
        if pid in t.CHECKS:
            c = t.CHECKS[pid]
            checks.append({
                "property_id": pid,
                "quick_cmd": f"./check {pid} quick",
                "thorough_cmd": f"./check {pid} thorough",
                "evidence_file": f"/verif/evidence/{pid}.json",
                "replay_cmd_template": f"./check {pid} quick --replay {{path}}",
                "engine": c["engine"],
                "level_claimed": {"category": c["level"], "text": c["text"], "design_ref": c["ref"]},
                "level_note": c["note"],
                "technique": c["technique"],
            })
        else:
            na.append({"property_id": pid, "reason": t.NOT_CLAIMED.get(pid, "check not built yet (work in progress); not claimed")})
    man = {
        "version": 1,
        "setup_cmd": "./check build",
        "hooks": {
            "guard": "verif",
            "enable": "go1.26.8 test -tags verif (harness module /verif/harness with `replace github.com/acquirecloud/golibs => /repo`)",
            "baseline_off_cmd": BASELINE_CMD,
            "source_commits": t.HOOK_COMMITS,
            "add_only": True,
        },
        "engines": t.ENGINES,
        "checks": checks,
        "notes": t.NOTES,
        "not_applicable": na,
    }
    json.dump(man, open("/verif/MANIFEST.json", "w"), indent=1)
    print(f"{len(checks)} checks, {len(na)} not claimed")

main()
