#!/usr/bin/env bash
# sweep.sh [dir-glob]  — runs seedcheck.sh over /verif/mutants/*/ (or the given dirs) and appends RESULT lines to logs/sweep.out
cd /verif
dirs=${@:-/verif/mutants/*/}
for d in $dirs; do
  props=$(jq -r '.breaks|join(" ")' $d/meta.json 2>/dev/null)
  [ -z "$props" ] && continue
  tools/seedcheck.sh $d $props | tee -a logs/sweep.out
done
