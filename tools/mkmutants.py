#!/usr/bin/env python3
"""Generates /verif/mutants/<name>/patch.diff from (file, old, new) replacements against /repo HEAD.
Each mutant is a realistic small break used to validate the monitors (DESIGN.md §7)."""
import subprocess, os, sys, json, shutil

M = []
def mut(name, props, file, old, new, note=""):
    M.append(dict(name=name, props=props, file=file, old=old, new=new, note=note))

# ---------------- C01 / C04 : kvs/distlock/kvlock.go
K='kvs/distlock/kvlock.go'
mut('C05-e-renewal-on-the-timer-worker', ['C05','C01'], K,
 '''	return timeout.Call(func() { go l.supportTimeout(ver) }, d)''',
 '''	return timeout.Call(func() { l.supportTimeout(ver) }, d)''', 'revert of F13: the renewal (a storage call) runs on the timer worker again')
mut('C01-a-trylock-error-is-success', ['C01'], K,
 '''	}); err == nil {
		l.future.Store(l.renewIn(ver, l.dlp.leaseTTL/2))
		return true
	}
	atomic.StoreInt32(&l.lckCntr, 0)''',
 '''	}); err == nil || !errors.Is(err, errors.ErrExist) && ctx.Err() == nil {
		l.future.Store(l.renewIn(ver, l.dlp.leaseTTL/2))
		return true
	}
	atomic.StoreInt32(&l.lckCntr, 0)''', 'a storage error that is neither ErrExist nor a context error is treated as success in TryLock')
mut('C01-b-wait-notexist-means-mine', ['C01'], K,
 '''			_ = l.dlp.Storage.WaitForVersionChange(ctx, l.key, ver)
			err = ctx.Err()''',
 '''			if werr := l.dlp.Storage.WaitForVersionChange(ctx, l.key, ver); errors.Is(werr, errors.ErrNotExist) && ctx.Err() == nil {
				// the record is gone, the lock is free
				l.future.Store(timeout.VoidFuture)
				return nil
			}
			err = ctx.Err()''', 'WaitForVersionChange returning ErrNotExist is taken as "free, hence mine" without a Create')
mut('C01-c-failure-path-deletes-record', ['C01'], K,
 '''	atomic.StoreInt32(&l.lckCntr, 0)
	l.lockCh <- true
	return err
}''',
 '''	_ = l.dlp.Storage.Delete(context.Background(), l.key) // clean up
	atomic.StoreInt32(&l.lckCntr, 0)
	l.lockCh <- true
	return err
}''', 'failure path of lockWithCtx "cleans up" by deleting the record (which belongs to somebody else)')
mut('C04-a-failure-path-keeps-token', ['C04'], K,
 '''	atomic.StoreInt32(&l.lckCntr, 0)
	l.lockCh <- true
	return err
}''',
 '''	atomic.StoreInt32(&l.lckCntr, 0)
	if !errors.Is(err, context.Canceled) {
		l.lockCh <- true
	}
	return err
}''', 'the token is not returned when the attempt ends by cancellation')
mut('C04-b-unlock-skips-delete-after-storage-error', ['C04'], K,
 '''	future := l.future.Load().(timeout.Future)
	future.Cancel()
	err := l.dlp.Storage.Delete(context.Background(), l.key)''',
 '''	future := l.future.Load().(timeout.Future)
	future.Cancel()
	var err error
	if atomic.LoadInt32(&l.waiters) == 0 {
		// nobody is waiting here, let the lease run out
	} else {
		err = l.dlp.Storage.Delete(context.Background(), l.key)
	}
	_ = err
	err = nil
	if false {
		err = l.dlp.Storage.Delete(context.Background(), l.key)
	}''', 'Unlock skips the Delete when no local goroutine waits (record left behind)')
mut('C04-c-done-checked-only-before-token', ['C04'], K,
 '''	case <-l.lockCh:
		if !chans.IsOpened(l.dlp.done) {
			return fmt.Errorf("kvsLock.lockInternal(): locking mechanism is shutdown: %w", errors.ErrClosed)
		}
		if !atomic.CompareAndSwapInt32(&l.lckCntr, 0, 1) {
			l.dlp.logger.Errorf("kvsLock.lockInternal(): internal error, invalid locker state %s", l.String())''',
 '''	case <-l.lockCh:
		if !atomic.CompareAndSwapInt32(&l.lckCntr, 0, 1) {
			l.dlp.logger.Errorf("kvsLock.lockInternal(): internal error, invalid locker state %s", l.String())''', 'done is not re-checked after the token was taken (select may pick the token although shut down)')
mut('C04-e-trylock-failure-forgets-counter', ['C04'], K,
 '''		return true
	}
	atomic.StoreInt32(&l.lckCntr, 0)
	l.lockCh <- true
	return false''',
 '''		return true
	}
	l.lockCh <- true
	return false''', 'a failed TryLock leaves the held flag set: the next local attempt panics / cannot proceed')
# ---------------- C05
mut('C05-a-renewal-ignores-cas-error', ['C05'], K,
 '''		if errors.Is(err, errors.ErrNotExist) || errors.Is(err, errors.ErrConflict) || !l.isLocked() {''',
 '''		if !l.isLocked() {''', 'renewal re-arms itself on ErrNotExist/ErrConflict as well while the Locker is locked again (stale chain keeps going)')
mut('C05-b-renewal-at-full-ttl', ['C05'], K,
 '''	newFuture := l.renewIn(r.Version, l.dlp.leaseTTL/2)''',
 '''	newFuture := l.renewIn(r.Version, l.dlp.leaseTTL)''', 'renewal re-armed at leaseTTL instead of leaseTTL/2')
mut('C05-c-revert-F10', ['C05'], K,
 '''		if errors.Is(err, errors.ErrNotExist) || errors.Is(err, errors.ErrConflict) || !l.isLocked() {''',
 '''		if true {''', 'revert of fix F10: any renewal error ends the chain')
mut('C05-d-unlock-does-not-cancel-timer', ['C05'], K,
 '''	future := l.future.Load().(timeout.Future)
	future.Cancel()
	err := l.dlp.Storage.Delete''',
 '''	err := l.dlp.Storage.Delete''', 'Unlock no longer cancels the pending renewal timer')
# ---------------- inmem: C01-d, C02, C06, C07
I='kvs/inmem/inmem.go'
mut('C01-d-inmem-create-check-before-lock', ['C02','C01'], I,
 '''func (s *service) Create(ctx context.Context, record kvs.Record) (string, error) {
	s.lock.Lock()
	defer s.lock.Unlock()
	if ctx.Err() != nil {
		return "", ctx.Err()
	}
	if r, ok := s.getLive(record.Key, time.Now()); ok {
		return r.Version, errors.ErrExist
	}''',
 '''func (s *service) Create(ctx context.Context, record kvs.Record) (string, error) {
	if ctx.Err() != nil {
		return "", ctx.Err()
	}
	s.lock.Lock()
	r, ok := s.getLive(record.Key, time.Now())
	s.lock.Unlock()
	if ok {
		return r.Version, errors.ErrExist
	}
	s.lock.Lock()
	defer s.lock.Unlock()''', 'existence check and insertion in two critical sections')
mut('C02-b-inmem-cas-version-reuse', ['C02','C03'], I,
 '''	if r.Version != record.Version {
		return kvs.Record{}, errors.ErrConflict
	}
	record.Version = ulidutils.NewID()''',
 '''	if r.Version != record.Version {
		return kvs.Record{}, errors.ErrConflict
	}
	if string(r.Value) != string(record.Value) {
		record.Version = ulidutils.NewID()
	}''', 'CAS that does not change the value keeps the version (optimisation) - a second CAS with the same version succeeds')
mut('C06-a-inmem-delete-ignores-expiry', ['C06'], I,
 '''	if _, ok := s.getLive(key, time.Now()); !ok {
		return errors.ErrNotExist
	}
	delete(s.recs, key)''',
 '''	if _, ok := s.recs[key]; !ok {
		return errors.ErrNotExist
	}
	delete(s.recs, key)''', 'expiry check dropped from Delete')
mut('C06-c-inmem-listkeys-ignores-expiry', ['C06'], I,
 '''		if r.ExpiresAt != nil && r.ExpiresAt.Before(now) {
			// expired, it will be removed on the first direct access
			continue
		}''',
 '''		_ = r
		_ = now''', 'expiry check dropped from ListKeys')
mut('C06-d-inmem-expiry-inverted-for-getmany', ['C06'], I,
 '''		if r.ExpiresAt != nil {
			if r.ExpiresAt.Before(time.Now()) {
				delete(s.recs, key)
				s.notifyWaiters(key)
				continue
			}
		}
		res[idx] = &r''',
 '''		if r.ExpiresAt != nil {
			if r.ExpiresAt.Before(time.Now().Add(-time.Hour)) {
				delete(s.recs, key)
				s.notifyWaiters(key)
				continue
			}
		}
		res[idx] = &r''', 'GetMany keeps records for an hour after their expiry (grace period)')
mut('C07-a-cancel-deletes-entry-without-close', ['C07'], I,
 '''	ws.waiters--
	if ws.waiters == 0 {
		close(ws.done)
		delete(s.verChange, key)
	}
}''',
 '''	ws.waiters--
	delete(s.verChange, key)
	if ws.waiters == 0 {
		close(ws.done)
	}
}''', 'a waiter that gives up removes the table entry even if others still wait (they miss the next mutation)')
mut('C07-b-putmany-does-not-notify', ['C07'], I,
 '''		r.Version = ulidutils.NewID()
		s.recs[r.Key] = r
		s.notifyWaiters(r.Key)
	}
	return nil''',
 '''		r.Version = ulidutils.NewID()
		s.recs[r.Key] = r
	}
	return nil''', 'PutMany does not notify waiters')
mut('C07-c-waiter-returns-nil-after-any-wakeup', ['C07'], I,
 '''		case <-ws.done:
			// need to check the version, go around
			if expTmr != nil {
				expTmr.Stop()
			}''',
 '''		case <-ws.done:
			if expTmr != nil {
				expTmr.Stop()
			}
			return nil''', 'waiter returns nil after any wake-up without re-checking (invents a change / wrong result after Delete)')
mut('C07-d-delete-does-not-notify', ['C07','C04'], I,
 '''	delete(s.recs, key)
	s.notifyWaiters(key)
	return nil
}

func (s *service) WaitForVersionChange''',
 '''	delete(s.recs, key)
	return nil
}

func (s *service) WaitForVersionChange''', 'Delete does not notify waiters')
# ---------------- redis
R='kvs/redis/redis.go'
mut('C02-c-redis-create-get-then-set', ['C02'], R,
 '''		ok, err := c.rdb.SetNX(ctx, rKey(record.Key), buf, expiration(record.ExpiresAt, time.Now())).Result()
		if err != nil {
			return "", checkErr(err)
		}''',
 '''		n, err := c.rdb.Exists(ctx, rKey(record.Key)).Result()
		if err != nil {
			return "", checkErr(err)
		}
		ok := n == 0
		if ok {
			_, err = c.rdb.Set(ctx, rKey(record.Key), buf, expiration(record.ExpiresAt, time.Now())).Result()
		}
		if err != nil {
			return "", checkErr(err)
		}''', 'SETNX replaced by EXISTS + SET')
mut('C02-d-redis-cas-without-watch', ['C02'], R,
 '''	}, key)
		if err == redis.TxFailedErr {''',
 '''	})
		if err == redis.TxFailedErr {''', 'CAS transaction does not WATCH the key')
mut('C03-a-redis-revert-F7', ['C03','C02','C07'], R,
 '''		r.Version = ulidutils.NewID()
		mset = append(mset, rKey(r.Key))''',
 '''		mset = append(mset, rKey(r.Key))''', 'revert of fix F7 (MSET branch keeps the caller version)')
mut('C06-b-redis-expiration-operands-swapped', ['C06'], R,
 '''		expiration = (*eat).Sub(curT)''',
 '''		expiration = curT.Sub(*eat)''', 'expiration(): operands swapped (negative -> clamped to 1 ms)')
mut('C03-b-redis-getmany-misaligned', ['C03'], R,
 '''		r := db2rec(cast.StringToByteArray(val.(string)))
		r.Key = keys[idx]
		result[idx] = &r''',
 '''		r := db2rec(cast.StringToByteArray(val.(string)))
		result[idx] = &r''', 'GetMany returns the stored key (with caller prefix differences) instead of the requested one')
# ---------------- lru C09
L='container/lru/ecache.go'
mut('C09-a-inflight-removed-before-create', ['C09'], L,
 '''		v, err := p.createNewF(pk)

		p.lock.Lock()
		close(ch)
		delete(p.inflight, k)''',
 '''		p.lock.Lock()
		delete(p.inflight, k)
		p.lock.Unlock()
		v, err := p.createNewF(pk)

		p.lock.Lock()
		close(ch)''', 'in-flight entry removed before the create callback runs')
mut('C09-b-waiter-returns-zero', ['C09'], L,
 '''		if watcher {
			<-ch
			continue
		}''',
 '''		if watcher {
			<-ch
			p.lock.Lock()
			res, _ := p.items.Get(k)
			p.lock.Unlock()
			return res.v, nil
		}''', 'waiter returns whatever is there after the wake-up (zero value if creation failed / entry already evicted)')
mut('C09-c-insert-outside-mutex', ['C09'], L,
 '''		p.lock.Lock()
		close(ch)
		delete(p.inflight, k)
		if err == nil {
			p.items.Add(k, pair[PK, V]{pk, v})''',
 '''		if err == nil {
			p.items.Add(k, pair[PK, V]{pk, v})
		}
		p.lock.Lock()
		close(ch)
		delete(p.inflight, k)
		if err == nil {''', 'insertion moved outside the mutex')
mut('C09-d-close-skipped-on-error', ['C09'], L,
 '''		p.lock.Lock()
		close(ch)
		delete(p.inflight, k)
		if err == nil {''',
 '''		p.lock.Lock()
		delete(p.inflight, k)
		if err != nil {
			p.lock.Unlock()
			return v, err
		}
		close(ch)
		if err == nil {''', 'waiters are not woken when the creation fails')
# ---------------- timeout C12 / C13
T='timeout/timeout.go'
mut('C12-a-swap-indices-crosswise', ['C12'], T,
 '''	(*fs)[i].idx, (*fs)[j].idx = i, j''',
 '''	(*fs)[i].idx, (*fs)[j].idx = j, i''', 'Swap assigns the indices crosswise')
mut('C12-b-pop-one-ms-early', ['C12'], T,
 '''			if now.After(fireT) {
				fu := heap.Pop(cc.futures).(*future)''',
 '''			if fireT.Sub(now) < time.Millisecond {
				fu := heap.Pop(cc.futures).(*future)''', 'pop when less than 1 ms remains')
mut('C12-c-cancel-without-idx-guard', ['C12'], T,
 '''	if fu.idx < 0 {
		return
	}
	fu.f = nil''',
 '''	if fu.idx < 0 && fu.f == nil {
		return
	}
	fu.f = nil
	if fu.idx < 0 {
		fu.idx = 0
	}''', 'cancel of a popped future removes whatever sits in slot 0')
mut('C12-d-pop-keeps-idx', ['C12'], T,
 '''	(*fs) = (*fs)[:last]
	res.idx = -1
	return res''',
 '''	(*fs) = (*fs)[:last]
	return res''', 'Pop does not reset idx: Cancel after firing removes another future')
mut('C13-a-add-never-pokes', ['C13'], T,
 '''		go cc.watcher()
	} else {
		cc.notifyWatcher()
	}
}''',
 '''		go cc.watcher()
	}
}''', 'add never pokes the wake channel')
mut('C13-b-last-worker-leaves-with-work', ['C13','C12'], T,
 '''			tmt = fireT.Sub(now)
			if cc.watchers > 1 {''',
 '''			tmt = fireT.Sub(now)
			if cc.watchers > 0 {''', 'worker exit test ignores that it is the last worker')
mut('C13-c-add-spawns-only-when-empty', ['C13'], T,
 '''	heap.Push(cc.futures, fu)
	if cc.watchers == 0 {''',
 '''	empty := cc.futures.Len() == 0
	heap.Push(cc.futures, fu)
	if cc.watchers == 0 && empty {''', 'add spawns a worker only when the queue was empty')
mut('C13-d-cancel-does-not-poke', ['C13'], T,
 '''	heap.Remove(cc.futures, fu.idx)
	if cc.watchers > 0 {
		cc.notifyWatcher()
	}''',
 '''	heap.Remove(cc.futures, fu.idx)''', 'cancel does not poke the worker (only matters for wind-down timing; may be equivalent)')
mut('C13-e-worker-never-exits', ['C13'], T,
 '''			if misCount > 1 {
				cc.watchers--
				cc.lock.Unlock()
				return
			}
			// if the worker did the job''',
 '''			if misCount > 1 && cc.watchers > 1 {
				cc.watchers--
				cc.lock.Unlock()
				return
			}
			// if the worker did the job''', 'the last worker never exits: no wind-down to zero goroutines')

def main():
    wt='/tmp/mkmut-wt'
    subprocess.run(['git','-C','/repo','worktree','remove','--force',wt],capture_output=True)
    subprocess.check_call(['git','-C','/repo','worktree','add','--detach',wt,'HEAD','-q'])
    index=[]
    try:
        for m in M:
            p=os.path.join(wt,m['file'])
            s=open(p).read()
            if m['old'] not in s:
                print('OLD TEXT NOT FOUND:',m['name']); continue
            open(p,'w').write(s.replace(m['old'],m['new'],1))
            r=subprocess.run(['go','build','./...'],cwd=wt,capture_output=True,text=True,env=dict(os.environ,GOFLAGS='-mod=mod',GOPROXY='off',GOSUMDB='off'))
            if r.returncode!=0:
                print('DOES NOT COMPILE:',m['name'],r.stderr[:400])
            else:
                d=subprocess.run(['git','diff'],cwd=wt,capture_output=True,text=True).stdout
                os.makedirs(f"/verif/mutants/{m['name']}",exist_ok=True)
                open(f"/verif/mutants/{m['name']}/patch.diff",'w').write(d)
                json.dump(dict(name=m['name'],breaks=m['props'],note=m['note'],origin='own catalogue (DESIGN.md §7)'),open(f"/verif/mutants/{m['name']}/meta.json",'w'),indent=1)
                index.append(m['name'])
            subprocess.check_call(['git','checkout','--','.'],cwd=wt)
    finally:
        subprocess.run(['git','-C','/repo','worktree','remove','--force',wt],capture_output=True)
    print(len(index),'mutants written')
main()
