#!/bin/bash
# round.sh <round> <letterA> <letterB> <ID>...: store the agent deliverables of /tmp/seed<round>-<ID>-out and confirm + check them
r=$1; a=$2; b=$3; shift 3
cd "$(dirname "$0")/.."
for id in "$@"; do
  tools/storeseed.sh $id $r /tmp/seed$r-$id-out $a $b
  for y in $a $b; do [ -d seeded/$id-$y ] && tools/seedcheck.sh seeded/$id-$y $id 2>&1 | tail -1 | cut -c1-330 | tee -a logs/round$r.out; done
done
