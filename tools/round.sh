#!/bin/bash
# round.sh <round> <letterA> <letterB> <ID>...: store the agent deliverables of /tmp/seed<round>-<ID>-out and confirm + check
# them (three properties at a time); RESULT lines go to logs/round<round>.out
r=$1; a=$2; b=$3; shift 3
cd "$(dirname "$0")/.."
one() {
  id=$1
  tools/storeseed.sh $id $r /tmp/seed$r-$id-out $a $b
  for y in $a $b; do [ -d seeded/$id-$y ] && tools/seedcheck.sh seeded/$id-$y $id 2>&1 | tail -1 | cut -c1-330 | tee -a logs/round$r.out; done
}
export -f one; export r a b
printf '%s\n' "$@" | xargs -P ${ROUND_LANES:-3} -I{} bash -c 'one {}'
