#!/usr/bin/env bash
# seedcheck.sh <deliverable-dir> <PROPERTY-ID> [more check ids...]
# Confirms a seeded change (patch.diff + demo/) and runs the registered quick check(s) against it.
#   1. fresh scratch worktree of /repo HEAD (outside /repo and /verif), removed at the end
#   2. demo passes WITHOUT the change            3. change applies, builds, existing suite passes
#   4. demo fails WITH the change                5. ./check <ID> quick with VERIF_REPO=<worktree> -> expected exit 1
# Prints one RESULT line. Env: SEED_TIER=quick|thorough (default quick), KEEP=1 keeps the worktree,
# SKIP_SUITE=1 does not re-run the pinned suite (re-sweeps of changes that were confirmed when they were stored).
set -u
D=$(readlink -f "$1"); shift
IDS="$*"
export GOFLAGS=-mod=mod GOPROXY=off GOSUMDB=off
NAME=$(echo "$D" | tr '/' '_' | tail -c 40)
WT=/tmp/sc$NAME
git -C /repo worktree remove --force $WT >/dev/null 2>&1
git -C /repo worktree add --detach $WT HEAD -q || { echo "RESULT $D worktree-failed"; exit 2; }
cleanup() {
  [ "${KEEP:-0}" = 1 ] && return
  git -C /repo worktree remove --force $WT >/dev/null 2>&1
  # the test binaries and the scratch modfile built against this worktree
  local tag; tag=$(echo "$WT" | md5sum | cut -c1-10)
  rm -f /verif/bin/*.$tag.test /verif/harness/.modfiles/*$tag* 2>/dev/null
}
trap cleanup EXIT
LOG=/verif/logs/seedcheck.$NAME.log; mkdir -p /verif/logs; : > $LOG

demo_pkgs=""
if [ -d "$D/demo" ]; then
  demo_pkgs=$(cd "$D/demo" && find . -name '*.go' -printf '%h\n' | sort -u)
fi
copy_demo() { [ -d "$D/demo" ] && cp -r "$D/demo/." $WT/; }
remove_demo() { [ -d "$D/demo" ] && (cd "$D/demo" && find . -type f) | while read f; do rm -f "$WT/$f"; done; }
run_demo() { # -> 0 pass, 1 fail
  local rc=0
  for p in $demo_pkgs; do
    # only the demonstration's own tests (the package's timing-sensitive tests flake on a loaded machine)
    names=$(cat "$D/demo/$p"/*_test.go 2>/dev/null | grep -oE '^func (Test[A-Za-z0-9_]*)' | awk '{print $2}' | paste -sd'|')
    (cd $WT && timeout 600 go test -count=1 -run "^(${names:-Test})\$" ./$p/ ) >>$LOG 2>&1 || rc=1
  done
  return $rc
}

demo_without=skip; demo_with=skip
if [ -n "$demo_pkgs" ]; then
  copy_demo
  if run_demo; then demo_without=pass; else demo_without=FAIL; fi
  remove_demo
fi
if ! git -C $WT apply "$D/patch.diff" >>$LOG 2>&1; then echo "RESULT $D patch-does-not-apply"; exit 2; fi
if ! (cd $WT && go build ./... ) >>$LOG 2>&1; then echo "RESULT $D does-not-compile"; exit 2; fi
suite=pass
[ "${SKIP_SUITE:-0}" = 1 ] && suite="not-rerun(confirmed-when-stored)"
for attempt in 1 2 3; do
  [ "${SKIP_SUITE:-0}" = 1 ] && break
  (cd $WT && timeout 1500 go test -count=1 ./... ) >$LOG.suite 2>&1
  fails=$(grep -E '^(--- FAIL|FAIL)' $LOG.suite | grep -v 'TestBunch2' | grep -E '^--- FAIL' | awk '{print $3}' | sort -u | tr '\n' ' ')
  if [ -z "$fails" ]; then suite=pass; break; else suite="FAIL($fails)"; fi
done
[ -f $LOG.suite ] && cat $LOG.suite >> $LOG; rm -f $LOG.suite
if [ -n "$demo_pkgs" ]; then
  copy_demo
  if run_demo; then demo_with=PASS-unexpected; else demo_with=fails-as-expected; fi
  remove_demo
fi
checks=""
for id in $IDS; do
  out=$(cd /verif && VERIF_REPO=$WT VERIF_EVIDENCE_DIR=/tmp ./check $id ${SEED_TIER:-quick} 2>&1)
  rc=$?
  sig=$(echo "$out" | grep -m1 '^VIOLATION' | sed 's/.*sig=\([^ ]*\).*/\1/')
  echo "$out" | grep -E '^(VIOLATION|INCONCLUSIVE|SUMMARY|KNOWN)' | cut -c1-400 >>$LOG
  checks="$checks $id:rc=$rc${sig:+:$sig}"
done
echo "RESULT $D suite=$suite demo_without=$demo_without demo_with=$demo_with checks:$checks"
