#!/usr/bin/env python3
"""Generates /verif/benign/<name>/patch.diff: behaviour-preserving or explicitly tolerated changes.
Every check listed must stay SILENT on them (no alarm on code where the property holds)."""
import subprocess, os, json
M=[]
def ben(name, checks, file, old, new, note): M.append(dict(name=name,checks=checks,file=file,old=old,new=new,note=note))
K='kvs/distlock/kvlock.go'
ben('renew-at-third-of-lease',['C05','C01','C04'],K,
 '''	newFuture := l.renewIn(r.Version, l.dlp.leaseTTL/2)''',
 '''	newFuture := l.renewIn(r.Version, l.dlp.leaseTTL/3)''','renewal re-armed at leaseTTL/3 (more often than necessary)')
ben('retry-interval-sixteenth',['C05'],K,
 '''		newFuture := l.renewIn(ver, l.dlp.leaseTTL/8)''',
 '''		newFuture := l.renewIn(ver, l.dlp.leaseTTL/16)''','retry after a transient renewal error sooner')
ben('unlock-without-cancel',['C05','C04','C01'],K,
 '''	future := l.future.Load().(timeout.Future)
	future.Cancel()
	err := l.dlp.Storage.Delete''','''	err := l.dlp.Storage.Delete''','Unlock leaves the armed renewal to fire once and fail (tolerated by C05)')
ben('trylock-checks-ctx-first',['C01','C04'],K,
 '''	if err := l.tryLockInternal(); err != nil {
		return false
	}''','''	if ctx.Err() != nil {
		return false
	}
	if err := l.tryLockInternal(); err != nil {
		return false
	}''','TryLock returns false at once for a dead context')
I='kvs/inmem/inmem.go'
ben('inmem-get-uses-getlive',['C02','C03','C06','C07'],I,
 '''	r, ok := s.recs[key]
	if !ok {
		return kvs.Record{}, errors.ErrNotExist
	}
	if r.ExpiresAt != nil {
		if r.ExpiresAt.Before(time.Now()) {
			delete(s.recs, key)
			s.notifyWaiters(key)
			return kvs.Record{}, errors.ErrNotExist
		}
	}
	return r, nil''','''	r, ok := s.getLive(key, time.Now())
	if !ok {
		return kvs.Record{}, errors.ErrNotExist
	}
	return r, nil''','Get refactored onto the getLive helper')
ben('inmem-expiry-timer-margin-5ms',['C06','C07','C05'],I,
 '''time.Until(*r.ExpiresAt) + time.Millisecond''','''time.Until(*r.ExpiresAt) + 5*time.Millisecond''','waiter wakes 5 ms after the expiry instead of 1 ms')
ben('inmem-listkeys-purges',['C03','C06','C07'],I,
 '''		if r.ExpiresAt != nil && r.ExpiresAt.Before(now) {
			// expired, it will be removed on the first direct access
			continue
		}''','''		if r.ExpiresAt != nil && r.ExpiresAt.Before(now) {
			delete(s.recs, k)
			s.notifyWaiters(k)
			continue
		}''','ListKeys purges expired records it meets')
R='kvs/redis/redis.go'
ben('redis-wait-constant-poll',['C07','C06','C03'],R,
 '''		timeout *= 2
		if timeout > time.Millisecond*100 {
			timeout = time.Millisecond * 2
		}''','''		timeout = 10 * time.Millisecond''','Redis WaitForVersionChange polls every 10 ms')
ben('redis-putmany-always-puts',['C02','C03','C06','C07'],R,
 '''	if len(mset) > 0 {
		_, err := c.rdb.MSet(ctx, mset).Result()
		return checkErr(err)
	}''','''	_ = mset''','PutMany always uses the per-record Put path')
T='timeout/timeout.go'
ben('timeout-pool-20',['C12','C13','C05'],T,'''	cc.maxWorkers = 10''','''	cc.maxWorkers = 20''','default pool limit 20')
ben('timeout-exit-after-three-idle-rounds',['C12','C13'],T,
 '''			if misCount > 1 {
				cc.watchers--
				cc.lock.Unlock()
				return
			}
			// if the worker did the job''','''			if misCount > 2 {
				cc.watchers--
				cc.lock.Unlock()
				return
			}
			// if the worker did the job''','the last worker lingers one more idle period')
L='container/lru/ecache.go'
ben('lru-hit-without-remove-add-when-newest',['C08','C09','C11'],L,
 '''			p.items.Remove(k)
			p.items.Add(k, res)
			p.lock.Unlock()
			return res.v, nil''','''			if p.items.Len() > 1 {
				p.items.Remove(k)
				p.items.Add(k, res)
			}
			p.lock.Unlock()
			return res.v, nil''','a hit in a cache with a single entry does not re-insert it (same order)')
X='xbinary/xbinary.go'
ben('xbinary-reject-overlong-varint',['C15','C16'],X,
 '''		b := buf[idx]
		res = res | (uint(b&127) << shft)''','''		if shft > 63 {
			return 0, 0, noBufErr("UnmarshalUInt-overlong", len(buf), 10)
		}
		b := buf[idx]
		res = res | (uint(b&127) << shft)''','over-long varints (more than 10 groups) are rejected with an error')
Q='container/ringbuffer.go'
ben('ring-at-modulo',['C14'],Q,
 '''	d := 0
	if r.r+idx >= len(r.buf) {
		d = len(r.buf)
	}
	return r.buf[r.r+idx-d]''','''	return r.buf[(r.r+idx)%len(r.buf)]''','At computed with modulo')
B='container/bytes/blocks.go'
ben('blocks-free-lowers-hint-to-header-start',['C17'],B,
 '''	idx = int(offs) + fidx
	if bks.freeIdx > idx {
		bks.freeIdx = idx
	}''','''	idx = int(offs)
	if bks.freeIdx > idx {
		bks.freeIdx = idx
	}''','FreeBlock lowers the hint to the start of the header (more scanning, same results)')
F='files/files.go'
ben('unzip-clean-dest-first',['C20'],F,
 '''	pathChecked := make(map[string]bool)''','''	destDir = filepath.Clean(destDir)
	pathChecked := make(map[string]bool)''','destination cleaned once up front')
E='errors/grpc.go'
ben('grpc-status-code-sorted-scan',['C19'],E,
 '''	for e, c := range errorsToCode {
		if errors.Is(err, e) {
			return c
		}
	}
	return codes.Internal''','''	for _, e := range []error{ErrExist, ErrNotExist, ErrInvalid, ErrNotAuthorized, ErrInternal, ErrDataLoss, ErrExhausted, ErrUnimplemented, ErrConflict, ErrCanceled} {
		if errors.Is(err, e) {
			return errorsToCode[e]
		}
	}
	return codes.Internal''','deterministic scan order')
MX='container/iterable/mixer.go'
ben('mixer-hasnext-explicit',['C18'],MX,
 '''	mr.selectState()
	return mr.st != 3
}''','''	mr.selectState()
	return mr.st == 1 || mr.st == 2
}''','HasNext expressed positively')
MP='container/iterable/map.go'
ben('map-no-pool',['C10','C11','C08','C09'],MP,
 '''	rliNew := im.pool.Get().(*rlItem[K, V])''','''	rliNew := &rlItem[K, V]{}''','nodes are allocated instead of taken from the pool')

# ---- rounds 5-6: variants probing the newer monitors
ben('expirable-retries-up-to-three-times',['C08','C09','C11'],'container/lru/expirable.go',
 '''	if v.GetExpiresAt().Before(now) {
		// remove from cache
		p.Remove(k)
		// call get or create again to add new version of the item
		return p.Cache.GetOrCreate(k)
	}

	return v, nil''','''	for i := 0; i < 3 && v.GetExpiresAt().Before(now); i++ {
		// remove from cache
		p.Remove(k)
		// call get or create again to add new version of the item
		if v, err = p.Cache.GetOrCreate(k); err != nil {
			return v, err
		}
	}

	return v, nil''','a stale replacement is replaced again, up to three rounds (the statement does not fix the number of rounds)')
ben('redis-wait-last-sleep-ends-at-deadline',['C07','C06','C03'],R,
 '''		tmr := time.NewTimer(timeout)
		select {''','''		if dl, ok := ctx.Deadline(); ok && time.Until(dl) < timeout {
			timeout = time.Until(dl) + time.Millisecond
		}
		tmr := time.NewTimer(timeout)
		select {''','the last poll sleep is cut to the context deadline; the context error is still only returned once the context is done')
ben('redis-put-set-and-pexpireat-in-multi',['C02','C03','C06','C07'],R,
 '''	_, err := c.rdb.Set(ctx, rKey(record.Key), buf, expiration(record.ExpiresAt, time.Now())).Result()
	return record, checkErr(err)''','''	if record.ExpiresAt == nil {
		_, err := c.rdb.Set(ctx, rKey(record.Key), buf, 0).Result()
		return record, checkErr(err)
	}
	ttl := expiration(record.ExpiresAt, time.Now())
	_, err := c.rdb.TxPipelined(ctx, func(pipe redis.Pipeliner) error {
		pipe.Set(ctx, rKey(record.Key), buf, 0)
		pipe.PExpire(ctx, rKey(record.Key), ttl)
		return nil
	})
	return record, checkErr(err)''','Put with an expiry = SET + PEXPIRE inside MULTI/EXEC (still one atomic step)')
ben('renewal-ctx-timeout-half-lease',['C05','C01','C04'],K,
 '''	future := l.future.Load().(timeout.Future)
	r, err := l.dlp.Storage.CasByVersion(context.Background(), kvs.Record{''','''	future := l.future.Load().(timeout.Future)
	rctx, rcancel := context.WithTimeout(context.Background(), l.dlp.leaseTTL/2)
	defer rcancel()
	r, err := l.dlp.Storage.CasByVersion(rctx, kvs.Record{''','the renewal call gives up after half a lease (by then the lease is lost anyway)')
ben('lockwithctx-wraps-context-error',['C04','C01','C05'],K,
 '''	atomic.StoreInt32(&l.lckCntr, 0)
	l.lockCh <- true
	return err
}''','''	atomic.StoreInt32(&l.lckCntr, 0)
	l.lockCh <- true
	return fmt.Errorf("kvsLock.lockWithCtx(): could not acquire %s: %w", l.key, err)
}''','the error of a failed LockWithCtx is wrapped (errors.Is still finds the context error)')
ben('timeout-add-always-pokes',['C12','C13','C05'],T,
 '''	if cc.watchers == 0 {
		cc.watchers++
		go cc.watcher()
	} else {
		cc.notifyWatcher()
	}''','''	if cc.watchers == 0 {
		cc.watchers++
		go cc.watcher()
	}
	cc.notifyWatcher()''','add pokes the wake channel also when it has just started the first worker')
ben('inmem-getlive-compares-unix-milli',['C06','C03','C07','C02'],I,
 '''	if r.ExpiresAt != nil && r.ExpiresAt.Before(now) {
		delete(s.recs, key)
		s.notifyWaiters(key)
		return kvs.Record{}, false''','''	if r.ExpiresAt != nil && r.ExpiresAt.UnixMilli() < now.UnixMilli() {
		delete(s.recs, key)
		s.notifyWaiters(key)
		return kvs.Record{}, false''','liveness compared in wall-clock milliseconds (no overflow before the year 292 million)')

# ---- rounds 7-10: variants probing the later monitors
ben('inmem-put-copies-the-expiry',['C06','C03','C02','C07'],I,
 '''	record.Version = ulidutils.NewID()
	s.recs[record.Key] = record
	s.notifyWaiters(record.Key)
	return record, nil''','''	record.Version = ulidutils.NewID()
	if record.ExpiresAt != nil {
		t := *record.ExpiresAt // own copy: the caller may reuse its variable
		record.ExpiresAt = &t
	}
	s.recs[record.Key] = record
	s.notifyWaiters(record.Key)
	return record, nil''','Put stores a copy of the caller ExpiresAt value instead of the caller pointer')
ben('inmem-wait-caps-the-expiry-timer',['C07','C06','C05'],I,
 '''			expTmr = time.NewTimer(time.Until(*r.ExpiresAt) + time.Millisecond)''',
 '''			d := time.Until(*r.ExpiresAt)
			if d > 24*time.Hour {
				d = 24 * time.Hour // far-away expiries (incl. saturated durations): look again tomorrow
			}
			expTmr = time.NewTimer(d + time.Millisecond)''','the waiter timer is capped at a day (no overflow for never-expiring records, no busy loop)')
ben('redis-getmany-in-batches-of-128',['C02','C03','C06'],R,
 '''	res, err := c.rdb.MGet(ctx, rKeys(keys)...).Result()
	if err != nil {
		return nil, checkErr(err)
	}
	result := make([]*kvs.Record, len(keys))
	for idx, val := range res {
		if val == nil {
			continue
		}
		r := db2rec(cast.StringToByteArray(val.(string)))
		r.Key = keys[idx]
		result[idx] = &r
	}
	return result, nil''','''	result := make([]*kvs.Record, len(keys))
	for off := 0; off < len(keys); off += 128 {
		end := off + 128
		if end > len(keys) {
			end = len(keys)
		}
		res, err := c.rdb.MGet(ctx, rKeys(keys[off:end])...).Result()
		if err != nil {
			return nil, checkErr(err)
		}
		for idx, val := range res {
			if val == nil {
				continue
			}
			r := db2rec(cast.StringToByteArray(val.(string)))
			r.Key = keys[off+idx]
			result[off+idx] = &r
		}
	}
	return result, nil''','GetMany reads in MGET batches of 128 (indexes right)')
ben('timeout-one-timer-per-worker-drained',['C12','C13','C05'],T,
 '''		tmr := time.NewTimer(tmt)
		select {
		case <-tmr.C:
		case <-cc.wakeCh:
			if !tmr.Stop() {
				<-tmr.C
			}
			misCount = 0
		}''','''		if tmr == nil {
			tmr = time.NewTimer(tmt)
		} else {
			tmr.Reset(tmt)
		}
		select {
		case <-tmr.C:
		case <-cc.wakeCh:
			if !tmr.Stop() {
				select {
				case <-tmr.C:
				default:
				}
			}
			misCount = 0
		}''','one timer per worker, re-armed; a tick that raced the wake-up is drained')
M[-1]['also']=('''	misCount := 0
	var f func()''','''	misCount := 0
	var tmr *time.Timer
	var f func()''')

def main():
    wt='/tmp/mkben-wt'
    subprocess.run(['git','-C','/repo','worktree','remove','--force',wt],capture_output=True)
    subprocess.check_call(['git','-C','/repo','worktree','add','--detach',wt,'HEAD','-q'])
    n=0
    try:
        for m in M:
            p=os.path.join(wt,m['file']); s=open(p).read()
            if m['old'] not in s: print('OLD TEXT NOT FOUND:',m['name']); continue
            s2=s.replace(m['old'],m['new'],1)
            if m.get('also'): s2=s2.replace(m['also'][0],m['also'][1],1)
            open(p,'w').write(s2)
            r=subprocess.run(['go','build','./...'],cwd=wt,capture_output=True,text=True,env=dict(os.environ,GOFLAGS='-mod=mod',GOPROXY='off',GOSUMDB='off'))
            if r.returncode!=0: print('DOES NOT COMPILE:',m['name'],r.stderr[:300])
            else:
                d=subprocess.run(['git','diff'],cwd=wt,capture_output=True,text=True).stdout
                os.makedirs(f"/verif/benign/{m['name']}",exist_ok=True)
                open(f"/verif/benign/{m['name']}/patch.diff",'w').write(d)
                json.dump(dict(name=m['name'],breaks=m['checks'],expect='silent',note=m['note']),open(f"/verif/benign/{m['name']}/meta.json",'w'),indent=1); n+=1
            subprocess.check_call(['git','checkout','--','.'],cwd=wt)
    finally:
        subprocess.run(['git','-C','/repo','worktree','remove','--force',wt],capture_output=True)
    print(n,'benign changes written')
main()
