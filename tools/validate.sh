#!/usr/bin/env bash
# validates MANIFEST.json and every evidence file against the schemas
python3-vt - <<'PY'
import json,jsonschema,glob,sys
ok=True
try:
    jsonschema.validate(json.load(open('/verif/MANIFEST.json')), json.load(open('/root/.vp/MANIFEST.schema.json')))
except Exception as e:
    print('MANIFEST invalid:',e); ok=False
es=json.load(open('/root/.vp/EVIDENCE.schema.json'))
for f in sorted(glob.glob('/verif/evidence/C*.json')):
    try:
        jsonschema.validate(json.load(open(f)), es)
    except Exception as e:
        print(f,'invalid:',str(e)[:300]); ok=False
print('valid' if ok else 'INVALID')
sys.exit(0 if ok else 1)
PY
