// C15 — binary codec: round trip and size prediction (DESIGN §3 C15).
//
// Every value of every supported kind is pushed through Marshal*, Unmarshal*, Writable*Size and
// ObjectsWriter and the results are compared with each other exactly as the statement relates them:
//
//	written(Marshal) == predicted(Writable*Size) == written(ObjectsWriter), identical bytes;
//	Unmarshal(Marshal(x)) == x and consumes exactly the bytes produced (also with bytes following);
//	destination length L in 0..size+1: success iff L >= size, otherwise n == 0 and an error;
//	a concatenation of encoded items decodes back to the item list with nothing left;
//	newBuf=true: the decoded data survives overwriting the source and shares no memory with it.
//
// The wire format itself (endianness, group order) is not in the statement and is not judged.
package c15

import (
	"bytes"
	"encoding/hex"
	"encoding/json"
	"fmt"
	"math/rand"
	"os"
	"runtime"
	"sort"
	"sync"
	"testing"
	"unsafe"

	"github.com/acquirecloud/golibs/xbinary"

	"verifharness/internal/report"
)

func TestMain(m *testing.M) { os.Exit(report.ExitCode(m.Run())) }

// ---------------------------------------------------------------------------------------------
// cases

// kase is a re-runnable case (the witness of a violation).
type kase struct {
	Kind  string `json:"kind"`            // byte uint16 uint32 uint64 uint bytes string concat
	U     uint64 `json:"u,omitempty"`     // numeric kinds: the value
	Len   int    `json:"len,omitempty"`   // bytes/string: the length
	CSeed int64  `json:"cseed,omitempty"` // bytes/string: content seed (<0: constant fill); concat: generator seed
	// Sub: bytes/string longer than 8 KiB: try a subset of the destination lengths (0..64, size-64..size+1 and
	// 257 equidistant ones) instead of all of them. A failing Marshal formats an error (~1 µs), so the full
	// sweep is kept for the listed lengths and the thorough tier.
	Sub bool `json:"sub,omitempty"`
}

func (k kase) String() string {
	switch k.Kind {
	case "bytes", "string":
		return fmt.Sprintf("%s(len=%d,cseed=%d)", k.Kind, k.Len, k.CSeed)
	case "concat":
		return fmt.Sprintf("concat(seed=%d)", k.CSeed)
	}
	return fmt.Sprintf("%s(%d=%#x)", k.Kind, k.U, k.U)
}

type vio struct{ sig, what string }

func vf(sig, format string, a ...any) *vio { return &vio{sig, fmt.Sprintf(format, a...)} }

// content builds the byte string of a bytes/string case.
func content(n int, cseed int64) []byte {
	b := make([]byte, n)
	switch cseed {
	case -1:
		fill(b, 0xff)
	case -2:
		fill(b, 0x80)
	case -3: // zeros
	default:
		rand.New(rand.NewSource(cseed)).Read(b)
	}
	return b
}

func fill(b []byte, v byte) {
	for i := range b {
		b[i] = v
	}
}

// ---------------------------------------------------------------------------------------------
// worker: scratch memory, the writer under test, local statistics

type worker struct {
	secondary bool // checkptr / asan pass: every buffer is its own allocation of the exact size
	slow      bool // VERIF_BATCH re-run: print every case before it is executed
	thorough  bool
	arena     []byte
	gArena    []byte // guard-filled arena of the windowed destination sweep (re-used for small sizes)
	gPristine []byte // what gArena looked like before any call
	windows   int64  // Marshal calls made with a destination window whose capacity exceeds its length
	sink      bytes.Buffer
	ow        *xbinary.ObjectsWriter

	evals   int64
	hashes  []uint64         // one per distinct-candidate case
	classes map[string]int64 // (kind, encoded size / prefix size) classes
	samples []string
}

func newWorker(secondary bool) *worker {
	w := &worker{secondary: secondary, classes: map[string]int64{}, thorough: os.Getenv("VERIF_TIER") == "thorough"}
	w.ow = &xbinary.ObjectsWriter{Writer: &w.sink}
	return w
}

// alloc returns a buffer of length and capacity n. In the plain pass it is carved from a scratch
// arena (fast); in the sanitizer passes it is a heap object of exactly n bytes.
func (w *worker) alloc(n int) []byte {
	if w.secondary || n > 1<<16 {
		return make([]byte, n)
	}
	if len(w.arena) < n {
		w.arena = make([]byte, 1<<20)
	}
	b := w.arena[:n:n]
	w.arena = w.arena[n:]
	return b
}

// --- windowed destinations -----------------------------------------------------------------------
//
// The exact sweep hands Marshal* destinations whose capacity equals their length (three-index slices
// or heap objects of exactly that size). Real callers also pass windows of larger buffers (rec[:n],
// pooled buffers): len(dst) < cap(dst). An encoder that consults cap(dst) or re-slices dst beyond its
// length does not fault then; it silently overwrites what follows the window. The windowed sweep
// therefore repeats every destination length with dst = arena[off:off+L] (two-index form, the spare
// capacity is at least size+8) inside an arena pre-filled with a position dependent guard pattern, and
// checks after every call that each arena byte outside dst[:n] (success) / outside dst (failure: what a
// failing Marshal leaves inside its own destination is not judged) still holds the guard.

const (
	guardPre    = 16
	guardWindow = 64
)

func guardByte(i int) byte { return byte(i*197+101) ^ byte(i>>8) ^ 0x3c }

// guarded returns the arena (guard pattern everywhere) and the pristine copy for encodings of size bytes.
func (w *worker) guarded(size int) (arena, pristine []byte) {
	need := guardPre + 2*size + 48
	if need > 1<<16 {
		pristine = make([]byte, need)
		for i := range pristine {
			pristine[i] = guardByte(i)
		}
		return append([]byte(nil), pristine...), pristine
	}
	if len(w.gPristine) < need {
		w.gPristine = make([]byte, 1<<16)
		for i := range w.gPristine {
			w.gPristine[i] = guardByte(i)
		}
		w.gArena = make([]byte, 1<<16)
	}
	arena, pristine = w.gArena[:need:need], w.gPristine[:need:need]
	copy(arena, pristine)
	return
}

// windowSweep runs the destination-length sweep with windows of a guarded arena. sfx is appended to
// every signature (the length class of byte strings). Lengths must be visited in ascending order:
// then nothing outside the current window has ever been a legitimate target.
func windowSweep(w *worker, M, sfx, who string, size int, enc []byte, reduced bool, marshal func(dst []byte) (int, error, any)) *vio {
	arena, pristine := w.guarded(size)
	off := guardPre
	step := max(1, size/64)
	intact := func(exemptHi int, full bool) (int, bool) {
		if !bytes.Equal(arena[:off], pristine[:off]) {
			for i := 0; i < off; i++ {
				if arena[i] != pristine[i] {
					return i - off, false
				}
			}
		}
		lo := off + exemptHi
		hi := len(arena)
		if !full {
			hi = min(hi, lo+guardWindow)
		}
		if !bytes.Equal(arena[lo:hi], pristine[lo:hi]) {
			for i := lo; i < hi; i++ {
				if arena[i] != pristine[i] {
					return i - off, false
				}
			}
		}
		return 0, true
	}
	return sweepLens(size, reduced, func(L int) *vio {
		dst := arena[off : off+L] // two-index on purpose: cap(dst) = len(arena)-off >= L+size+8
		w.windows++
		n, err, pan := marshal(dst)
		where := fmt.Sprintf("%s into a %d-byte window (capacity %d, needs %d)", who, L, cap(dst), size)
		if pan != nil {
			return vf(M+"/window-panic"+sfx, "%s: panic %v", where, pan)
		}
		full := size <= 1024 || L%step == 0 || L >= size
		if L < size {
			if err == nil {
				pos, ok := intact(L, true)
				damage := "the bytes behind the window are intact"
				if !ok {
					damage = fmt.Sprintf("and the arena byte at window offset %d (outside the destination) was overwritten", pos)
				}
				return vf(M+"/window-short-buffer-accepted"+sfx, "%s: n=%d err=nil; %s", where, n, damage)
			}
			if n != 0 {
				return vf(M+"/window-short-buffer-n-nonzero"+sfx, "%s: n=%d with err=%v", where, n, err)
			}
			if pos, ok := intact(L, full); !ok {
				return vf(M+"/window-wrote-outside-destination"+sfx, "%s: failed with err=%v, but the arena byte at window offset %d (outside the destination) was overwritten", where, err, pos)
			}
			return nil
		}
		if err != nil {
			return vf(M+"/window-sufficient-buffer-rejected"+sfx, "%s: err=%v", where, err)
		}
		if n != size {
			return vf(M+"/window-count-varies"+sfx, "%s: n=%d", where, n)
		}
		if !bytes.Equal(dst[:n], enc) {
			return vf(M+"/window-bytes-vary"+sfx, "%s: wrote %s, into an exact buffer: %s", where, hx(dst[:n]), hx(enc))
		}
		if pos, ok := intact(n, true); !ok {
			return vf(M+"/window-wrote-outside-destination"+sfx, "%s: reported %d bytes written, but the arena byte at window offset %d was overwritten", where, n, pos)
		}
		return nil
	})
}

func mix(kind int, v uint64) uint64 {
	h := (v ^ uint64(kind+1)*0x9E3779B97F4A7C15) * 0xff51afd7ed558ccd
	h ^= h >> 33
	h *= 0xc4ceb9fe1a85ec53
	return h ^ h>>29
}

// ---------------------------------------------------------------------------------------------
// numeric kinds

type numCodec struct {
	idx       int
	kind      string // kase.Kind
	name      string // Byte, Uint16 ...
	bits      int
	size      func(uint64) int // nil: no size predictor exists for the kind
	marshal   func(uint64, []byte) (int, error)
	unmarshal func([]byte) (int, uint64, error)
	write     func(*xbinary.ObjectsWriter, uint64) (int, error)
}

var numCodecs = []*numCodec{
	{0, "byte", "Byte", 8, nil,
		func(v uint64, b []byte) (int, error) { return xbinary.MarshalByte(byte(v), b) },
		func(b []byte) (int, uint64, error) { n, v, e := xbinary.UnmarshalByte(b); return n, uint64(v), e },
		func(ow *xbinary.ObjectsWriter, v uint64) (int, error) { return ow.WriteByte(byte(v)) }},
	{1, "uint16", "Uint16", 16, nil,
		func(v uint64, b []byte) (int, error) { return xbinary.MarshalUint16(uint16(v), b) },
		func(b []byte) (int, uint64, error) { n, v, e := xbinary.UnmarshalUint16(b); return n, uint64(v), e },
		func(ow *xbinary.ObjectsWriter, v uint64) (int, error) { return ow.WriteUint16(uint16(v)) }},
	{2, "uint32", "Uint32", 32, nil,
		func(v uint64, b []byte) (int, error) { return xbinary.MarshalUint32(uint32(v), b) },
		func(b []byte) (int, uint64, error) { n, v, e := xbinary.UnmarshalUint32(b); return n, uint64(v), e },
		func(ow *xbinary.ObjectsWriter, v uint64) (int, error) { return ow.WriteUint32(uint32(v)) }},
	{3, "uint64", "Uint64", 64, nil,
		func(v uint64, b []byte) (int, error) { return xbinary.MarshalUint64(v, b) },
		func(b []byte) (int, uint64, error) { return xbinary.UnmarshalUint64(b) },
		func(ow *xbinary.ObjectsWriter, v uint64) (int, error) { return ow.WriteUint64(v) }},
	{4, "uint", "Uint", 64, xbinary.WritableUintSize,
		func(v uint64, b []byte) (int, error) { return xbinary.MarshalUint(uint(v), b) },
		func(b []byte) (int, uint64, error) { n, v, e := xbinary.UnmarshalUint(b); return n, uint64(v), e },
		func(ow *xbinary.ObjectsWriter, v uint64) (int, error) { return ow.WriteUint(uint(v)) }},
}

func codecOf(kind string) *numCodec {
	for _, c := range numCodecs {
		if c.kind == kind {
			return c
		}
	}
	return nil
}

func safeM(f func(uint64, []byte) (int, error), v uint64, b []byte) (n int, err error, pan any) {
	defer func() {
		if r := recover(); r != nil {
			pan = r
		}
	}()
	n, err = f(v, b)
	return
}

func safeU(f func([]byte) (int, uint64, error), b []byte) (n int, v uint64, err error, pan any) {
	defer func() {
		if r := recover(); r != nil {
			pan = r
		}
	}()
	n, v, err = f(b)
	return
}

func safeW(f func(*xbinary.ObjectsWriter, uint64) (int, error), ow *xbinary.ObjectsWriter, v uint64) (n int, err error, pan any) {
	defer func() {
		if r := recover(); r != nil {
			pan = r
		}
	}()
	n, err = f(ow, v)
	return
}

func safeSize(f func(uint64) int, v uint64) (n int, pan any) {
	defer func() {
		if r := recover(); r != nil {
			pan = r
		}
	}()
	return f(v), nil
}

const ample = 24

// checkNum applies the whole per-value oracle to one value of a numeric kind.
func checkNum(c *numCodec, v uint64, w *worker) *vio {
	who := fmt.Sprintf("%s(%d=%#x)", c.kind, v, v)
	M, U, W := "xbinary/Marshal"+c.name, "xbinary/Unmarshal"+c.name, "xbinary/ObjectsWriter.Write"+c.name

	// 1. encode into an ample buffer: this defines "the bytes produced"
	big := w.alloc(ample)
	fill(big, 0)
	size, err, pan := safeM(c.marshal, v, big)
	if pan != nil {
		return vf(M+"/panic", "%s into a %d-byte buffer: panic %v", who, ample, pan)
	}
	if err != nil || size < 1 || size > ample {
		return vf(M+"/ample-buffer-failed", "%s into a %d-byte buffer: n=%d err=%v", who, ample, size, err)
	}
	enc := append([]byte(nil), big[:size]...)
	w.classes[fmt.Sprintf("%s size=%d", c.kind, size)]++

	// 2. predicted size
	if c.size != nil {
		p, pan := safeSize(c.size, v)
		if pan != nil {
			return vf("xbinary/WritableUintSize/panic", "%s: panic %v", who, pan)
		}
		if p != size {
			return vf(fmt.Sprintf("xbinary/WritableUintSize/predicted%d-written%d", p, size),
				"%s: WritableUintSize=%d but MarshalUint wrote %d bytes (%x)", who, p, size, enc)
		}
	}

	// 3. the stream writer emits the identical bytes and reports the same count
	w.sink.Reset()
	n, err, pan := safeW(c.write, w.ow, v)
	if pan != nil {
		return vf(W+"/panic", "%s: panic %v", who, pan)
	}
	if err != nil {
		return vf(W+"/error", "%s: err=%v", who, err)
	}
	if n != size {
		return vf(W+"/count", "%s: writer reported %d bytes, Marshal wrote %d", who, n, size)
	}
	if !bytes.Equal(w.sink.Bytes(), enc) {
		return vf(W+"/bytes-differ", "%s: writer emitted %x, Marshal emitted %x", who, w.sink.Bytes(), enc)
	}

	// 4. every destination length 0..size+1
	for L := 0; L <= size+1; L++ {
		buf := w.alloc(L)
		sentinel := byte(0xA5)
		if L&1 == 1 {
			sentinel = 0x5A
		}
		fill(buf, sentinel)
		n, err, pan := safeM(c.marshal, v, buf)
		if pan != nil {
			if L < size {
				return vf(M+"/panic-short-buffer", "%s into %d bytes (needs %d): panic %v", who, L, size, pan)
			}
			return vf(M+"/panic", "%s into %d bytes (needs %d): panic %v", who, L, size, pan)
		}
		if L < size {
			if err == nil {
				return vf(M+"/short-buffer-accepted", "%s into %d bytes (needs %d): n=%d err=nil", who, L, size, n)
			}
			if n != 0 {
				return vf(M+"/short-buffer-n-nonzero", "%s into %d bytes (needs %d): n=%d with err=%v", who, L, size, n, err)
			}
			continue
		}
		if err != nil {
			return vf(M+"/sufficient-buffer-rejected", "%s into %d bytes (needs %d): err=%v", who, L, size, err)
		}
		if n != size {
			return vf(M+"/count-varies", "%s into %d bytes: n=%d, into %d bytes: n=%d", who, L, n, ample, size)
		}
		if !bytes.Equal(buf[:n], enc) {
			return vf(M+"/bytes-vary", "%s into %d bytes: %x, into %d bytes: %x", who, L, buf[:n], ample, enc)
		}
		if L > size && buf[size] != sentinel {
			return vf(M+"/wrote-beyond-n", "%s into %d bytes: reported %d bytes written but byte %d was overwritten", who, L, n, size)
		}
	}

	// 4b. the same lengths as windows (len < cap) of a guarded arena
	if v := windowSweep(w, M, "", who, size, enc, false, func(dst []byte) (int, error, any) { return safeM(c.marshal, v, dst) }); v != nil {
		return v
	}

	// 5. decode: from exactly the bytes produced, and with other bytes following
	for _, tail := range [][]byte{nil, {0xff, 0x80, 0x00}, {0x00}} {
		src := w.alloc(size + len(tail))
		copy(src, enc)
		copy(src[size:], tail)
		n, got, err, pan := safeU(c.unmarshal, src)
		if pan != nil {
			return vf(U+"/panic", "%s decode of %x: panic %v", who, src, pan)
		}
		if err != nil {
			return vf(U+"/error-on-valid", "%s decode of %x: err=%v", who, src, err)
		}
		if n != size {
			return vf(U+"/consumed", "%s decode of %x: consumed %d, produced %d", who, src, n, size)
		}
		if got != v {
			return vf(U+"/value", "%s decode of %x: got %d (%#x)", who, src, got, got)
		}
	}
	return nil
}

// ---------------------------------------------------------------------------------------------
// byte strings and strings

type blobResult struct {
	n    int
	err  error
	pan  any
	ptr  uintptr // address of the first decoded byte (0 when empty)
	ln   int
	same func(want []byte) bool // compares the decoded value (still referenced) with want
}

type blobCodec struct {
	idx       int
	kind      string
	name      string
	sizeName  string
	size      func(b []byte, s string) int
	marshal   func(b []byte, s string, buf []byte) (int, error)
	write     func(ow *xbinary.ObjectsWriter, b []byte, s string) (int, error)
	unmarshal func(buf []byte, newBuf bool) blobResult
}

var blobCodecs = []*blobCodec{
	{5, "bytes", "Bytes", "WritebleBytesSize",
		func(b []byte, _ string) int { return xbinary.WritebleBytesSize(b) },
		func(b []byte, _ string, buf []byte) (int, error) { return xbinary.MarshalBytes(b, buf) },
		func(ow *xbinary.ObjectsWriter, b []byte, _ string) (int, error) { return ow.WriteBytes(b) },
		func(buf []byte, newBuf bool) (r blobResult) {
			defer func() {
				if p := recover(); p != nil {
					r.pan = p
				}
			}()
			n, res, err := xbinary.UnmarshalBytes(buf, newBuf)
			r.n, r.err, r.ln = n, err, len(res)
			if len(res) > 0 {
				r.ptr = uintptr(unsafe.Pointer(unsafe.SliceData(res)))
			}
			r.same = func(want []byte) bool { return bytes.Equal(res, want) }
			return
		}},
	{6, "string", "String", "WritableStringSize",
		func(_ []byte, s string) int { return xbinary.WritableStringSize(s) },
		func(_ []byte, s string, buf []byte) (int, error) { return xbinary.MarshalString(s, buf) },
		func(ow *xbinary.ObjectsWriter, _ []byte, s string) (int, error) { return ow.WriteString(s) },
		func(buf []byte, newBuf bool) (r blobResult) {
			defer func() {
				if p := recover(); p != nil {
					r.pan = p
				}
			}()
			n, res, err := xbinary.UnmarshalString(buf, newBuf)
			r.n, r.err, r.ln = n, err, len(res)
			if len(res) > 0 {
				r.ptr = uintptr(unsafe.Pointer(unsafe.StringData(res)))
			}
			r.same = func(want []byte) bool { return res == string(want) }
			return
		}},
}

func blobOf(kind string) *blobCodec {
	for _, c := range blobCodecs {
		if c.kind == kind {
			return c
		}
	}
	return nil
}

func (c *blobCodec) safeMarshal(b []byte, s string, buf []byte) (n int, err error, pan any) {
	defer func() {
		if r := recover(); r != nil {
			pan = r
		}
	}()
	n, err = c.marshal(b, s, buf)
	return
}

func (c *blobCodec) safeWrite(ow *xbinary.ObjectsWriter, b []byte, s string) (n int, err error, pan any) {
	defer func() {
		if r := recover(); r != nil {
			pan = r
		}
	}()
	n, err = c.write(ow, b, s)
	return
}

func (c *blobCodec) safeSize(b []byte, s string) (n int, pan any) {
	defer func() {
		if r := recover(); r != nil {
			pan = r
		}
	}()
	return c.size(b, s), nil
}

// lenClass names the length-prefix class of a byte-string length (stable part of a signature).
func lenClass(n int) string {
	switch {
	case n < 1<<7:
		return "len<2^7"
	case n < 1<<14:
		return "len<2^14"
	case n < 1<<21:
		return "len<2^21"
	}
	return "len>=2^21"
}

// overhead renders encoded size minus payload length for a signature; implausible values are folded
// into one class so that a defect cannot produce an unbounded number of signatures.
func overhead(d int) string {
	if d < 0 || d > 10 {
		return "len+other"
	}
	return fmt.Sprintf("len+%d", d)
}

// sweepLens calls f for every destination length to be tried for an encoding of the given size.
func sweepLens(size int, reduced bool, f func(L int) *vio) *vio {
	if !reduced || size <= 8192 {
		for L := 0; L <= size+1; L++ {
			if v := f(L); v != nil {
				return v
			}
		}
		return nil
	}
	step := size / 257
	for L := 0; L <= size+1; L++ {
		if L <= 64 || L >= size-64 || L%step == 0 {
			if v := f(L); v != nil {
				return v
			}
		}
	}
	return nil
}

func hx(b []byte) string {
	if len(b) <= 24 {
		return hex.EncodeToString(b)
	}
	return fmt.Sprintf("%x..(%d bytes)", b[:24], len(b))
}

// checkBlob applies the whole per-value oracle to one byte string / string.
func checkBlob(c *blobCodec, val []byte, k kase, w *worker) *vio {
	who := k.String()
	s := string(val) // the string kinds get their own immutable copy
	M, U, W := "xbinary/Marshal"+c.name, "xbinary/Unmarshal"+c.name, "xbinary/ObjectsWriter.Write"+c.name
	lc := lenClass(len(val))

	// 1. encode into an ample buffer
	big := w.alloc(len(val) + ample)
	size, err, pan := c.safeMarshal(val, s, big)
	if pan != nil {
		return vf(M+"/panic", "%s into %d bytes: panic %v", who, len(big), pan)
	}
	if err != nil || size < 1 || size > len(big) {
		return vf(M+"/ample-buffer-failed", "%s into %d bytes: n=%d err=%v", who, len(big), size, err)
	}
	enc := big[:size:size]
	w.classes[fmt.Sprintf("%s prefix=%d", c.kind, size-len(val))]++

	// 2. predicted size
	p, pan := c.safeSize(val, s)
	if pan != nil {
		return vf("xbinary/"+c.sizeName+"/panic", "%s: panic %v", who, pan)
	}
	if p != size {
		return vf(fmt.Sprintf("xbinary/%s/predicted-%s-written-%s/%s", c.sizeName, overhead(p-len(val)), overhead(size-len(val)), lc),
			"%s: %s=%d but Marshal%s wrote %d bytes", who, c.sizeName, p, c.name, size)
	}

	// 3. the stream writer
	w.sink.Reset()
	n, err, pan := c.safeWrite(w.ow, val, s)
	if pan != nil {
		return vf(W+"/panic", "%s: panic %v", who, pan)
	}
	if err != nil {
		return vf(W+"/error", "%s: err=%v", who, err)
	}
	if n != size {
		return vf(W+"/count/"+lc, "%s: writer reported %d bytes, Marshal wrote %d", who, n, size)
	}
	if !bytes.Equal(w.sink.Bytes(), enc) {
		return vf(W+"/bytes-differ/"+lc, "%s: writer emitted %s, Marshal emitted %s", who, hx(w.sink.Bytes()), hx(enc))
	}
	if w.sink.Cap() > 1<<20 {
		w.sink = bytes.Buffer{}
	}

	// 4. destination lengths. A failing attempt costs O(1) (about 1 µs), so even the 2 MiB strings get every length.
	dst := w.alloc(size + 1)
	if v := sweepLens(size, w.secondary || k.Sub, func(L int) *vio {
		var buf []byte
		if w.secondary && size <= 512 {
			buf = make([]byte, L)
		} else {
			buf = dst[:L:L]
		}
		const sentinel = 0xA5
		if L >= size {
			fill(buf, sentinel)
		}
		n, err, pan := c.safeMarshal(val, s, buf)
		if pan != nil {
			if L < size {
				return vf(M+"/panic-short-buffer/"+lc, "%s into %d bytes (needs %d): panic %v", who, L, size, pan)
			}
			return vf(M+"/panic", "%s into %d bytes (needs %d): panic %v", who, L, size, pan)
		}
		if L < size {
			if err == nil {
				return vf(M+"/short-buffer-accepted/"+lc, "%s into %d bytes (needs %d): n=%d err=nil", who, L, size, n)
			}
			if n != 0 {
				return vf(M+"/short-buffer-n-nonzero/"+lc, "%s into %d bytes (needs %d): n=%d with err=%v", who, L, size, n, err)
			}
			return nil
		}
		if err != nil {
			return vf(M+"/sufficient-buffer-rejected/"+lc, "%s into %d bytes (needs %d): err=%v", who, L, size, err)
		}
		if n != size {
			return vf(M+"/count-varies/"+lc, "%s into %d bytes: n=%d, into %d bytes: n=%d", who, L, n, len(big), size)
		}
		if !bytes.Equal(buf[:n], enc) {
			return vf(M+"/bytes-vary/"+lc, "%s into %d bytes: %s, into %d bytes: %s", who, L, hx(buf[:n]), len(big), hx(enc))
		}
		if L > size && buf[size] != sentinel {
			return vf(M+"/wrote-beyond-n/"+lc, "%s into %d bytes: reported %d bytes written but byte %d was overwritten", who, L, n, size)
		}
		return nil
	}); v != nil {
		return v
	}

	// 4b. the same lengths as windows (len < cap) of a guarded arena; in the quick tier the strings
	// above 64 KiB get the sampled lengths here (their exact sweep above is complete)
	if v := windowSweep(w, M, "/"+lc, who, size, enc, w.secondary || k.Sub || (!w.thorough && size > 1<<16),
		func(dst []byte) (int, error, any) { return c.safeMarshal(val, s, dst) }); v != nil {
		return v
	}

	// 5. decode: exact and with bytes following; newBuf=false (value), newBuf=true (value, independence)
	for _, tail := range [][]byte{nil, {0xff, 0x80, 0x00}} {
		for _, newBuf := range []bool{false, true} {
			src := w.alloc(size + len(tail))
			copy(src, enc)
			copy(src[size:], tail)
			r := c.unmarshal(src, newBuf)
			how := fmt.Sprintf("%s decode(newBuf=%v, %d trailing bytes)", who, newBuf, len(tail))
			if r.pan != nil {
				return vf(U+"/panic", "%s: panic %v", how, r.pan)
			}
			if r.err != nil {
				return vf(U+"/error-on-valid/"+lc, "%s: err=%v", how, r.err)
			}
			if r.n != size {
				return vf(U+"/consumed/"+lc, "%s: consumed %d, produced %d", how, r.n, size)
			}
			if r.ln != len(val) || !r.same(val) {
				return vf(U+"/value/"+lc, "%s: decoded %d bytes that differ from the %d encoded", how, r.ln, len(val))
			}
			if newBuf {
				if r.ln > 0 {
					lo := uintptr(unsafe.Pointer(unsafe.SliceData(src)))
					hi := lo + uintptr(len(src))
					if r.ptr < hi && r.ptr+uintptr(r.ln) > lo {
						return vf(U+"/newbuf-shares-source", "%s: the decoded data lies inside the source buffer", how)
					}
				}
				for i := range src {
					src[i] ^= 0xff
				}
				if !r.same(val) {
					return vf(U+"/newbuf-not-independent", "%s: the decoded data changed when the source buffer was overwritten", how)
				}
			}
			runtime.KeepAlive(src)
		}
	}
	return nil
}

// ---------------------------------------------------------------------------------------------
// concatenations

type item struct {
	kind string
	u    uint64
	b    []byte
}

func (it item) String() string {
	if it.kind == "bytes" || it.kind == "string" {
		return fmt.Sprintf("%s[%d]", it.kind, len(it.b))
	}
	return fmt.Sprintf("%s:%d", it.kind, it.u)
}

var kinds = []string{"byte", "uint16", "uint32", "uint64", "uint", "bytes", "string"}

func randValue(rng *rand.Rand, bitsN int) uint64 {
	var v uint64
	switch x := rng.Intn(20); {
	case x < 9: // uniform
		v = rng.Uint64()
	case x < 18: // log-uniform in length
		v = rng.Uint64() >> uint(rng.Intn(64))
	case x == 18: // around a 7-bit group boundary
		v = uint64(1)<<uint(7*rng.Intn(10)) + uint64(rng.Intn(3)) - 1
	default: // around any bit boundary
		v = uint64(1)<<uint(rng.Intn(64)) + uint64(rng.Intn(3)) - 1
	}
	if bitsN < 64 {
		v &= 1<<uint(bitsN) - 1
	}
	return v
}

func randLen(rng *rand.Rand) int {
	switch x := rng.Intn(100); {
	case x < 60:
		return rng.Intn(40)
	case x < 85:
		return 120 + rng.Intn(16) // the 1 → 2 byte prefix boundary
	case x < 97:
		return rng.Intn(1000)
	case x < 99:
		return 16376 + rng.Intn(16) // the 2 → 3 byte prefix boundary
	}
	return rng.Intn(40000)
}

func genConcat(seed int64) []item {
	rng := rand.New(rand.NewSource(seed))
	n := 1 + rng.Intn(20)
	items := make([]item, n)
	for i := range items {
		k := kinds[rng.Intn(len(kinds))]
		it := item{kind: k}
		if c := codecOf(k); c != nil {
			it.u = randValue(rng, c.bits)
		} else {
			it.b = make([]byte, randLen(rng))
			rng.Read(it.b)
		}
		items[i] = it
	}
	return items
}

func checkConcat(k kase, w *worker) (v *vio, encoded []byte) {
	items := genConcat(k.CSeed)
	who := fmt.Sprintf("concat(seed=%d) %v", k.CSeed, items)
	if len(who) > 300 {
		who = who[:300] + "…"
	}
	// encode every item on its own (exact buffers) and concatenate
	var cat []byte
	sizes := make([]int, len(items))
	strs := make([]string, len(items))
	for i, it := range items {
		var n int
		var err error
		var pan any
		var buf []byte
		if c := codecOf(it.kind); c != nil {
			buf = w.alloc(ample)
			n, err, pan = safeM(c.marshal, it.u, buf)
		} else {
			bc := blobOf(it.kind)
			strs[i] = string(it.b)
			buf = w.alloc(len(it.b) + ample)
			n, err, pan = bc.safeMarshal(it.b, strs[i], buf)
		}
		if pan != nil || err != nil || n < 1 || n > len(buf) {
			return vf("xbinary/concat/item-encode-failed", "%s: item %d (%s): n=%d err=%v panic=%v", who, i, it, n, err, pan), nil
		}
		sizes[i] = n
		cat = append(cat, buf[:n]...)
	}
	// the same items marshalled in place, one after the other, into one exact buffer
	inplace := w.alloc(len(cat))
	off := 0
	for i, it := range items {
		var n int
		var err error
		var pan any
		if c := codecOf(it.kind); c != nil {
			n, err, pan = safeM(c.marshal, it.u, inplace[off:])
		} else {
			n, err, pan = blobOf(it.kind).safeMarshal(it.b, strs[i], inplace[off:])
		}
		if pan != nil || err != nil || n != sizes[i] {
			return vf("xbinary/concat/in-place-encode", "%s: item %d (%s) at offset %d of %d: n=%d (alone: %d) err=%v panic=%v", who, i, it, off, len(inplace), n, sizes[i], err, pan), nil
		}
		off += n
	}
	if !bytes.Equal(inplace, cat) {
		return vf("xbinary/concat/in-place-bytes-differ", "%s: marshalling in place gives other bytes than concatenating the single encodings", who), nil
	}
	// the same items through one ObjectsWriter
	w.sink.Reset()
	for i, it := range items {
		var n int
		var err error
		var pan any
		if c := codecOf(it.kind); c != nil {
			n, err, pan = safeW(c.write, w.ow, it.u)
		} else {
			n, err, pan = blobOf(it.kind).safeWrite(w.ow, it.b, strs[i])
		}
		if pan != nil || err != nil || n != sizes[i] {
			return vf("xbinary/concat/writer-count", "%s: item %d (%s): writer n=%d (Marshal: %d) err=%v panic=%v", who, i, it, n, sizes[i], err, pan), nil
		}
	}
	if !bytes.Equal(w.sink.Bytes(), cat) {
		return vf("xbinary/concat/writer-bytes-differ", "%s: the writer's stream differs from the concatenated Marshal output", who), nil
	}
	// decode front to back
	src := w.alloc(len(cat))
	copy(src, cat)
	off = 0
	type kept struct {
		r   blobResult
		val []byte
		i   int
	}
	var copies []kept
	for i, it := range items {
		if off > len(src) {
			return vf("xbinary/concat/offset-beyond-end", "%s: before item %d the offset is %d of %d", who, i, off, len(src)), nil
		}
		if c := codecOf(it.kind); c != nil {
			n, got, err, pan := safeU(c.unmarshal, src[off:])
			if pan != nil || err != nil {
				return vf("xbinary/concat/decode-failed/"+it.kind, "%s: item %d (%s) at offset %d: err=%v panic=%v", who, i, it, off, err, pan), nil
			}
			if n != sizes[i] {
				return vf("xbinary/concat/consumed/"+it.kind, "%s: item %d (%s) at offset %d: consumed %d, produced %d", who, i, it, off, n, sizes[i]), nil
			}
			if got != it.u {
				return vf("xbinary/concat/value/"+it.kind, "%s: item %d (%s) at offset %d: got %d", who, i, it, off, got), nil
			}
			off += n
			continue
		}
		newBuf := (int(k.CSeed)+i)&1 == 0
		r := blobOf(it.kind).unmarshal(src[off:], newBuf)
		if r.pan != nil || r.err != nil {
			return vf("xbinary/concat/decode-failed/"+it.kind, "%s: item %d (%s) at offset %d: err=%v panic=%v", who, i, it, off, r.err, r.pan), nil
		}
		if r.n != sizes[i] {
			return vf("xbinary/concat/consumed/"+it.kind, "%s: item %d (%s) at offset %d: consumed %d, produced %d", who, i, it, off, r.n, sizes[i]), nil
		}
		if r.ln != len(it.b) || !r.same(it.b) {
			return vf("xbinary/concat/value/"+it.kind, "%s: item %d (%s) at offset %d: decoded %d other bytes", who, i, it, off, r.ln), nil
		}
		if newBuf {
			copies = append(copies, kept{r, it.b, i})
		}
		off += r.n
	}
	if off != len(src) {
		return vf("xbinary/concat/left-over", "%s: %d of %d bytes left after the last item", who, len(src)-off, len(src)), nil
	}
	// independence of everything decoded with newBuf=true
	for i := range src {
		src[i] ^= 0xff
	}
	for _, c := range copies {
		if !c.r.same(c.val) {
			return vf("xbinary/concat/newbuf-not-independent", "%s: item %d decoded with newBuf=true changed when the source was overwritten", who, c.i), nil
		}
	}
	return nil, cat
}

// ---------------------------------------------------------------------------------------------
// one case

func runCase(k kase, w *worker) *vio {
	if w.slow {
		b, _ := json.Marshal(k)
		fmt.Printf("CASE %s\n", b)
	}
	w.evals++
	if c := codecOf(k.Kind); c != nil {
		w.hashes = append(w.hashes, mix(c.idx, k.U))
		return checkNum(c, k.U, w)
	}
	if c := blobOf(k.Kind); c != nil {
		w.hashes = append(w.hashes, mix(c.idx, uint64(k.Len)<<20^uint64(k.CSeed)))
		return checkBlob(c, content(k.Len, k.CSeed), k, w)
	}
	if k.Kind == "concat" {
		v, enc := checkConcat(k, w)
		if v == nil {
			w.hashes = append(w.hashes, mix(7, report.HashStr(string(enc))))
			if len(w.samples) < 1 {
				w.samples = append(w.samples, fmt.Sprintf("concat(seed=%d) %v -> %d bytes", k.CSeed, genConcat(k.CSeed), len(enc)))
			}
		}
		return v
	}
	return vf("harness/unknown-kind", "unknown kind %q", k.Kind)
}

// ---------------------------------------------------------------------------------------------
// case lists, cut into batches

type batch struct {
	id  string
	run func(do func(kase))
}

// boundaryValues: for every bit length b the values 2^b-1 (all ones), 2^b, 2^b+1, their complements,
// and a few patterns; this contains 2^(7k)-1, 2^(7k), 2^(7k)+1 for every k.
func boundaryValues(bitsN int) []uint64 {
	mask := ^uint64(0)
	if bitsN < 64 {
		mask = 1<<uint(bitsN) - 1
	}
	set := map[uint64]struct{}{}
	add := func(v uint64) { set[v&mask] = struct{}{} }
	for b := 0; b <= bitsN; b++ {
		var p uint64
		if b < 64 {
			p = 1 << uint(b)
		}
		for d := uint64(0); d < 4; d++ {
			add(p - 2 + d)    // 2^b-2 .. 2^b+1
			add(^(p - 2 + d)) // complements
		}
	}
	for _, v := range []uint64{0, 0x8080808080808080, 0x7f7f7f7f7f7f7f7f, 0xaaaaaaaaaaaaaaaa, 0x5555555555555555, 0x0102040810204080, 0xff00ff00ff00ff00, 0x00ff00ff00ff00ff} {
		add(v)
		add(v >> 1)
	}
	out := make([]uint64, 0, len(set))
	for v := range set {
		out = append(out, v)
	}
	sort.Slice(out, func(i, j int) bool { return out[i] < out[j] })
	return out
}

type plan struct {
	seed       int64
	reduced    bool
	subRandom  bool // random byte strings > 8 KiB: subset of the destination lengths
	randNum    int  // random values per wide numeric kind
	randBlob   int  // random byte strings per blob kind
	allLensTo  int  // every length 0..allLensTo per blob kind
	bigLens    bool
	concats    int
	u16Stride  int
	shardSize  int
	bigBlobLen []int
}

func makePlan(run *report.Run, pass string) plan {
	p := plan{seed: run.Seed(), shardSize: 20000}
	p.randNum = run.Pick(200_000, 1_000_000)
	p.randBlob = run.Pick(3000, 20000)
	p.allLensTo = run.Pick(700, 2100)
	p.concats = run.Pick(30_000, 300_000)
	p.u16Stride = 1
	p.subRandom = !run.Thorough()
	p.bigBlobLen = []int{2097151, 2097152, 2097153}
	if pass != "main" {
		p.reduced = true
		p.randNum /= 5
		p.randBlob /= 5
		p.allLensTo = run.Pick(300, 700)
		p.concats /= 5
		p.shardSize = 5000
	}
	return p
}

func (p plan) batches() []batch {
	var out []batch
	// 8 and 16 bit: every value
	out = append(out, batch{"byte/all", func(do func(kase)) {
		for v := 0; v < 256; v++ {
			do(kase{Kind: "byte", U: uint64(v)})
		}
	}})
	for s := 0; s < 16; s++ {
		s := s
		out = append(out, batch{fmt.Sprintf("uint16/%d", s), func(do func(kase)) {
			for v := s * 4096; v < (s+1)*4096; v++ {
				do(kase{Kind: "uint16", U: uint64(v)})
			}
		}})
	}
	// wide kinds: boundaries, then seeded random
	for _, c := range numCodecs[2:] {
		c := c
		out = append(out, batch{c.kind + "/boundaries", func(do func(kase)) {
			for _, v := range boundaryValues(c.bits) {
				do(kase{Kind: c.kind, U: v})
			}
		}})
		for s := 0; s*p.shardSize < p.randNum; s++ {
			s := s
			out = append(out, batch{fmt.Sprintf("%s/rand%d", c.kind, s), func(do func(kase)) {
				rng := rand.New(rand.NewSource(p.seed*7_000_003 + int64(c.idx)*1_000_003 + int64(s)))
				n := min(p.shardSize, p.randNum-s*p.shardSize)
				for i := 0; i < n; i++ {
					do(kase{Kind: c.kind, U: randValue(rng, c.bits)})
				}
			}})
		}
	}
	// byte strings and strings
	for _, c := range blobCodecs {
		c := c
		// lengths around the prefix-size boundaries, three contents each
		for _, n := range []int{0, 1, 2, 126, 127, 128, 129, 16382, 16383, 16384, 16385} {
			n := n
			out = append(out, batch{fmt.Sprintf("%s/len%d", c.kind, n), func(do func(kase)) {
				for _, cs := range []int64{p.seed*31 + int64(n), -1, -2, -3} {
					do(kase{Kind: c.kind, Len: n, CSeed: cs})
				}
			}})
		}
		for _, n := range p.bigBlobLen {
			n := n
			out = append(out, batch{fmt.Sprintf("%s/len%d", c.kind, n), func(do func(kase)) {
				do(kase{Kind: c.kind, Len: n, CSeed: p.seed*31 + int64(n)})
			}})
		}
		// every length up to a bound
		for lo := 0; lo <= p.allLensTo; lo += 100 {
			lo := lo
			out = append(out, batch{fmt.Sprintf("%s/lens%d", c.kind, lo), func(do func(kase)) {
				for n := lo; n < lo+100 && n <= p.allLensTo; n++ {
					do(kase{Kind: c.kind, Len: n, CSeed: p.seed*37 + int64(n)})
				}
			}})
		}
		// a window around the 2 → 3 byte prefix boundary
		out = append(out, batch{c.kind + "/lens16k", func(do func(kase)) {
			for n := 16384 - 40; n < 16384+40; n++ {
				do(kase{Kind: c.kind, Len: n, CSeed: p.seed*41 + int64(n)})
			}
		}})
		// random lengths, log-uniform
		const shard = 250
		for s := 0; s*shard < p.randBlob; s++ {
			s := s
			out = append(out, batch{fmt.Sprintf("%s/rand%d", c.kind, s), func(do func(kase)) {
				rng := rand.New(rand.NewSource(p.seed*9_000_011 + int64(c.idx)*1_000_003 + int64(s)))
				n := min(shard, p.randBlob-s*shard)
				for i := 0; i < n; i++ {
					b := uint(rng.Intn(16))
					ln := int(rng.Int63n(1<<(b+1))) + (1<<b - 1)
					do(kase{Kind: c.kind, Len: ln, CSeed: 1 + rng.Int63n(1<<40), Sub: p.subRandom})
				}
			}})
		}
	}
	// concatenations
	for s := 0; s*p.shardSize < p.concats; s++ {
		s := s
		out = append(out, batch{fmt.Sprintf("concat/%d", s), func(do func(kase)) {
			n := min(p.shardSize, p.concats-s*p.shardSize)
			for i := 0; i < n; i++ {
				do(kase{Kind: "concat", CSeed: p.seed*1_000_000_007 + int64(s*p.shardSize+i)})
			}
		}})
	}
	return out
}

// ---------------------------------------------------------------------------------------------

func TestCheck(t *testing.T) {
	run := report.New("C15", "exploration")
	defer run.Finish(t)
	run.Rule("per value: Marshal into an ample buffer defines the bytes produced; compared with Writable*Size, with ObjectsWriter (bytes and count), with Marshal into every destination length 0..size+1 (success iff length>=size, else n==0 and error) — once with destinations whose capacity equals their length and once with windows arena[off:off+L] (len<cap, spare capacity >= size+8) of a guard-filled arena, where every arena byte outside the bytes reported written must keep the guard — with Unmarshal of exactly those bytes and of those bytes followed by others (value, consumed count), newBuf=false/true, overwrite of the source after newBuf=true; plus seeded random concatenations of 1..20 items (single encodings concatenated == in-place marshalling == writer stream; decoded front to back, nothing left). distinct = distinct (kind, value) for numeric kinds + distinct (kind, length, content) for byte strings/strings + distinct concatenation encodings")
	run.Assume("the wire format itself is not part of the statement: only agreement between encoder, decoder, size predictor and stream writer is judged")
	run.Assume("uint is 64 bits wide on the platform the check runs on")
	run.Assume("bytes after the n reported by a successful Marshal must be left untouched ('number of bytes written')")
	run.Assume("a Marshal call, failing or not, must not modify memory outside its destination slice dst[:len(dst)], even when cap(dst) > len(dst); what a failing Marshal leaves inside dst is not judged")
	run.Assume("windowed sweep: guard verified over the whole arena for encodings <= 1 KiB, on 64 sampled lengths and on every success for longer ones, and over the 64 bytes behind the window on every call")

	pass := os.Getenv("VERIF_PASS")
	if pass == "" {
		pass = "main"
	}
	run.Note("pass", pass)

	if p := os.Getenv("VERIF_REPLAY"); p != "" {
		replay(run, p)
		return
	}

	p := makePlan(run, pass)
	bs := p.batches()
	secondary := pass != "main"

	if only := os.Getenv("VERIF_BATCH"); only != "" {
		// slow re-run of one batch of a crashed sanitizer pass: every case is printed before it runs
		w := newWorker(secondary)
		w.slow = true
		for _, b := range bs {
			if b.id == only {
				fmt.Printf("BATCH %s\n", b.id)
				b.run(func(k kase) {
					if v := runCase(k, w); v != nil {
						run.Violation(v.sig, v.what, k)
					}
				})
				fmt.Printf("BATCH-DONE %s\n", b.id)
			}
		}
		collect(run, []*worker{w})
		return
	}

	ch := make(chan batch, len(bs))
	for _, b := range bs {
		ch <- b
	}
	close(ch)
	var wg sync.WaitGroup
	workers := make([]*worker, runtime.NumCPU())
	for i := range workers {
		w := newWorker(secondary)
		workers[i] = w
		wg.Add(1)
		go func() {
			defer wg.Done()
			for b := range ch {
				if secondary {
					fmt.Printf("BATCH %s\n", b.id)
				}
				b.run(func(k kase) {
					if v := runCase(k, w); v != nil {
						run.Violation(v.sig, v.what, k)
					}
				})
				if secondary {
					fmt.Printf("BATCH-DONE %s\n", b.id)
				}
			}
		}()
	}
	wg.Wait()
	run.Note("batches", len(bs))
	run.Note("exhaustive_parts", []string{"byte: all 256 values", "uint16: all 65536 values"})
	run.Note("plan", map[string]any{"random_values_per_wide_kind": p.randNum, "random_byte_strings_per_kind": p.randBlob,
		"every_length_up_to": p.allLensTo, "random_byte_strings_subset_sweep_above_8KiB": p.subRandom, "concatenations": p.concats, "reduced": p.reduced})
	collect(run, workers)
}

func collect(run *report.Run, workers []*worker) {
	var all []uint64
	classes := map[string]int64{}
	var evals int64
	for _, w := range workers {
		evals += w.evals
		run.Add("window_destination_calls", w.windows)
		all = append(all, w.hashes...)
		for k, v := range w.classes {
			classes[k] += v
		}
		for _, s := range w.samples {
			if run.SampleN() < 3 {
				run.Sample(s)
			}
		}
	}
	run.Eval(int(evals))
	sort.Slice(all, func(i, j int) bool { return all[i] < all[j] })
	var distinct int64
	for i, h := range all {
		if i == 0 || h != all[i-1] {
			distinct++
		}
	}
	run.DistinctAdd(distinct)
	run.Note("size_classes", classes)
	run.Note("size_classes_reached", len(classes))
	run.Sample("uint(2^42-1): size 6, uint(2^42): size 7 — both neighbours of every 7-bit group boundary are in the boundary batch")
	run.Sample(kase{Kind: "bytes", Len: 16384, CSeed: -1})
}

func replay(run *report.Run, path string) {
	b, err := os.ReadFile(path)
	if err != nil {
		run.Inconclusive("cannot read replay file: " + err.Error())
		return
	}
	var doc struct {
		Witness kase `json:"witness"`
	}
	if err := json.Unmarshal(b, &doc); err != nil {
		run.Inconclusive("cannot parse replay file: " + err.Error())
		return
	}
	w := newWorker(os.Getenv("VERIF_PASS") != "" && os.Getenv("VERIF_PASS") != "main")
	w.thorough = true // a replayed case always gets every window length
	run.Eval(1)
	run.DistinctAdd(2)
	run.Sample(doc.Witness)
	if v := runCase(doc.Witness, w); v != nil {
		run.Violation(v.sig, v.what, doc.Witness)
	} else {
		fmt.Println("REPLAY: no violation on this tree")
	}
}
