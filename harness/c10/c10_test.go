// C10 — ordered map: iteration stays correct under any mutation history (reference-model monitor,
// DESIGN §3 C10).
//
// The real iterable.Map is driven call by call next to a small model in which every entry carries an
// insertion sequence number and an iterator is a position (the smallest sequence number it has not
// passed). Every call runs under recover, every result is compared with the model state at the time
// of THAT call, and after every call the structural hook VerifWalk must report a consistent list whose
// reference counts add up to the number of open iterators.
package c10

import (
	"bytes"
	"encoding/json"
	"fmt"
	"math/rand"
	"os"
	"os/exec"
	"path/filepath"
	"runtime"
	"sort"
	"strings"
	"sync"
	"testing"

	"github.com/acquirecloud/golibs/container/iterable"

	"verifharness/internal/report"
)

func TestMain(m *testing.M) { os.Exit(report.ExitCode(m.Run())) }

// ---------------------------------------------------------------------------------------------
// cases

type opKind uint8

const (
	opAdd     opKind = iota // A = key (1-based); fresh value. On a present key: must fail and change nothing
	opRemove                // A = key; on an absent key: no effect
	opNewIt                 // A = slot that receives the iterator (must be free)
	opHasNext               // A = slot (must be open)
	opNext                  // A = slot (must be open)
	opClose                 // A = slot (must be open)
	opGet                   // A = key            (random sequences only; the probe does it everywhere)
	opLen                   //                     (random sequences only)
	opFirst                 //                     (random sequences only)
)

var opNames = []string{"Add", "Remove", "NewIterator", "HasNext", "Next", "Close", "Get", "Len", "First"}

type op struct {
	K opKind `json:"k"`
	A int    `json:"a"`
}

func keyName(k int) string { return string(rune('a' + k - 1)) }

func (o op) String() string {
	switch o.K {
	case opAdd, opRemove, opGet:
		return fmt.Sprintf("%s(%s)", opNames[o.K], keyName(o.A))
	case opNewIt:
		return fmt.Sprintf("it%d=Iterator()", o.A)
	case opHasNext, opNext, opClose:
		return fmt.Sprintf("it%d.%s()", o.A, opNames[o.K])
	}
	return opNames[o.K] + "()"
}

func seqText(ops []op) string {
	s := make([]string, len(ops))
	for i, o := range ops {
		s[i] = o.String()
	}
	return strings.Join(s, "; ")
}

const (
	probeAll  = "all"  // the observer block runs after every operation
	probeLast = "last" // the observer block runs after the last operation only (hook still after every call)
)

// kase is the witness: from it the case is re-run exactly.
type kase struct {
	Keys   int    `json:"keys"`             // key universe 1..Keys (used by the observer block)
	Slots  int    `json:"slots"`            // iterator slots
	Probe  string `json:"probe"`            // probeAll | probeLast
	NoHook bool   `json:"nohook,omitempty"` // API-only pass: the structural hook is not consulted
	Ops    []op   `json:"ops"`
	Text   string `json:"text,omitempty"` // human-readable copy of Ops (ignored on replay)
}

type vio struct{ sig, what string }

// ---------------------------------------------------------------------------------------------
// reference model

type ent struct {
	key, val int
	live     bool
}

type model struct {
	hist  []ent // every entry ever inserted; index = insertion sequence number
	live  []int // sequence numbers of the live entries, ascending
	bykey []int // key -> sequence number of its live entry, -1 if absent
	pos   []int // per slot: position of the open iterator, -1 if the slot is free
	nopen int
}

func newModel(keys, slots int) *model {
	m := &model{bykey: make([]int, keys+1), pos: make([]int, slots)}
	for i := range m.bykey {
		m.bykey[i] = -1
	}
	for i := range m.pos {
		m.pos[i] = -1
	}
	return m
}

// firstLive returns the smallest live sequence number >= from, or -1.
func (m *model) firstLive(from int) int {
	for _, s := range m.live {
		if s >= from {
			return s
		}
	}
	return -1
}

func (m *model) add(k, v int) bool {
	if m.bykey[k] >= 0 {
		return false
	}
	s := len(m.hist)
	m.hist = append(m.hist, ent{k, v, true})
	m.live = append(m.live, s)
	m.bykey[k] = s
	return true
}

func (m *model) remove(k int) {
	s := m.bykey[k]
	if s < 0 {
		return
	}
	m.bykey[k] = -1
	m.hist[s].live = false
	for i, x := range m.live {
		if x == s {
			m.live = append(m.live[:i], m.live[i+1:]...)
			break
		}
	}
}

// start is where a new iterator (and First) begins: the oldest live entry, or the end.
func (m *model) start() int {
	if len(m.live) > 0 {
		return m.live[0]
	}
	return len(m.hist)
}

// settle moves a position forward over removed entries (they can never come back: a re-added key is a
// new entry with a larger number), so that equal positions are represented equally.
func (m *model) settle(p int) int {
	if s := m.firstLive(p); s >= 0 {
		return s
	}
	return len(m.hist)
}

// ---------------------------------------------------------------------------------------------
// driver: the real map next to the model

type mapT = iterable.Map[int, int]
type iterT = iterable.Iterator[iterable.MapEntry[int, int]]

type driver struct {
	k     kase
	m     *mapT
	its   []iterT
	mod   *model
	nextV int
	step  int // index of the current operation (for messages)
	obs   bool
}

// where names the current step; built only when a violation is reported.
func (d *driver) where() string {
	w := fmt.Sprintf("step %d %s", d.step, d.k.Ops[d.step])
	if d.obs {
		w += " [observers]"
	}
	return w
}

func guard(f func()) (pan any) {
	defer func() { pan = recover() }()
	f()
	return nil
}

func structClass(err error) string {
	s := err.Error()
	at := ""
	if strings.HasPrefix(s, "node 0 ") || strings.HasPrefix(s, "node 0:") || strings.HasPrefix(s, "live node 0 ") {
		at = "@head"
	}
	switch {
	case strings.Contains(s, "head is nil"):
		return "head-nil"
	case strings.Contains(s, "head.prev is not nil"):
		return "head-prev"
	case strings.Contains(s, "does not end"):
		return "cycle"
	case strings.Contains(s, "prev link"):
		return "prev-link" + at
	case strings.Contains(s, "negative reference count"):
		return "negative-refcnt" + at
	case strings.Contains(s, "sentinel has a successor"):
		return "sentinel-successor"
	case strings.Contains(s, "is not map.last"):
		return "sentinel-not-last"
	case strings.Contains(s, "live nodes linked but"):
		return "live-count"
	case strings.Contains(s, "is not the indexed node"):
		return "index-mismatch" + at
	case strings.Contains(s, "marked deleted, unreferenced and still linked"):
		return "dead-linked" + at
	case strings.Contains(s, "unknown state"):
		return "state" + at
	case strings.Contains(s, "has no successor"):
		return "no-successor" + at
	}
	return "other"
}

// hook runs the structural check after the call named opName.
func (d *driver) hook(opName string) *vio {
	if d.k.NoHook {
		return nil
	}
	var nodes, deleted, refSum int
	var err error
	if pan := guard(func() { nodes, deleted, refSum, err = d.m.VerifWalk() }); pan != nil {
		return &vio{"omap/" + opName + "/structure:walk-panic", fmt.Sprintf("%s: structural walk panicked: %v", d.where(), pan)}
	}
	if err != nil {
		return &vio{"omap/" + opName + "/structure:" + structClass(err), fmt.Sprintf("%s: list inconsistent after the call: %v (nodes=%d deleted=%d refSum=%d, open iterators=%d, live=%d)", d.where(), err, nodes, deleted, refSum, d.mod.nopen, len(d.mod.live))}
	}
	if refSum != d.mod.nopen {
		kind := "refsum-high"
		if refSum < d.mod.nopen {
			kind = "refsum-low"
		}
		return &vio{"omap/" + opName + "/" + kind, fmt.Sprintf("%s: sum of reference counts %d but %d iterators are open", d.where(), refSum, d.mod.nopen)}
	}
	return nil
}

// describe classifies an entry that Next returned although the model expected something else.
func (d *driver) describe(key, val, posBefore, want int) string {
	for s := len(d.mod.hist) - 1; s >= 0; s-- {
		e := d.mod.hist[s]
		if e.val == val && e.key == key {
			switch {
			case !e.live:
				return "removed-entry"
			case s < posBefore:
				return "passed-entry"
			case want >= 0 && s > want:
				return "skipped-entry"
			}
			return "wrong-entry"
		}
	}
	if key >= 1 && key < len(d.mod.bykey) {
		return "stale-value"
	}
	return "unknown-entry"
}

func (d *driver) legal(o op) bool {
	switch o.K {
	case opAdd, opRemove, opGet:
		return o.A >= 1 && o.A <= d.k.Keys
	case opNewIt:
		return o.A >= 0 && o.A < d.k.Slots && d.mod.pos[o.A] < 0
	case opHasNext, opNext, opClose:
		return o.A >= 0 && o.A < d.k.Slots && d.mod.pos[o.A] >= 0
	case opLen, opFirst:
		return true
	}
	return false
}

// apply performs one operation on the real map and the model and compares.
func (d *driver) apply(o op) *vio {
	name := opNames[o.K]
	mod := d.mod
	switch o.K {
	case opAdd:
		d.nextV++
		v := 100 + d.nextV
		var err error
		if pan := guard(func() { err = d.m.Add(o.A, v) }); pan != nil {
			return &vio{"omap/Add/panic", fmt.Sprintf("%s: panic: %v", d.where(), pan)}
		}
		if mod.bykey[o.A] >= 0 {
			name = "Add-existing"
			if err == nil {
				return &vio{"omap/Add-existing/no-error", fmt.Sprintf("%s: key is present but Add returned nil", d.where())}
			}
		} else {
			if err != nil {
				return &vio{"omap/Add/spurious-error", fmt.Sprintf("%s: key is absent but Add returned %v", d.where(), err)}
			}
			mod.add(o.A, v)
		}
	case opRemove:
		if mod.bykey[o.A] < 0 {
			name = "Remove-absent"
		}
		if pan := guard(func() { d.m.Remove(o.A) }); pan != nil {
			return &vio{"omap/" + name + "/panic", fmt.Sprintf("%s: panic: %v", d.where(), pan)}
		}
		mod.remove(o.A)
	case opNewIt:
		var it iterT
		if pan := guard(func() { it = d.m.Iterator() }); pan != nil {
			return &vio{"omap/NewIterator/panic", fmt.Sprintf("%s: panic: %v", d.where(), pan)}
		}
		if it == nil {
			return &vio{"omap/NewIterator/nil", fmt.Sprintf("%s: Iterator() returned nil", d.where())}
		}
		d.its[o.A] = it
		mod.pos[o.A] = mod.start()
		mod.nopen++
	case opHasNext:
		var got bool
		if pan := guard(func() { got = d.its[o.A].HasNext() }); pan != nil {
			return &vio{"omap/HasNext/panic", fmt.Sprintf("%s: panic: %v", d.where(), pan)}
		}
		want := mod.firstLive(mod.pos[o.A]) >= 0
		if got != want {
			kind := "true-at-end"
			if want {
				kind = "false-before-live-entry"
			}
			return &vio{"omap/HasNext/" + kind, fmt.Sprintf("%s: HasNext()=%v but the model has %d live entries at or after the iterator's position", d.where(), got, d.ahead(o.A))}
		}
		mod.pos[o.A] = mod.settle(mod.pos[o.A])
	case opNext:
		var e iterable.MapEntry[int, int]
		var ok bool
		if pan := guard(func() { e, ok = d.its[o.A].Next() }); pan != nil {
			return &vio{"omap/Next/panic", fmt.Sprintf("%s: panic: %v", d.where(), pan)}
		}
		p := mod.pos[o.A]
		s := mod.firstLive(p)
		switch {
		case s < 0 && ok:
			return &vio{"omap/Next/phantom:" + d.describe(e.Key, e.Value, p, -1), fmt.Sprintf("%s: Next() returned (%s,%d,true) but no live entry is at or after the iterator's position", d.where(), showKey(e.Key), e.Value)}
		case s >= 0 && !ok:
			w := mod.hist[s]
			return &vio{"omap/Next/missed-entry", fmt.Sprintf("%s: Next() returned ok=false but live entry (%s,%d) is at or after the iterator's position", d.where(), keyName(w.key), w.val)}
		case s >= 0:
			w := mod.hist[s]
			if e.Key != w.key {
				return &vio{"omap/Next/" + d.describe(e.Key, e.Value, p, s), fmt.Sprintf("%s: Next() returned (%s,%d) want (%s,%d)", d.where(), showKey(e.Key), e.Value, keyName(w.key), w.val)}
			}
			if e.Value != w.val {
				return &vio{"omap/Next/wrong-value", fmt.Sprintf("%s: Next() returned (%s,%d) want (%s,%d)", d.where(), showKey(e.Key), e.Value, keyName(w.key), w.val)}
			}
			mod.pos[o.A] = mod.settle(s + 1)
		default:
			mod.pos[o.A] = len(mod.hist)
		}
	case opClose:
		it := d.its[o.A]
		d.its[o.A] = nil
		mod.pos[o.A] = -1
		mod.nopen--
		if pan := guard(func() { _ = it.Close() }); pan != nil {
			return &vio{"omap/Close/panic", fmt.Sprintf("%s: panic: %v", d.where(), pan)}
		}
	case opGet:
		return d.checkGet(o.A)
	case opLen:
		return d.checkLen()
	case opFirst:
		if v := d.checkFirst(); v != nil {
			return v
		}
	}
	return d.hook(name)
}

func showKey(k int) string {
	if k >= 1 && k <= 26 {
		return keyName(k)
	}
	return fmt.Sprintf("key#%d", k)
}

func (d *driver) ahead(slot int) int {
	n := 0
	for _, s := range d.mod.live {
		if s >= d.mod.pos[slot] {
			n++
		}
	}
	return n
}

func (d *driver) checkGet(k int) *vio {
	var got int
	var ok bool
	if pan := guard(func() { got, ok = d.m.Get(k) }); pan != nil {
		return &vio{"omap/Get/panic", fmt.Sprintf("%s: Get(%s) panic: %v", d.where(), keyName(k), pan)}
	}
	s := d.mod.bykey[k]
	switch {
	case s < 0 && ok:
		return &vio{"omap/Get/phantom", fmt.Sprintf("%s: Get(%s)=(%d,true) but the key is not live", d.where(), keyName(k), got)}
	case s >= 0 && !ok:
		return &vio{"omap/Get/missing", fmt.Sprintf("%s: Get(%s) not found but the key is live with value %d", d.where(), keyName(k), d.mod.hist[s].val)}
	case s >= 0 && got != d.mod.hist[s].val:
		return &vio{"omap/Get/wrong-value", fmt.Sprintf("%s: Get(%s)=%d want %d", d.where(), keyName(k), got, d.mod.hist[s].val)}
	}
	return nil
}

func (d *driver) checkLen() *vio {
	var l int
	if pan := guard(func() { l = d.m.Len() }); pan != nil {
		return &vio{"omap/Len/panic", fmt.Sprintf("%s: Len() panic: %v", d.where(), pan)}
	}
	if l != len(d.mod.live) {
		return &vio{"omap/Len/wrong", fmt.Sprintf("%s: Len()=%d want %d", d.where(), l, len(d.mod.live))}
	}
	return nil
}

func (d *driver) checkFirst() *vio {
	var k int
	var ok bool
	if pan := guard(func() { k, ok = d.m.First() }); pan != nil {
		return &vio{"omap/First/panic", fmt.Sprintf("%s: First() panic: %v", d.where(), pan)}
	}
	switch {
	case len(d.mod.live) == 0 && ok:
		return &vio{"omap/First/phantom", fmt.Sprintf("%s: First()=(%s,true) on a map without live entries", d.where(), showKey(k))}
	case len(d.mod.live) > 0 && !ok:
		return &vio{"omap/First/missed-entry", fmt.Sprintf("%s: First() found nothing but %d entries are live, oldest %s", d.where(), len(d.mod.live), keyName(d.mod.hist[d.mod.live[0]].key))}
	case len(d.mod.live) > 0 && k != d.mod.hist[d.mod.live[0]].key:
		return &vio{"omap/First/wrong-key", fmt.Sprintf("%s: First()=%s want the oldest live key %s", d.where(), showKey(k), keyName(d.mod.hist[d.mod.live[0]].key))}
	}
	return nil
}

// probe is the observer block: calls that must not change anything and must reflect exactly the live
// keys. Add on a present key and Remove on an absent key are part of it (they must be no-ops).
func (d *driver) probe() *vio {
	d.obs = true
	defer func() { d.obs = false }()
	for k := 1; k <= d.k.Keys; k++ {
		if d.mod.bykey[k] >= 0 {
			var err error
			if pan := guard(func() { err = d.m.Add(k, -1) }); pan != nil {
				return &vio{"omap/Add-existing/panic", fmt.Sprintf("%s: Add(%s) on a present key: panic: %v", d.where(), keyName(k), pan)}
			}
			if err == nil {
				return &vio{"omap/Add-existing/no-error", fmt.Sprintf("%s: Add(%s) on a present key returned nil", d.where(), keyName(k))}
			}
			if v := d.hook("Add-existing"); v != nil {
				return v
			}
		} else {
			if pan := guard(func() { d.m.Remove(k) }); pan != nil {
				return &vio{"omap/Remove-absent/panic", fmt.Sprintf("%s: Remove(%s) on an absent key: panic: %v", d.where(), keyName(k), pan)}
			}
			if v := d.hook("Remove-absent"); v != nil {
				return v
			}
		}
	}
	if v := d.checkLen(); v != nil {
		return v
	}
	for k := 1; k <= d.k.Keys; k++ {
		if v := d.checkGet(k); v != nil {
			return v
		}
	}
	if v := d.checkFirst(); v != nil {
		return v
	}
	return d.hook("First")
}

// stateHash is the abstract model state: the sequence of list points (live entry / removed entry
// with iterators parked on it / end of list), each with the number of iterators positioned on it.
func (d *driver) stateHash(o op) (uint64, string) {
	mod := d.mod
	pts := make([]int, 0, len(mod.live)+len(mod.pos)+1)
	pts = append(pts, mod.live...)
	for _, p := range mod.pos {
		if p >= 0 {
			pts = append(pts, p)
		}
	}
	sort.Ints(pts)
	var b strings.Builder
	opPoint := -1
	idx := 0
	for i := 0; i < len(pts); i++ {
		if i > 0 && pts[i] == pts[i-1] {
			continue
		}
		p := pts[i]
		n := 0
		for s, q := range mod.pos {
			if q == p {
				n++
				if (o.K == opHasNext || o.K == opNext || o.K == opClose) && s == o.A {
					opPoint = idx
				}
			}
		}
		c := byte('E')
		if p < len(mod.hist) {
			c = 'D'
			if mod.hist[p].live {
				c = 'L'
			}
		}
		b.WriteByte(c)
		b.WriteByte(byte('0' + n))
		idx++
	}
	b.WriteByte('|')
	b.WriteString(opNames[o.K])
	switch o.K {
	case opAdd, opRemove, opGet:
		// position of the key among the live entries (or absent)
		s := mod.bykey[o.A]
		r := -1
		for i, x := range mod.live {
			if x == s {
				r = i
			}
		}
		fmt.Fprintf(&b, "@%d", r)
	case opHasNext, opNext, opClose:
		fmt.Fprintf(&b, "@%d", opPoint)
	}
	s := b.String()
	return report.HashStr(s), s
}

var mapsMade int // per process; the shards are single-threaded

// runCase executes the case; it returns the first divergence. visit receives the transition class of
// the LAST operation (every proper prefix is a case of its own in the enumeration) or, with
// visitAll, of every operation.
func runCase(k kase, visit func(h uint64, s string), visitAll bool) (v *vio, illegal bool) {
	v, at := runCaseAt(k, visit, visitAll)
	return v, v == nil && at >= 0
}

// runCaseAt also reports the index of the step at which the case stopped: the violating step, or the
// illegal step (v == nil), or -1 when the case ran to its end.
func runCaseAt(k kase, visit func(h uint64, s string), visitAll bool) (v *vio, at int) {
	// Every Map registers its sync.Pool in the runtime's pool list, which keeps the whole map reachable
	// until the second garbage collection after that: what one collection cycle allocates stays live
	// in the next, so the heap must not be allowed to pace itself. Collect at fixed case counts.
	if mapsMade++; mapsMade%(1<<16) == 0 {
		runtime.GC()
	}
	d := &driver{k: k, m: iterable.NewMap[int, int](), its: make([]iterT, k.Slots), mod: newModel(k.Keys, k.Slots)}
	for i, o := range k.Ops {
		if !d.legal(o) {
			return nil, i
		}
		d.step = i
		last := i == len(k.Ops)-1
		var h uint64
		var hs string
		if visit != nil && (last || visitAll) {
			h, hs = d.stateHash(o)
		}
		if v := d.apply(o); v != nil {
			return v, i
		}
		if k.Probe == probeAll || last {
			if v := d.probe(); v != nil {
				return v, i
			}
		}
		if visit != nil && (last || visitAll) {
			visit(h, hs)
		}
	}
	return nil, -1
}

// ---------------------------------------------------------------------------------------------
// collector: what one shard (child process) observed

type vioRec struct {
	Sig     string `json:"sig"`
	What    string `json:"what"`
	Witness kase   `json:"witness"`
	Count   int    `json:"count"`
}

type collector struct {
	Evals    int64            `json:"evals"`
	Counters map[string]int64 `json:"counters"`
	Distinct []uint64         `json:"distinct"`
	Samples  []string         `json:"samples"`
	Vios     []*vioRec        `json:"vios"`

	seen         map[uint64]struct{}
	bysig        map[string]*vioRec
	classSamples int
	seqSamples   int
}

func newCollector() *collector {
	return &collector{Counters: map[string]int64{}, seen: map[uint64]struct{}{}, bysig: map[string]*vioRec{}}
}

func (c *collector) visit(h uint64, s string) {
	if _, ok := c.seen[h]; !ok {
		c.seen[h] = struct{}{}
		// sample: a class in which iterators are parked on a removed entry while live entries exist
		if c.classSamples < 1 && strings.Contains(s, "D") && strings.Contains(s, "L") && (strings.Contains(s, "Next") || strings.Contains(s, "Close")) {
			c.classSamples++
			c.Samples = append(c.Samples, "transition class reached (list points L=live D=removed+pinned E=end, each with the number of iterators on it | operation@point): "+s)
		}
	}
}

func (c *collector) violation(sig, what string, k kase) {
	if r, ok := c.bysig[sig]; ok {
		r.Count++
		// keep the shortest witness per signature
		if len(k.Ops) < len(r.Witness.Ops) {
			r.What, r.Witness = what, k
		}
		return
	}
	r := &vioRec{sig, what, k, 1}
	c.bysig[sig] = r
	c.Vios = append(c.Vios, r)
}

// ---------------------------------------------------------------------------------------------
// enumeration

// gen is the legality state of the enumerator. Keys are introduced in canonical order (key n+1 only
// after key n has been used): the map treats keys opaquely, so sequences that differ by a renaming
// of keys are the same case. A new iterator takes the lowest free slot.
type gen struct {
	present, open uint
	used          int
}

func (g gen) next(keys, slots int, f func(o op, g2 gen)) {
	for k := 1; k <= keys && k <= g.used+1; k++ {
		g2 := g
		if k == g.used+1 {
			g2.used++
		}
		g2.present ^= 1 << k
		if g.present&(1<<k) != 0 {
			f(op{opRemove, k}, g2)
		} else {
			f(op{opAdd, k}, g2)
		}
	}
	for s := 0; s < slots; s++ {
		if g.open&(1<<s) == 0 {
			g2 := g
			g2.open |= 1 << s
			f(op{opNewIt, s}, g2)
			break
		}
	}
	for s := 0; s < slots; s++ {
		if g.open&(1<<s) != 0 {
			f(op{opHasNext, s}, g)
			f(op{opNext, s}, g)
			g2 := g
			g2.open &^= 1 << s
			f(op{opClose, s}, g2)
		}
	}
}

type enumCfg struct {
	keys, slots, depth int
	nohook             bool
	counter            string
}

// (the configurations of a tier are listed in planFor)

// runNode runs one sequence in both observer modes; true = no violation (the sequence may be extended).
// With count=false the node is only used to decide whether its subtree is explored (another shard
// reports it).
func runNode(c *collector, cfg enumCfg, ops []op, count bool) bool {
	clean := true
	for _, mode := range []string{probeLast, probeAll} {
		if mode == probeAll && len(ops) < 2 {
			continue // identical to probeLast
		}
		k := kase{Keys: cfg.keys, Slots: cfg.slots, Probe: mode, NoHook: cfg.nohook, Ops: ops}
		var visit func(uint64, string)
		if count && mode == probeLast && !cfg.nohook {
			visit = c.visit
		}
		v, _ := runCase(k, visit, false)
		if count {
			c.Evals++
		}
		if v != nil {
			clean = false
			if count {
				k.Ops = append([]op(nil), ops...)
				k.Text = seqText(ops)
				c.violation(v.sig, v.what+" — sequence: "+k.Text, k)
			}
		}
	}
	if count {
		c.Counters[cfg.counter]++
		if clean && !cfg.nohook && c.seqSamples < 1 && len(ops) == cfg.depth && ops[len(ops)-1].K == opNext && ops[len(ops)-2].K == opRemove {
			c.seqSamples++
			c.Samples = append(c.Samples, "sequence (agreed with the model at every call): "+seqText(ops))
		}
	}
	return clean
}

// enumerate runs every legal sequence of length 1..depth (prefix-closed; a violating sequence is not
// extended). Work units are the sequences of length split together with everything below them; unit
// u belongs to shard u mod of. Shorter sequences are run by every shard (so that all prune alike)
// and counted by shard 0.
func enumerate(c *collector, cfg enumCfg, shard, of int) {
	split := 6
	if cfg.depth < split {
		split = cfg.depth
	}
	unit := 0
	var rec func(ops []op, g gen)
	rec = func(ops []op, g gen) {
		if len(ops) >= cfg.depth {
			return
		}
		g.next(cfg.keys, cfg.slots, func(o op, g2 gen) {
			ops2 := append(ops, o)
			count := true
			switch {
			case len(ops2) < split:
				count = shard == 0
			case len(ops2) == split:
				mine := unit%of == shard
				unit++
				if !mine {
					return
				}
			}
			if runNode(c, cfg, ops2, count) {
				rec(ops2, g2)
			}
		})
	}
	rec(make([]op, 0, cfg.depth), gen{})
}

// ---------------------------------------------------------------------------------------------
// random long sequences

type profile struct {
	name                                            string
	keys, slots                                     int
	add, remove, newIt, hasNext, next, close_, rest int // weights
}

var profiles = []profile{
	{"balanced-5k-8it", 5, 8, 20, 18, 10, 14, 22, 8, 8},
	{"remove-heavy-5k-8it", 5, 8, 18, 30, 8, 12, 18, 8, 6},
	{"close-heavy-5k-8it", 5, 8, 16, 16, 20, 8, 14, 20, 6},
	{"small-2k-3it", 2, 3, 20, 20, 10, 14, 20, 10, 6},
	{"walkers-3k-8it", 3, 8, 14, 14, 10, 20, 32, 6, 4},
}

func randomCase(rng *rand.Rand, p profile, n int) kase {
	k := kase{Keys: p.keys, Slots: p.slots, Probe: probeAll}
	open := make([]bool, p.slots)
	nopen := 0
	total := p.add + p.remove + p.newIt + p.hasNext + p.next + p.close_ + p.rest
	pickOpen := func() int {
		j := rng.Intn(nopen)
		for s, o := range open {
			if o {
				if j == 0 {
					return s
				}
				j--
			}
		}
		return -1
	}
	for len(k.Ops) < n {
		x := rng.Intn(total)
		var o op
		switch {
		case x < p.add:
			o = op{opAdd, 1 + rng.Intn(p.keys)}
		case x < p.add+p.remove:
			o = op{opRemove, 1 + rng.Intn(p.keys)}
		case x < p.add+p.remove+p.newIt:
			if nopen == p.slots {
				continue
			}
			s := 0
			for open[s] {
				s++
			}
			open[s] = true
			nopen++
			o = op{opNewIt, s}
		case x < p.add+p.remove+p.newIt+p.hasNext:
			if nopen == 0 {
				continue
			}
			o = op{opHasNext, pickOpen()}
		case x < p.add+p.remove+p.newIt+p.hasNext+p.next:
			if nopen == 0 {
				continue
			}
			o = op{opNext, pickOpen()}
		case x < p.add+p.remove+p.newIt+p.hasNext+p.next+p.close_:
			if nopen == 0 {
				continue
			}
			s := pickOpen()
			open[s] = false
			nopen--
			o = op{opClose, s}
		default:
			switch rng.Intn(3) {
			case 0:
				o = op{opGet, 1 + rng.Intn(p.keys)}
			case 1:
				o = op{opLen, 0}
			default:
				o = op{opFirst, 0}
			}
		}
		k.Ops = append(k.Ops, o)
	}
	return k
}

func randomPass(c *collector, seed int64, seqs, length, shard, of int) {
	for i := shard; i < seqs; i += of {
		rng := rand.New(rand.NewSource(seed*1_000_003 + int64(i)))
		p := profiles[i%len(profiles)]
		k := randomCase(rng, p, length)
		if (i/len(profiles))%2 == 1 {
			k.Probe = probeLast
		}
		v, at := runCaseAt(k, c.visit, true)
		c.Evals++
		c.Counters["random_sequences"]++
		c.Counters["random_operations"] += int64(len(k.Ops))
		if v != nil {
			// the witness is the prefix up to the failing step (an exact replay of what was observed)
			k.Ops = k.Ops[:at+1]
			k.Text = seqText(k.Ops)
			if len(k.Text) > 600 {
				k.Text = "…" + k.Text[len(k.Text)-600:]
			}
			c.violation(v.sig, fmt.Sprintf("%s — random sequence %d (%s), %d operations, tail: %s", v.what, i, p.name, len(k.Ops), k.Text), k)
		}
	}
}

// ---------------------------------------------------------------------------------------------

type plan struct {
	enums                 []enumCfg
	randomSeqs, randomLen int
}

// planFor fixes the case lists of a tier (never a time budget).
func planFor(thorough bool) plan {
	pick := func(q, t int) int {
		if thorough {
			return t
		}
		return q
	}
	return plan{
		enums: []enumCfg{
			{keys: 3, slots: 3, depth: pick(8, 10), counter: "enumerated_sequences_3keys_3iterators"},
			// one iterator only: deeper
			{keys: 3, slots: 1, depth: pick(10, 12), counter: "enumerated_sequences_3keys_1iterator"},
			// API-only pass: same sequences, the structural hook is not consulted, so that a defect is
			// also reported under the signature of the first API call that exposes it
			{keys: 3, slots: 3, depth: pick(7, 8), nohook: true, counter: "enumerated_sequences_api_only"},
		},
		randomSeqs: pick(8000, 100000), randomLen: 1000,
	}
}

// runShard is the work of one child process: its share of the enumerations and of the random
// sequences.
func runShard(pl plan, seed int64, shard, of int) *collector {
	c := newCollector()
	for _, e := range pl.enums {
		enumerate(c, e, shard, of)
	}
	randomPass(c, seed, pl.randomSeqs, pl.randomLen, shard, of)
	for h := range c.seen {
		c.Distinct = append(c.Distinct, h)
	}
	return c
}

func TestCheck(t *testing.T) {
	// child process: one shard, result written to the file named by the parent. Every fresh Map owns a
	// sync.Pool whose first use takes a process-wide lock, so 16 goroutines creating millions of maps
	// serialise on it; 16 single-threaded processes do not (and their pools recycle deterministically).
	if spec := os.Getenv("VERIF_C10_SHARD"); spec != "" {
		var shard, of int
		var seed int64
		if _, err := fmt.Sscanf(spec, "%d/%d/%d", &shard, &of, &seed); err != nil {
			t.Fatalf("bad shard spec %q: %v", spec, err)
		}
		c := runShard(planFor(os.Getenv("VERIF_TIER") == "thorough"), seed, shard, of)
		b, err := json.Marshal(c)
		if err == nil {
			err = os.WriteFile(os.Getenv("VERIF_C10_OUT"), b, 0o644)
		}
		if err != nil {
			t.Fatalf("shard result: %v", err)
		}
		return
	}

	run := report.New("C10", "exploration")
	defer run.Finish(t)
	run.Rule("every legal sequence over {Add(k absent), Remove(k present), NewIterator (<=3 open), It[i].HasNext, It[i].Next, It[i].Close}, k in {a,b,c} (keys introduced in canonical order, i.e. up to renaming of keys), of length 1..depth (bounds per configuration in enumeration_bounds), each run on a fresh map in two observer modes (observer block = Add on every present key must fail, Remove on every absent key, Len, Get of every key, First, structural hook; after every operation / after the last operation only), plus seeded random sequences of length 1000 over 2-5 keys and up to 8 iterators that also draw Add-present, Remove-absent, Get, Len, First as operations; every call under recover and compared with a sequence-number model, structural hook (links, sentinel, index, no unreferenced removed entry linked, sum of reference counts = open iterators) after every call. distinct = distinct (abstract model state before the call, operation and the list point it acts on), abstract state = the sequence of list points (live entry / removed entry with iterators parked on it / end) each with the number of iterators positioned on it")
	run.Assume("iterators are used by one goroutine and never after Close (the generator emits legal calls only)")
	run.Assume("values are compared only when ok=true; the error value of Close is not judged")
	run.Assume("the map treats keys opaquely, so the exhaustive part enumerates sequences up to a renaming of keys")

	if p := os.Getenv("VERIF_REPLAY"); p != "" {
		replay(run, p)
		return
	}
	pl := planFor(run.Thorough())
	bounds := map[string]string{}
	for _, e := range pl.enums {
		bounds[e.counter] = fmt.Sprintf("all legal sequences of length 1..%d over %d keys and <=%d open iterators, complete up to key renaming", e.depth, e.keys, e.slots)
	}
	run.Note("enumeration_bounds", bounds)
	run.Note("random", fmt.Sprintf("%d seeded sequences of %d operations", pl.randomSeqs, pl.randomLen))

	of := runtime.NumCPU()
	if of > 32 {
		of = 32
	}
	dir, err := os.MkdirTemp("", "verif-c10-")
	if err != nil {
		run.Inconclusive("cannot create a temp dir: " + err.Error())
		return
	}
	defer os.RemoveAll(dir)
	exe, err := os.Executable()
	if err != nil {
		run.Inconclusive("cannot find the test binary: " + err.Error())
		return
	}
	run.Note("shards", of)
	var wg sync.WaitGroup
	results := make([]*collector, of)
	errs := make([]error, of)
	for i := 0; i < of; i++ {
		wg.Add(1)
		go func(i int) {
			defer wg.Done()
			out := filepath.Join(dir, fmt.Sprintf("shard%d.json", i))
			cmd := exec.Command(exe, "-test.run", "^TestCheck$", "-test.count", "1", "-test.timeout", "0")
			cmd.Env = append(os.Environ(), "GOMAXPROCS=1", "VERIF_C10_OUT="+out,
				"VERIF_TIER="+run.Tier(), fmt.Sprintf("VERIF_C10_SHARD=%d/%d/%d", i, of, run.Seed()))
			var childOut bytes.Buffer
			cmd.Stderr = os.Stderr // fatal runtime errors of a shard end up in the log of the run
			cmd.Stdout = &childOut
			if err := cmd.Run(); err != nil {
				os.Stderr.Write(childOut.Bytes())
				errs[i] = err
				return
			}
			b, err := os.ReadFile(out)
			if err != nil {
				errs[i] = err
				return
			}
			c := newCollector()
			if err := json.Unmarshal(b, c); err != nil {
				errs[i] = err
				return
			}
			results[i] = c
		}(i)
	}
	wg.Wait()
	var samples []string
	for i, c := range results {
		if c == nil {
			run.Inconclusive(fmt.Sprintf("shard %d/%d did not deliver a result: %v", i, of, errs[i]))
			continue
		}
		run.Eval(int(c.Evals))
		for k, n := range c.Counters {
			run.Add(k, n)
		}
		for _, h := range c.Distinct {
			run.Distinct(h)
		}
		samples = append(samples, c.Samples...)
		for _, v := range c.Vios {
			for j := 0; j < v.Count; j++ {
				run.Violation(v.Sig, v.What, v.Witness)
			}
		}
	}
	sort.Strings(samples)
	// up to two of each kind (the prefixes sort them apart)
	for i, n := 0, 0; i < len(samples) && n < 2; i, n = i+1, n+1 {
		run.Sample(samples[i])
	}
	for i, n := len(samples)-1, 0; i >= 2 && n < 2; i, n = i-1, n+1 {
		run.Sample(samples[i])
	}
}

func replay(run *report.Run, path string) {
	b, err := os.ReadFile(path)
	if err != nil {
		run.Inconclusive("cannot read replay file: " + err.Error())
		return
	}
	var doc struct {
		Witness kase `json:"witness"`
	}
	if err := json.Unmarshal(b, &doc); err != nil {
		run.Inconclusive("cannot parse replay file: " + err.Error())
		return
	}
	k := doc.Witness
	if k.Probe == "" {
		k.Probe = probeAll
	}
	run.Eval(1)
	run.DistinctAdd(2)
	run.Sample(seqText(k.Ops))
	v, illegal := runCase(k, nil, false)
	switch {
	case illegal:
		run.Inconclusive("the replay file contains an illegal call (unknown key, slot in use, or iterator used after Close)")
	case v != nil:
		k.Text = seqText(k.Ops)
		run.Violation(v.sig, v.what, k)
	default:
		fmt.Println("REPLAY: no violation on this tree")
	}
}
