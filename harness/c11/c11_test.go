// C11 — ordered map and LRU cache retain nothing beyond live entries (invariant at a hook, checked at
// quiescent points; DESIGN §3 C11).
//
// Part A drives iterable.Map with C10-style histories (exhaustive to a depth bound, and seeded random
// long ones). After every call the list walked by the hook VerifWalk must stay within the bound given
// by the live entries plus the open iterators; every history ends by closing every iterator, after
// which exactly Len()+1 nodes (the sentinel), no removed entry and no reference may be left. Iterators
// are also driven through the library's own combinator iterable.Mixer (map iterators mixed with each
// other, with a foreign source, with a foreign source whose Close reports an error, nested): the user
// closes the Mixer only, every map iterator below it counts as closed from then on.
// Part B drives lru.Cache / lru.ECache with long histories of GetOrCreate / Remove / Clear for every
// capacity 1..64; after every call the nodes reachable from the cache's recency list must not exceed
// capacity+1. A history that breaks the bound is re-run with operation kinds filtered out to find the
// kind of call the growth follows; that kind is part of the signature. Two history classes let the
// onDelete callback panic inside Remove / Clear (the caller recovers and goes on using the cache).
package c11

import (
	"bytes"
	"encoding/json"
	"errors"
	"fmt"
	"math"
	"math/rand"
	"os"
	"os/exec"
	"path/filepath"
	"runtime"
	"sort"
	"strings"
	"sync"
	"sync/atomic"
	"testing"
	"time"

	"github.com/acquirecloud/golibs/container/iterable"
	"github.com/acquirecloud/golibs/container/lru"

	"verifharness/internal/report"
)

func TestMain(m *testing.M) { os.Exit(report.ExitCode(m.Run())) }

type vio struct{ sig, what string }

func guard(f func()) (pan any) {
	defer func() { pan = recover() }()
	f()
	return nil
}

func structClass(err error) string {
	s := err.Error()
	at := ""
	if strings.HasPrefix(s, "node 0 ") || strings.HasPrefix(s, "node 0:") || strings.HasPrefix(s, "live node 0 ") {
		at = "@head"
	}
	switch {
	case strings.Contains(s, "head is nil"):
		return "head-nil"
	case strings.Contains(s, "head.prev is not nil"):
		return "head-prev"
	case strings.Contains(s, "does not end"):
		return "cycle"
	case strings.Contains(s, "prev link"):
		return "prev-link" + at
	case strings.Contains(s, "negative reference count"):
		return "negative-refcnt" + at
	case strings.Contains(s, "sentinel has a successor"):
		return "sentinel-successor"
	case strings.Contains(s, "is not map.last"):
		return "sentinel-not-last"
	case strings.Contains(s, "live nodes linked but"):
		return "live-count"
	case strings.Contains(s, "is not the indexed node"):
		return "index-mismatch" + at
	case strings.Contains(s, "marked deleted, unreferenced and still linked"):
		return "dead-linked" + at
	case strings.Contains(s, "unknown state"):
		return "state" + at
	case strings.Contains(s, "has no successor"):
		return "no-successor" + at
	}
	return "other"
}

// =============================================================================================
// Part A — iterable.Map

type opKind uint8

const (
	opAdd     opKind = iota // A = key (1-based); on a present key a no-op that returns an error
	opRemove                // A = key; on an absent key a no-op
	opNewIt                 // A = slot that receives the iterator (must be free)
	opHasNext               // A = slot (must be open)
	opNext                  // A = slot (must be open)
	opClose                 // A = slot (must be open)
	opFirst                 // the library's own iterator use
	opNewMix                // A = slot that receives an iterable.Mixer over map iterators (must be free), V = variant
)

var opNames = []string{"Add", "Remove", "NewIterator", "HasNext", "Next", "Close", "First", "NewMixer"}

// closing a slot that holds a Mixer is reported under this name
const mixerClose = "MixerClose"

type op struct {
	K opKind `json:"k"`
	A int    `json:"a"`
	V int    `json:"v,omitempty"`
}

// mixVariants: what opNewMix builds; pins = number of map iterators handed to the Mixer(s).
var mixVariants = []struct {
	text string
	pins int
}{
	{"Mixer(source whose Close fails, Iterator())", 1},
	{"Mixer(Iterator(), source whose Close fails)", 1},
	{"Mixer(Iterator(), Iterator())", 2},
	{"Mixer(slice source, Iterator())", 1},
	{"Mixer(Mixer(Iterator(), source whose Close fails), Iterator())", 2},
}

func keyName(k int) string { return string(rune('a' + k - 1)) }

func (o op) String() string {
	switch o.K {
	case opAdd, opRemove:
		return fmt.Sprintf("%s(%s)", opNames[o.K], keyName(o.A))
	case opNewIt:
		return fmt.Sprintf("it%d=Iterator()", o.A)
	case opNewMix:
		if o.V >= 0 && o.V < len(mixVariants) {
			return fmt.Sprintf("it%d=%s", o.A, mixVariants[o.V].text)
		}
		return fmt.Sprintf("it%d=Mixer(?%d)", o.A, o.V)
	case opHasNext, opNext, opClose:
		return fmt.Sprintf("it%d.%s()", o.A, opNames[o.K])
	}
	return opNames[o.K] + "()"
}

func seqText(ops []op) string {
	s := make([]string, len(ops))
	for i, o := range ops {
		s[i] = o.String()
	}
	return strings.Join(s, "; ")
}

// kase is the witness of part A. After Ops every open iterator is closed, in ascending slot order or
// (Rev) in descending slot order.
type kase struct {
	Keys  int    `json:"keys"`
	Slots int    `json:"slots"`
	Rev   bool   `json:"rev,omitempty"`
	Ops   []op   `json:"ops"`
	Text  string `json:"text,omitempty"`
}

type mapT = iterable.Map[int, int]
type iterT = iterable.Iterator[iterable.MapEntry[int, int]]

type mapDriver struct {
	m     *mapT
	its   []iterT
	pins  []int // per slot: map iterators below it (1 for a plain iterator)
	open  int   // map iterators not yet closed by their owner
	nextV int
}

var errForeignClose = errors.New("close of the foreign source failed (injected)")

// foreignIt is a source that does not belong to the map: a slice of entries; its Close reports
// closeErr (a remote source whose connection is gone).
type foreignIt struct {
	vals     []iterable.MapEntry[int, int]
	idx      int
	closeErr error
}

func (f *foreignIt) HasNext() bool { return f.idx < len(f.vals) }
func (f *foreignIt) Next() (iterable.MapEntry[int, int], bool) {
	if f.idx >= len(f.vals) {
		return iterable.MapEntry[int, int]{}, false
	}
	f.idx++
	return f.vals[f.idx-1], true
}
func (f *foreignIt) Close() error { return f.closeErr }

func byKey(a, b iterable.MapEntry[int, int]) bool { return a.Key <= b.Key }

// newMixer builds variant v over fresh iterators of m.
func newMixer(m *mapT, keys, v int) iterT {
	foreign := func(err error) iterT {
		return &foreignIt{vals: []iterable.MapEntry[int, int]{{Key: 1, Value: -1}, {Key: keys, Value: -2}}, closeErr: err}
	}
	mx := new(iterable.Mixer[iterable.MapEntry[int, int]])
	switch v {
	case 0:
		mx.Init(byKey, foreign(errForeignClose), m.Iterator())
	case 1:
		mx.Init(byKey, m.Iterator(), foreign(errForeignClose))
	case 2:
		mx.Init(byKey, m.Iterator(), m.Iterator())
	case 3:
		mx.Init(byKey, foreign(nil), m.Iterator())
	case 4:
		in := new(iterable.Mixer[iterable.MapEntry[int, int]])
		in.Init(byKey, m.Iterator(), foreign(errForeignClose))
		mx.Init(byKey, in, m.Iterator())
	default:
		return nil
	}
	return mx
}

// check is the invariant at the hook after the call named opName.
func (d *mapDriver) check(opName, where string, visit func(uint64)) *vio {
	var nodes, deleted, refSum, length int
	var err error
	if pan := guard(func() { nodes, deleted, refSum, err = d.m.VerifWalk(); length = d.m.Len() }); pan != nil {
		return &vio{"omap/retained-after-" + opName + "/structure:walk-panic", fmt.Sprintf("%s: structural walk panicked: %v", where, pan)}
	}
	pre := "omap/retained-after-" + opName + "/"
	state := fmt.Sprintf("nodes=%d removed-but-linked=%d refSum=%d Len()=%d open iterators=%d", nodes, deleted, refSum, length, d.open)
	if err != nil {
		return &vio{pre + "structure:" + structClass(err), fmt.Sprintf("%s: the list cannot be accounted for: %v (%s)", where, err, state)}
	}
	j := d.open
	if j == 0 {
		switch {
		case nodes > length+1:
			return &vio{pre + "nodes", fmt.Sprintf("%s: every iterator is closed but %d nodes are linked, want Len()+1=%d (%s)", where, nodes, length+1, state)}
		case nodes < length+1:
			return &vio{pre + "nodes-missing", fmt.Sprintf("%s: %d nodes are linked, want Len()+1=%d (%s)", where, nodes, length+1, state)}
		case deleted != 0:
			return &vio{pre + "removed-entry-linked", fmt.Sprintf("%s: every iterator is closed but %d removed entries are still linked (%s)", where, deleted, state)}
		case refSum != 0:
			return &vio{pre + "reference-left", fmt.Sprintf("%s: every iterator is closed but reference counts add up to %d (%s)", where, refSum, state)}
		}
		// the nodes that are linked but not live (only the tail sentinel is left now) must not hold a removed
		// entry's value (the map would keep it reachable)
		var stale int
		if pan := guard(func() { stale = d.m.VerifStaleValues() }); pan != nil {
			return &vio{pre + "structure:walk-panic", fmt.Sprintf("%s: stale-value walk panicked: %v", where, pan)}
		}
		if stale != 0 {
			return &vio{pre + "removed-value-held", fmt.Sprintf("%s: every iterator is closed but %d linked node(s) that are not live entries still hold a non-zero value of a removed entry (%s)", where, stale, state)}
		}
	} else {
		switch {
		case nodes > length+1+j:
			return &vio{pre + "nodes-over-bound", fmt.Sprintf("%s: %d nodes are linked, more than Len()+1+open iterators=%d (%s)", where, nodes, length+1+j, state)}
		case deleted > j:
			return &vio{pre + "removed-over-bound", fmt.Sprintf("%s: %d removed entries are linked but only %d iterators are open (%s)", where, deleted, j, state)}
		}
	}
	if visit != nil {
		visit(uint64(opNameIdx(opName))<<40 | uint64(length&0xff)<<32 | uint64(j&0xff)<<24 | uint64(nodes&0xff)<<16 | uint64(deleted&0xff)<<8 | uint64(refSum&0xff))
	}
	return nil
}

func opNameIdx(n string) int {
	for i, s := range opNames {
		if s == n {
			return i + 1
		}
	}
	if n == mixerClose {
		return len(opNames) + 1
	}
	return 0
}

// runMapCase executes the case. aborted != "" means a call panicked: the history could not be served,
// which is C10's subject; nothing is decided here.
func runMapCase(k kase, visit func(uint64)) (v *vio, aborted string, illegal bool) {
	d := &mapDriver{m: iterable.NewMap[int, int](), its: make([]iterT, k.Slots), pins: make([]int, k.Slots)}
	noteMap()
	do := func(o op, where string) (*vio, string, bool) {
		var pan any
		name := opNames[0]
		if int(o.K) < len(opNames) {
			name = opNames[o.K]
		}
		switch o.K {
		case opAdd:
			if o.A < 1 || o.A > k.Keys {
				return nil, "", true
			}
			d.nextV++
			pan = guard(func() { _ = d.m.Add(o.A, 100+d.nextV) })
		case opRemove:
			if o.A < 1 || o.A > k.Keys {
				return nil, "", true
			}
			pan = guard(func() { d.m.Remove(o.A) })
		case opNewIt:
			if o.A < 0 || o.A >= k.Slots || d.its[o.A] != nil {
				return nil, "", true
			}
			pan = guard(func() { d.its[o.A] = d.m.Iterator() })
			if pan == nil {
				if d.its[o.A] == nil {
					return nil, "Iterator() returned nil", false
				}
				d.pins[o.A] = 1
				d.open++
			}
		case opNewMix:
			if o.A < 0 || o.A >= k.Slots || d.its[o.A] != nil || o.V < 0 || o.V >= len(mixVariants) {
				return nil, "", true
			}
			pan = guard(func() { d.its[o.A] = newMixer(d.m, k.Keys, o.V) })
			if pan == nil {
				d.pins[o.A] = mixVariants[o.V].pins
				d.open += d.pins[o.A]
			}
		case opHasNext, opNext, opClose:
			if o.A < 0 || o.A >= k.Slots || d.its[o.A] == nil {
				return nil, "", true
			}
			it := d.its[o.A]
			switch o.K {
			case opHasNext:
				pan = guard(func() { it.HasNext() })
			case opNext:
				pan = guard(func() { it.Next() })
			default:
				// the error of a Mixer's Close is that of its foreign source; the owner of the Mixer has
				// nothing else to close
				if _, ok := it.(*iterable.Mixer[iterable.MapEntry[int, int]]); ok {
					name = mixerClose
				}
				d.its[o.A] = nil
				d.open -= d.pins[o.A]
				d.pins[o.A] = 0
				pan = guard(func() { _ = it.Close() })
			}
		case opFirst:
			pan = guard(func() { d.m.First() })
		default:
			return nil, "", true
		}
		if pan != nil {
			return nil, fmt.Sprintf("%s: panic: %v", where, pan), false
		}
		return d.check(name, where, visit), "", false
	}
	for i, o := range k.Ops {
		if v, ab, ill := do(o, fmt.Sprintf("step %d %s", i, o)); v != nil || ab != "" || ill {
			return v, ab, ill
		}
	}
	// quiescence: close what is still open
	closeSlot := func(s int) (*vio, string, bool) {
		if d.its[s] == nil {
			return nil, "", false
		}
		o := op{K: opClose, A: s}
		return do(o, fmt.Sprintf("closing phase %s", o))
	}
	if k.Rev {
		for s := k.Slots - 1; s >= 0; s-- {
			if v, ab, ill := closeSlot(s); v != nil || ab != "" || ill {
				return v, ab, ill
			}
		}
	} else {
		for s := 0; s < k.Slots; s++ {
			if v, ab, ill := closeSlot(s); v != nil || ab != "" || ill {
				return v, ab, ill
			}
		}
	}
	// with nothing open the last check above was the quiescent one; a history without any call left
	// open (or empty) is checked here
	if v := d.check("Close", "quiescent point", visit); v != nil {
		return v, "", false
	}
	return nil, "", false
}

var mapsMade int // per process; the shards are single-threaded

// noteMap: every Map registers its sync.Pool in the runtime's pool list, which keeps the whole map
// reachable until the second garbage collection after that; collect at fixed case counts so that the
// heap does not pace itself upwards.
func noteMap() {
	if mapsMade++; mapsMade%(1<<16) == 0 {
		runtime.GC()
	}
}

// ---------------------------------------------------------------------------------------------
// collector: what one shard (child process) observed

type vioRec struct {
	Sig     string `json:"sig"`
	What    string `json:"what"`
	Witness any    `json:"witness"`
	Count   int    `json:"count"`
	size    int
}

type collector struct {
	Evals    int64            `json:"evals"`
	Counters map[string]int64 `json:"counters"`
	Maxima   map[string]int64 `json:"maxima"`
	Distinct []uint64         `json:"distinct"`
	Vios     []*vioRec        `json:"vios"`
	Aborted  []string         `json:"aborted"`
	Samples  []string         `json:"samples"`
	// max over the cache histories of nodes-(capacity+1): negative or 0 while the bound holds
	MaxOver    int64 `json:"max_over"`
	MaxOverSet bool  `json:"max_over_set"`

	seen       map[uint64]struct{}
	bysig      map[string]*vioRec
	mapSamples int
	lruSamples int
}

func newCollector() *collector {
	return &collector{Counters: map[string]int64{}, Maxima: map[string]int64{}, seen: map[uint64]struct{}{}, bysig: map[string]*vioRec{}}
}

func (c *collector) visit(h uint64) { c.seen[h] = struct{}{} }

func (c *collector) max(k string, v int64) {
	if v > c.Maxima[k] {
		c.Maxima[k] = v
	}
}

func (c *collector) violation(sig, what string, witness any, size int) {
	if r, ok := c.bysig[sig]; ok {
		r.Count++
		if size < r.size { // keep the smallest witness per signature
			r.What, r.Witness, r.size = what, witness, size
		}
		return
	}
	r := &vioRec{sig, what, witness, 1, size}
	c.bysig[sig] = r
	c.Vios = append(c.Vios, r)
}

func (c *collector) abort(s string) {
	c.Counters["histories_aborted_by_panic"]++
	if len(c.Aborted) < 3 {
		c.Aborted = append(c.Aborted, s)
	}
}

// ---------------------------------------------------------------------------------------------
// enumeration (the C10 generator plus First)

type gen struct {
	present, open uint
	used          int
}

func (g gen) next(keys, slots int, mix bool, f func(o op, g2 gen)) {
	for k := 1; k <= keys && k <= g.used+1; k++ {
		g2 := g
		if k == g.used+1 {
			g2.used++
		}
		g2.present ^= 1 << k
		if g.present&(1<<k) != 0 {
			f(op{K: opRemove, A: k}, g2)
		} else {
			f(op{K: opAdd, A: k}, g2)
		}
	}
	f(op{K: opFirst, A: 0}, g)
	for s := 0; s < slots; s++ {
		if g.open&(1<<s) == 0 {
			g2 := g
			g2.open |= 1 << s
			f(op{K: opNewIt, A: s}, g2)
			if mix {
				for v := range mixVariants {
					f(op{K: opNewMix, A: s, V: v}, g2)
				}
			}
			break
		}
	}
	for s := 0; s < slots; s++ {
		if g.open&(1<<s) != 0 {
			f(op{K: opHasNext, A: s}, g)
			f(op{K: opNext, A: s}, g)
			g2 := g
			g2.open &^= 1 << s
			f(op{K: opClose, A: s}, g2)
		}
	}
}

func popcount(x uint) int {
	n := 0
	for ; x != 0; x &= x - 1 {
		n++
	}
	return n
}

// runNode runs one sequence followed by the closing phase (both closing orders when they differ).
func runNode(c *collector, keys, slots int, ops []op, g gen, count bool, counter string) bool {
	clean := true
	for _, rev := range []bool{false, true} {
		if rev && popcount(g.open) < 2 {
			continue
		}
		k := kase{Keys: keys, Slots: slots, Rev: rev, Ops: ops}
		var visit func(uint64)
		if count {
			visit = c.visit
		}
		v, ab, _ := runMapCase(k, visit)
		switch {
		case v != nil:
			clean = false
			if count {
				k.Ops = append([]op(nil), ops...)
				k.Text = seqText(ops)
				c.violation(v.sig, v.what+" — sequence: "+k.Text+closingText(k), k, len(ops))
			}
		case ab != "":
			clean = false
			if count {
				c.abort(ab + " — sequence: " + seqText(ops))
			}
		case count:
			c.Evals++
			if len(ops) >= 6 && popcount(g.open) >= 2 && c.mapSamples < 1 {
				c.mapSamples++
				c.Samples = append(c.Samples, "map history (held): "+seqText(ops)+closingText(k))
			}
		}
	}
	if count {
		c.Counters[counter]++
	}
	return clean
}

func closingText(k kase) string {
	if k.Rev {
		return "; then close every open iterator (descending slots)"
	}
	return "; then close every open iterator"
}

// enumerate runs every legal sequence of length 1..depth (prefix-closed; a violating sequence is not
// extended). Unit u (a sequence of length split with everything below it) belongs to shard u mod of;
// shorter sequences are run by every shard and counted by shard 0.
// With mix a free slot can also receive each variant of Mixer.
func enumerate(c *collector, keys, slots, depth int, mix bool, shard, of int) {
	counter := "map_enumerated_sequences"
	if mix {
		counter = "map_enumerated_sequences_with_mixers"
	}
	split := 5
	if depth < split {
		split = depth
	}
	unit := 0
	var rec func(ops []op, g gen)
	rec = func(ops []op, g gen) {
		if len(ops) >= depth {
			return
		}
		g.next(keys, slots, mix, func(o op, g2 gen) {
			ops2 := append(ops, o)
			count := true
			switch {
			case len(ops2) < split:
				count = shard == 0
			case len(ops2) == split:
				mine := unit%of == shard
				unit++
				if !mine {
					return
				}
			}
			if mix && !hasMixer(ops2) {
				rec(ops2, g2) // the plain enumeration has this sequence; only its extensions are of interest here
				return
			}
			if runNode(c, keys, slots, ops2, g2, count, counter) {
				rec(ops2, g2)
			}
		})
	}
	rec(make([]op, 0, depth), gen{})
}

func hasMixer(ops []op) bool {
	for _, o := range ops {
		if o.K == opNewMix {
			return true
		}
	}
	return false
}

// ---------------------------------------------------------------------------------------------
// random long histories

type profile struct {
	name                                             string
	keys, slots                                      int
	add, remove, newIt, hasNext, next, close_, first int // weights
	mix                                              int // weight of a new Mixer (a random variant)
}

var profiles = []profile{
	{"balanced-5k-8it", 5, 8, 20, 18, 10, 14, 22, 8, 4, 0},
	{"remove-heavy-5k-8it", 5, 8, 18, 30, 8, 12, 18, 8, 4, 0},
	{"close-heavy-5k-8it", 5, 8, 16, 16, 20, 8, 14, 20, 4, 0},
	{"small-2k-3it", 2, 3, 20, 20, 10, 14, 20, 10, 4, 0},
	{"walkers-3k-8it", 3, 8, 14, 14, 10, 20, 32, 6, 2, 0},
	{"mixers-4k-6it", 4, 6, 18, 18, 5, 14, 24, 10, 3, 8},
	{"mixers-remove-heavy-3k-4it", 3, 4, 18, 28, 2, 10, 20, 12, 2, 10},
}

func randomCase(rng *rand.Rand, p profile, n int) kase {
	k := kase{Keys: p.keys, Slots: p.slots}
	open := make([]bool, p.slots)
	nopen := 0
	total := p.add + p.remove + p.newIt + p.hasNext + p.next + p.close_ + p.first + p.mix
	pickOpen := func() int {
		j := rng.Intn(nopen)
		for s, o := range open {
			if o {
				if j == 0 {
					return s
				}
				j--
			}
		}
		return -1
	}
	for len(k.Ops) < n {
		x := rng.Intn(total)
		var o op
		switch {
		case x < p.add:
			o = op{K: opAdd, A: 1 + rng.Intn(p.keys)}
		case x < p.add+p.remove:
			o = op{K: opRemove, A: 1 + rng.Intn(p.keys)}
		case x < p.add+p.remove+p.newIt:
			if nopen == p.slots {
				continue
			}
			s := 0
			for open[s] {
				s++
			}
			open[s] = true
			nopen++
			o = op{K: opNewIt, A: s}
		case x < p.add+p.remove+p.newIt+p.hasNext:
			if nopen == 0 {
				continue
			}
			o = op{K: opHasNext, A: pickOpen()}
		case x < p.add+p.remove+p.newIt+p.hasNext+p.next:
			if nopen == 0 {
				continue
			}
			o = op{K: opNext, A: pickOpen()}
		case x < p.add+p.remove+p.newIt+p.hasNext+p.next+p.close_:
			if nopen == 0 {
				continue
			}
			s := pickOpen()
			open[s] = false
			nopen--
			o = op{K: opClose, A: s}
		case x < p.add+p.remove+p.newIt+p.hasNext+p.next+p.close_+p.mix:
			if nopen == p.slots {
				continue
			}
			s := 0
			for open[s] {
				s++
			}
			open[s] = true
			nopen++
			o = op{K: opNewMix, A: s, V: rng.Intn(len(mixVariants))}
		default:
			o = op{K: opFirst, A: 0}
		}
		k.Ops = append(k.Ops, o)
	}
	return k
}

func randomMapPass(c *collector, seed int64, seqs, length, shard, of int) {
	for i := shard; i < seqs; i += of {
		rng := rand.New(rand.NewSource(seed*1_000_003 + int64(i)))
		p := profiles[i%len(profiles)]
		k := randomCase(rng, p, length)
		k.Rev = (i/len(profiles))%2 == 1
		v, ab, _ := runMapCase(k, c.visit)
		c.Counters["map_random_histories"]++
		c.Counters["map_random_operations"] += int64(len(k.Ops))
		for _, o := range k.Ops {
			if o.K == opNewMix {
				c.Counters["map_random_mixers"]++
			}
		}
		switch {
		case v != nil:
			k.Text = seqText(k.Ops)
			if len(k.Text) > 400 {
				k.Text = k.Text[:400] + "…"
			}
			c.violation(v.sig, fmt.Sprintf("%s — random history %d (%s), %d operations", v.what, i, p.name, len(k.Ops)), k, len(k.Ops))
		case ab != "":
			c.abort(fmt.Sprintf("%s — random history %d (%s)", ab, i, p.name))
		default:
			c.Evals++
		}
	}
}

// =============================================================================================
// Part B — lru.Cache / lru.ECache

type pkT struct{ id int } // primary key of the ECache variant: compared through its id only

type cacheT interface {
	GetOrCreate(k int) (int, error)
	Remove(k int) bool
	Clear() int
	VerifRetained() (nodes, length, inflight int, err error)
}

type plainCache struct{ *lru.Cache[int, int] }
type extCache struct {
	*lru.ECache[*pkT, int, int]
}

func (e extCache) GetOrCreate(k int) (int, error) { return e.ECache.GetOrCreate(&pkT{k}) }
func (e extCache) Remove(k int) bool              { return e.ECache.Remove(&pkT{k}) }

var errCreate = errors.New("create failed (injected)")

// errCallback is the value the onDelete callback panics with when a call carries a fault
var errCallback = errors.New("onDelete callback failed (injected panic)")

const failingKey = 1_000_000 // keys >= failingKey cannot be created

// lruCase is the witness of part B: the history is regenerated from it.
type lruCase struct {
	Cap    int      `json:"cap"`
	Class  string   `json:"class"`
	Ecache bool     `json:"ecache"`
	N      int      `json:"n"`               // number of generated calls
	Seed   int64    `json:"seed"`            // generator seed of this history
	Drop   []string `json:"drop,omitempty"`  // dynamic call kinds that are skipped (culprit analysis)
	Stop   int      `json:"stop,omitempty"`  // informational: index of the call after which the bound broke
	Calls  string   `json:"calls,omitempty"` // informational: the first executed calls
}

type lruOp struct {
	kind  byte // 'G' GetOrCreate, 'R' Remove, 'C' Clear
	key   int
	fault int // Remove / Clear only: the fault-th onDelete callback of this call panics (0 = none)
}

type lruClass struct {
	name       string
	universe   func(cap int) int
	g, r, c, e int  // weights: GetOrCreate, Remove, Clear, GetOrCreate of a key that cannot be created
	cycle      byte // 'C' / 'R': strict alternation GetOrCreate(k); Clear | Remove(k)
	f          int  // percentage of the Remove / Clear calls whose onDelete callback panics (the caller recovers)
}

var lruClasses = []lruClass{
	{name: "clear-cycle", universe: func(c int) int { return 2*c + 1 }, cycle: 'C'},
	{name: "clear-heavy", universe: func(c int) int { return 2*c + 1 }, g: 50, r: 8, c: 40, e: 2},
	{name: "remove-cycle", universe: func(c int) int { return 2*c + 1 }, cycle: 'R'},
	{name: "remove-heavy", universe: func(c int) int { return 2*c + 1 }, g: 50, r: 45, c: 0, e: 5},
	{name: "evict-heavy", universe: func(c int) int { return 4*c + 3 }, g: 100},
	{name: "hit-heavy", universe: func(c int) int { return c }, g: 97, e: 3},
	{name: "mixed", universe: func(c int) int { return 2*c + 1 }, g: 60, r: 25, c: 5, e: 10},
	{name: "callback-panic-clear-heavy", universe: func(c int) int { return 2*c + 1 }, g: 58, r: 8, c: 32, e: 2, f: 35},
	{name: "callback-panic-mixed", universe: func(c int) int { return 2*c + 1 }, g: 60, r: 25, c: 8, e: 7, f: 25},
}

func classByName(n string) *lruClass {
	for i := range lruClasses {
		if lruClasses[i].name == n {
			return &lruClasses[i]
		}
	}
	return nil
}

func genLRU(k lruCase) []lruOp {
	cl := classByName(k.Class)
	rng := rand.New(rand.NewSource(k.Seed))
	u := cl.universe(k.Cap)
	ops := make([]lruOp, 0, k.N)
	if cl.cycle != 0 {
		for len(ops) < k.N {
			key := rng.Intn(u)
			ops = append(ops, lruOp{kind: 'G', key: key})
			if cl.cycle == 'C' {
				ops = append(ops, lruOp{kind: 'C'})
			} else {
				ops = append(ops, lruOp{kind: 'R', key: key})
			}
		}
		return ops[:k.N]
	}
	total := cl.g + cl.r + cl.c + cl.e
	for len(ops) < k.N {
		x := rng.Intn(total)
		switch {
		case x < cl.g:
			ops = append(ops, lruOp{kind: 'G', key: rng.Intn(u)})
		case x < cl.g+cl.r:
			ops = append(ops, lruOp{kind: 'R', key: rng.Intn(u)})
		case x < cl.g+cl.r+cl.c:
			ops = append(ops, lruOp{kind: 'C'})
		default:
			ops = append(ops, lruOp{kind: 'G', key: failingKey + rng.Intn(u)})
		}
		if o := &ops[len(ops)-1]; cl.f > 0 && o.kind != 'G' && rng.Intn(100) < cl.f {
			o.fault = 1
			if o.kind == 'C' {
				o.fault = 1 + rng.Intn(3) // Clear: the first, second or third entry's callback
			}
		}
	}
	return ops
}

// dynamic call kinds (what the call turned out to be)
const (
	kMiss    = "GetOrCreate-miss"
	kEvict   = "eviction" // a miss that pushed the oldest entry out
	kHit     = "GetOrCreate-hit"
	kError   = "GetOrCreate-error"
	kRemove  = "Remove"
	kRemoveN = "Remove-absent"
	kClear   = "Clear"
	// the onDelete callback panicked inside the call, the caller recovered
	kClearPanic  = "Clear-callback-panic"
	kRemovePanic = "Remove-callback-panic"
)

// the kinds that the culprit analysis can leave out (misses are the base load and always stay)
var droppable = []string{kClear, kRemove, kHit, kError, kClearPanic, kRemovePanic}

type lruOutcome struct {
	v        *vio   // bound broken / list inconsistent (signature prefix without the culprit)
	aborted  string // a call panicked
	stop     int
	kinds    map[string]int // calls per dynamic kind
	growth   map[string]int // sum of increases of (nodes - length - 1) per dynamic kind
	maxNodes int
	maxOver  int // max nodes - (capacity+1)
	maxExtra int // max nodes - (length+1)
	evicted  bool
	calls    string // the first executed calls, written out
}

// runLRU executes the history. visit receives (capacity, kind, fill class, nodes-length-1) classes.
func runLRU(k lruCase, visit func(uint64)) lruOutcome {
	out := lruOutcome{kinds: map[string]int{}, growth: map[string]int{}, stop: -1, maxOver: math.MinInt32}
	resident := map[int]bool{}
	evictions := 0
	create := func(key int) (int, error) {
		if key >= failingKey {
			return 0, errCreate
		}
		return key + 7, nil
	}
	armed := 0 // > 0: the armed-th onDelete callback from now on panics
	onDelete := func(key int) {
		delete(resident, key)
		evictions++
		if armed > 0 {
			if armed--; armed == 0 {
				panic(errCallback)
			}
		}
	}
	var c cacheT
	if k.Ecache {
		ec, err := lru.NewECache[*pkT, int, int](k.Cap, func(p *pkT) int { return p.id },
			func(p *pkT) (int, error) { return create(p.id) },
			func(p *pkT, v int) { onDelete(p.id) })
		if err != nil {
			out.aborted = "NewECache: " + err.Error()
			return out
		}
		c = extCache{ec}
	} else {
		pc, err := lru.NewCache[int, int](k.Cap, create, func(key int, v int) { onDelete(key) })
		if err != nil {
			out.aborted = "NewCache: " + err.Error()
			return out
		}
		c = plainCache{pc}
	}
	drop := map[string]bool{}
	for _, d := range k.Drop {
		drop[d] = true
	}
	prevExtra, ncalls := 0, 0
	for i, o := range genLRU(k) {
		var kind string
		switch o.kind {
		case 'G':
			switch {
			case o.key >= failingKey:
				kind = kError
			case resident[o.key]:
				kind = kHit
			default:
				kind = kMiss
			}
		case 'R':
			kind = kRemoveN
			if resident[o.key] {
				kind = kRemove
				if o.fault > 0 {
					kind = kRemovePanic
				}
			}
		default:
			kind = kClear
			if o.fault > 0 && len(resident) >= o.fault {
				kind = kClearPanic
			}
		}
		if drop[kind] || (kind == kRemoveN && drop[kRemove]) {
			continue
		}
		ev0 := evictions
		armed = 0
		if kind == kClearPanic || kind == kRemovePanic {
			armed = o.fault
		}
		var pan any
		switch o.kind {
		case 'G':
			pan = guard(func() {
				if _, err := c.GetOrCreate(o.key); err == nil {
					resident[o.key] = true
				}
			})
			if kind == kMiss && evictions > ev0 {
				kind = kEvict
				out.evicted = true
			}
		case 'R':
			pan = guard(func() { c.Remove(o.key) })
		default:
			pan = guard(func() { c.Clear() })
		}
		if armed = 0; pan == errCallback && (kind == kClearPanic || kind == kRemovePanic) {
			pan = nil // the injected failure of the callback, recovered by the caller: the history goes on
		}
		out.kinds[kind]++
		if ncalls < 24 {
			ncalls++
			if kind == kClearPanic {
				out.calls += fmt.Sprintf("Clear[callback %d panics]; ", o.fault)
			} else if kind == kRemovePanic {
				out.calls += fmt.Sprintf("Remove(%d)[callback panics]; ", o.key)
			} else if o.kind == 'C' {
				out.calls += "Clear; "
			} else {
				out.calls += fmt.Sprintf("%s(%d); ", map[byte]string{'G': "GetOrCreate", 'R': "Remove"}[o.kind], o.key)
			}
		} else if ncalls == 24 {
			ncalls++
			out.calls += "…"
		}
		if pan != nil {
			// the cache may hold its lock now: no further call, not even the hook
			out.aborted = fmt.Sprintf("call %d %s(%d) [%s]: panic: %v", i, string(o.kind), o.key, kind, pan)
			out.stop = i
			return out
		}
		nodes, length, _, err := c.VerifRetained()
		where := fmt.Sprintf("capacity %d, %s history, call %d %s", k.Cap, k.Class, i, kind)
		if err != nil {
			out.v = &vio{"structure:" + structClass(err), fmt.Sprintf("%s: the recency list cannot be accounted for: %v (nodes=%d resident=%d)", where, err, nodes, length)}
			out.stop = i
			return out
		}
		extra := nodes - length - 1
		if extra > prevExtra {
			out.growth[kind] += extra - prevExtra
		}
		prevExtra = extra
		if nodes > out.maxNodes {
			out.maxNodes = nodes
		}
		if nodes-(k.Cap+1) > out.maxOver {
			out.maxOver = nodes - (k.Cap + 1)
		}
		if extra > out.maxExtra {
			out.maxExtra = extra
		}
		if nodes > k.Cap+1 {
			out.v = &vio{"retained", fmt.Sprintf("%s: %d nodes are reachable from the recency list, more than capacity+1=%d (resident entries %d; increases of nodes-resident-1 so far by kind of call: %v)", where, nodes, k.Cap+1, length, out.growth)}
			out.stop = i
			return out
		}
		if visit != nil {
			fill := 1
			if length == 0 {
				fill = 0
			} else if length == k.Cap {
				fill = 2
			}
			e := extra
			if e > 255 {
				e = 255
			}
			visit(1<<56 | uint64(k.Cap)<<32 | uint64(report.HashStr(kind)&0xffff)<<16 | uint64(fill)<<8 | uint64(e))
		}
	}
	return out
}

// culprit re-runs a violating history with call kinds left out and returns the smallest sets of kinds
// that — together with the misses — are enough to break the bound.
func culprit(k lruCase, out lruOutcome) string {
	var present []string
	for _, d := range droppable {
		if out.kinds[d] > 0 {
			present = append(present, d)
		}
	}
	n := len(present)
	for size := 0; size <= n; size++ {
		var hits []string
		for mask := 0; mask < 1<<n; mask++ {
			if popcount(uint(mask)) != size {
				continue
			}
			kk := k
			kk.Drop = nil
			var keep []string
			for i, d := range present {
				if mask&(1<<i) != 0 {
					keep = append(keep, d)
				} else {
					kk.Drop = append(kk.Drop, d)
				}
			}
			o := runLRU(kk, nil)
			if o.v != nil {
				if size == 0 {
					if o.evicted {
						return kEvict
					}
					return kMiss
				}
				hits = append(hits, strings.Join(keep, "+"))
			}
		}
		if len(hits) > 0 {
			sort.Strings(hits)
			return strings.Join(hits, ",")
		}
	}
	return "undetermined"
}

func lruPass(c *collector, seed int64, perHistory, shard, of int) {
	idx := 0
	for capy := 1; capy <= 64; capy++ {
		for ci, cl := range lruClasses {
			mine := idx%of == shard
			idx++
			if !mine {
				continue
			}
			k := lruCase{Cap: capy, Class: cl.name, Ecache: (capy+ci)%2 == 1, N: perHistory, Seed: seed*7_000_003 + int64(capy)*131 + int64(ci)}
			out := runLRU(k, c.visit)
			c.Counters["lru_histories"]++
			for kind, n := range out.kinds {
				c.Counters["lru_calls_"+kind] += int64(n)
				c.Counters["lru_calls"] += int64(n)
			}
			for kind, n := range out.growth {
				c.Counters["lru_excess_node_increases_after_"+kind] += int64(n)
			}
			if _, ok := c.Maxima["lru_max_nodes_minus_resident_minus_sentinel"]; !ok {
				c.Maxima["lru_max_nodes_minus_resident_minus_sentinel"] = 0
			}
			c.max("lru_max_nodes", int64(out.maxNodes))
			c.max("lru_max_nodes_minus_resident_minus_sentinel", int64(out.maxExtra))
			if out.maxOver > math.MinInt32 && (!c.MaxOverSet || int64(out.maxOver) > c.MaxOver) {
				c.MaxOver, c.MaxOverSet = int64(out.maxOver), true
			}
			switch {
			case out.aborted != "":
				c.abort(fmt.Sprintf("capacity %d, %s history: %s", capy, cl.name, out.aborted))
			case out.v != nil:
				k.Stop = out.stop
				sig := "lru/" + out.v.sig
				if out.v.sig == "retained" {
					sig = "lru/retained-after-" + culprit(k, out)
				}
				k.Calls = out.calls
				c.violation(sig, out.v.what+" — first calls: "+out.calls, k, out.stop)
			default:
				c.Evals++
				if c.lruSamples < 1 {
					c.lruSamples++
					c.Samples = append(c.Samples, fmt.Sprintf("cache history (held): capacity %d, %s, %d calls %v, max nodes %d; first calls: %s", capy, cl.name, k.N, out.kinds, out.maxNodes, out.calls))
				}
			}
		}
	}
}

// timing is an observation only: a Clear-dominated run without the hook, time of the first and the
// last tenth of the calls.
func timing(run *report.Run, cycles int) {
	pc, err := lru.NewCache[int, int](8, func(k int) (int, error) { return k, nil }, nil)
	if err != nil {
		return
	}
	tenth := cycles / 10
	var first, last time.Duration
	aborted := ""
	for i := 0; i < cycles && aborted == ""; i++ {
		if i == 0 || i == cycles-tenth {
			t0 := time.Now()
			for j := 0; j < tenth && aborted == ""; j++ {
				if pan := guard(func() { pc.GetOrCreate((i + j) % 17); pc.Clear() }); pan != nil {
					aborted = fmt.Sprint(pan)
				}
			}
			if i == 0 {
				first = time.Since(t0)
			} else {
				last = time.Since(t0)
			}
			i += tenth - 1
			continue
		}
		if pan := guard(func() { pc.GetOrCreate(i % 17); pc.Clear() }); pan != nil {
			aborted = fmt.Sprint(pan)
		}
	}
	obs := map[string]any{
		"history":        fmt.Sprintf("%d x (GetOrCreate; Clear) on capacity 8, no hook calls", cycles),
		"first_tenth_ms": float64(first.Microseconds()) / 1000,
		"last_tenth_ms":  float64(last.Microseconds()) / 1000,
		"note":           "observation only; never a verdict",
	}
	if first > 0 {
		obs["last_over_first"] = float64(int(100*float64(last)/float64(first))) / 100
	}
	if aborted != "" {
		obs["aborted_by_panic"] = aborted
	}
	run.Note("timing_first_vs_last_tenth", obs)
}

// =============================================================================================

type plan struct {
	mapDepth, mixDepth, mapRandom, mapRandomLen int
	lruPerHistory                               int
	timingCycles                                int
}

func planFor(thorough bool) plan {
	if thorough {
		return plan{mapDepth: 9, mixDepth: 7, mapRandom: 100000, mapRandomLen: 1000, lruPerHistory: 50000, timingCycles: 60000}
	}
	return plan{mapDepth: 8, mixDepth: 6, mapRandom: 5000, mapRandomLen: 1000, lruPerHistory: 5000, timingCycles: 20000}
}

func runShard(pl plan, seed int64, shard, of int) *collector {
	c := newCollector()
	enumerate(c, 3, 3, pl.mapDepth, false, shard, of)
	enumerate(c, 2, 2, pl.mixDepth, true, shard, of)
	randomMapPass(c, seed, pl.mapRandom, pl.mapRandomLen, shard, of)
	lruPass(c, seed, pl.lruPerHistory, shard, of)
	for h := range c.seen {
		c.Distinct = append(c.Distinct, h)
	}
	return c
}

// concurrentLRU: the statement says "however many calls it has served" - concurrent histories included.
// G goroutines hammer one cache with GetOrCreate (new and resident keys, create callbacks that yield),
// Remove and Clear; at every quiescent point (all goroutines joined) the hook must show a consistent list
// with at most capacity entries and at most capacity+1 nodes.
func concurrentLRU(run *report.Run, seed int64, rounds int) {
	for r := 0; r < rounds; r++ {
		rng := rand.New(rand.NewSource(seed*7_000_003 + int64(r)))
		capacity := 1 + rng.Intn(8)
		G := 2 + rng.Intn(7)
		var created atomic.Int64
		c, err := lru.NewCache[int, int](capacity, func(k int) (int, error) {
			if k%3 == 0 {
				runtime.Gosched()
			}
			return int(created.Add(1)), nil
		}, func(int, int) {})
		if err != nil {
			run.Inconclusive("NewCache: " + err.Error())
			return
		}
		for burst := 0; burst < 6; burst++ {
			var wg sync.WaitGroup
			for g := 0; g < G; g++ {
				wg.Add(1)
				go func(g int) {
					defer wg.Done()
					gr := rand.New(rand.NewSource(seed ^ int64(r*1000+burst*100+g)))
					for i := 0; i < 40; i++ {
						switch x := gr.Intn(20); {
						case x < 15:
							_, _ = c.GetOrCreate(gr.Intn(3 * capacity)) // mostly new keys: evictions back to back
						case x < 19:
							c.Remove(gr.Intn(3 * capacity))
						default:
							c.Clear()
						}
					}
				}(g)
			}
			wg.Wait()
			run.Eval(1)
			run.Add("concurrent_quiescent_points", 1)
			nodes, length, infl, herr := c.VerifRetained()
			w := map[string]any{"kind": "concurrent-lru", "seed": seed, "round": r, "capacity": capacity, "goroutines": G}
			switch {
			case herr != nil:
				run.Violation("lru/concurrent/structure", fmt.Sprintf("after a concurrent burst the recency list is inconsistent: %v", herr), w)
				return
			case length > capacity:
				run.Violation("lru/concurrent/over-capacity", fmt.Sprintf("after a concurrent burst (%d goroutines) the cache of capacity %d holds %d entries", G, capacity, length), w)
				return
			case nodes > capacity+1:
				run.Violation("lru/concurrent/retained-nodes", fmt.Sprintf("after a concurrent burst %d nodes are reachable, capacity+1 = %d", nodes, capacity+1), w)
				return
			case infl != 0:
				run.Violation("lru/concurrent/inflight-residue", fmt.Sprintf("no call is in progress but the in-flight table has %d entries", infl), w)
				return
			}
		}
	}
}

func TestCheck(t *testing.T) {
	// child process: one shard (see C10: every fresh Map owns a sync.Pool whose first use takes a
	// process-wide lock; single-threaded child processes do not contend on it)
	if spec := os.Getenv("VERIF_C11_SHARD"); spec != "" {
		var shard, of int
		var seed int64
		if _, err := fmt.Sscanf(spec, "%d/%d/%d", &shard, &of, &seed); err != nil {
			t.Fatalf("bad shard spec %q: %v", spec, err)
		}
		c := runShard(planFor(os.Getenv("VERIF_TIER") == "thorough"), seed, shard, of)
		b, err := json.Marshal(c)
		if err == nil {
			err = os.WriteFile(os.Getenv("VERIF_C11_OUT"), b, 0o644)
		}
		if err != nil {
			t.Fatalf("shard result: %v", err)
		}
		return
	}

	run := report.New("C11", "exploration")
	defer run.Finish(t)
	run.Rule("(A) iterable.Map: every legal sequence over {Add(k absent), Remove(k present), First, NewIterator (<=3 open), It[i].HasNext, It[i].Next, It[i].Close}, k in {a,b,c} up to key renaming, of length 1..depth, and seeded random histories of 1000 calls over 2-5 keys and up to 8 iterators (Add/Remove of any key); each followed by closing every open iterator (ascending and descending slot order); iterators are also taken through the library's iterable.Mixer (map iterator mixed with a slice source, with a source whose Close reports an error - in either position -, with a second map iterator, nested): every sequence of length 1..mixDepth over 2 keys and 2 slots that builds a Mixer, and random histories with Mixers; closing the Mixer is the only Close its owner can issue and counts as closing every map iterator below it. Through VerifWalk after every call: list consistent, nodes <= Len()+1+j and removed-but-linked <= j with j iterators open; with none open nodes == Len()+1, no removed entry linked, reference counts 0, and (hook VerifStaleValues) no linked non-live node holding a removed entry's value. (C) concurrent histories: 2-8 goroutines hammer one cache, at every quiescent point entries <= capacity, nodes <= capacity+1, no in-flight residue. (B) lru.NewCache / lru.NewECache: for every capacity 1..64 nine seeded history classes (GetOrCreate;Clear cycles, Clear-heavy, GetOrCreate;Remove cycles, Remove-heavy, eviction-heavy, hit-heavy, mixed; with injected create errors; and two classes in which the onDelete callback panics inside a share of the Remove calls and at the first/second/third entry of a share of the Clear calls, the caller recovering and going on); through VerifRetained after every call: recency list consistent and nodes <= capacity+1. distinct = distinct observations (A: call kind, Len, open iterators, nodes, removed-but-linked, reference sum; B: capacity, kind of call as it turned out, empty/partial/full, nodes-resident-1)")
	run.Assume("parts (A) and (B): one goroutine; iterators are never used after Close; no iterator of the harness is open on the caches' internal map")
	run.Assume("a call that panics by itself ends the history without a verdict here (panics are C10's subject); such histories are counted and make the run inconclusive. A panic injected through the onDelete callback is part of the history: it is raised only inside Remove and Clear, which release the cache's lock by defer so that the cache stays usable; never in an eviction or in create, where the unchanged library keeps its lock / in-flight entry and the cache cannot serve further calls")
	run.Assume("an iterator handed to iterable.Mixer is owned by the Mixer: Mixer.Close is the close of both sources whatever error it reports")
	run.Assume("'cost does not grow with history length' is decided through the node count (every operation's work is bounded by the list it walks); the timing comparison is an observation only")

	if p := os.Getenv("VERIF_REPLAY"); p != "" {
		replay(run, p)
		return
	}
	pl := planFor(run.Thorough())
	run.Note("bounds", map[string]any{
		"map_enumeration":  fmt.Sprintf("all legal sequences of length 1..%d over 3 keys, <=3 open iterators and First, complete up to key renaming, each with both closing orders", pl.mapDepth),
		"map_random":       fmt.Sprintf("%d histories of %d calls, %d profiles of which 2 build Mixers", pl.mapRandom, pl.mapRandomLen, len(profiles)),
		"map_mixers":       fmt.Sprintf("all legal sequences of length 1..%d over 2 keys and 2 slots that contain a NewMixer (%d variants)", pl.mixDepth, len(mixVariants)),
		"lru":              fmt.Sprintf("capacities 1..64 x %d history classes x %d generated calls, hook after every call", len(lruClasses), pl.lruPerHistory),
		"lru_bound":        "nodes <= capacity+1",
		"lru_history_kind": "cache and ecache constructors alternate over (capacity, class)",
	})

	of := runtime.NumCPU()
	if of > 32 {
		of = 32
	}
	dir, err := os.MkdirTemp("", "verif-c11-")
	if err != nil {
		run.Inconclusive("cannot create a temp dir: " + err.Error())
		return
	}
	defer os.RemoveAll(dir)
	exe, err := os.Executable()
	if err != nil {
		run.Inconclusive("cannot find the test binary: " + err.Error())
		return
	}
	run.Note("shards", of)
	var wg sync.WaitGroup
	results := make([]*collector, of)
	errs := make([]error, of)
	for i := 0; i < of; i++ {
		wg.Add(1)
		go func(i int) {
			defer wg.Done()
			out := filepath.Join(dir, fmt.Sprintf("shard%d.json", i))
			cmd := exec.Command(exe, "-test.run", "^TestCheck$", "-test.count", "1", "-test.timeout", "0")
			cmd.Env = append(os.Environ(), "GOMAXPROCS=1", "VERIF_C11_OUT="+out,
				"VERIF_TIER="+run.Tier(), fmt.Sprintf("VERIF_C11_SHARD=%d/%d/%d", i, of, run.Seed()))
			var childOut bytes.Buffer
			cmd.Stderr = os.Stderr // fatal runtime errors of a shard end up in the log of the run
			cmd.Stdout = &childOut
			if err := cmd.Run(); err != nil {
				os.Stderr.Write(childOut.Bytes())
				errs[i] = err
				return
			}
			b, err := os.ReadFile(out)
			if err != nil {
				errs[i] = err
				return
			}
			c := newCollector()
			if err := json.Unmarshal(b, c); err != nil {
				errs[i] = err
				return
			}
			results[i] = c
		}(i)
	}
	wg.Wait()
	var aborted, samples []string
	for i, c := range results {
		if c == nil {
			run.Inconclusive(fmt.Sprintf("shard %d/%d did not deliver a result: %v", i, of, errs[i]))
			continue
		}
		run.Eval(int(c.Evals))
		for k, n := range c.Counters {
			run.Add(k, n)
		}
		for k, n := range c.Maxima {
			run.Max(k, n)
		}
		if c.MaxOverSet {
			noteMaxOver(c.MaxOver)
		}
		for _, h := range c.Distinct {
			run.Distinct(h)
		}
		for _, v := range c.Vios {
			for j := 0; j < v.Count; j++ {
				run.Violation(v.Sig, v.What, v.Witness)
			}
		}
		aborted = append(aborted, c.Aborted...)
		if i < 3 {
			samples = append(samples, c.Samples...)
		}
	}
	if maxOverSet {
		run.Note("lru_max_of_nodes_minus_capacity_plus_1", maxOver)
	}
	if len(aborted) > 0 {
		run.Inconclusive(fmt.Sprintf("%d histories were ended by a panic (not judged here), e.g. %s", len(aborted), aborted[0]))
	}
	sort.Strings(samples)
	for _, s := range samples {
		run.Sample(s)
	}
	concurrentLRU(run, run.Seed(), run.Pick(300, 6000))
	timing(run, pl.timingCycles)
}

var (
	maxOver    int64
	maxOverSet bool
)

func noteMaxOver(n int64) {
	if !maxOverSet || n > maxOver {
		maxOver, maxOverSet = n, true
	}
}

func replay(run *report.Run, path string) {
	b, err := os.ReadFile(path)
	if err != nil {
		run.Inconclusive("cannot read replay file: " + err.Error())
		return
	}
	var doc struct {
		Sig     string          `json:"sig"`
		Witness json.RawMessage `json:"witness"`
	}
	if err := json.Unmarshal(b, &doc); err != nil {
		run.Inconclusive("cannot parse replay file: " + err.Error())
		return
	}
	run.Eval(1)
	run.DistinctAdd(2)
	var probe struct {
		Class string `json:"class"`
	}
	_ = json.Unmarshal(doc.Witness, &probe)
	if probe.Class != "" {
		var k lruCase
		if err := json.Unmarshal(doc.Witness, &k); err != nil || classByName(k.Class) == nil || k.Cap < 1 {
			run.Inconclusive("cannot parse the cache witness")
			return
		}
		run.Sample(k)
		out := runLRU(k, nil)
		switch {
		case out.aborted != "":
			run.Inconclusive("history ended by a panic: " + out.aborted)
		case out.v != nil:
			k.Stop = out.stop
			sig := "lru/" + out.v.sig
			if out.v.sig == "retained" {
				sig = "lru/retained-after-" + culprit(k, out)
			}
			run.Violation(sig, out.v.what, k)
		default:
			fmt.Println("REPLAY: no violation on this tree")
		}
		return
	}
	var k kase
	if err := json.Unmarshal(doc.Witness, &k); err != nil {
		run.Inconclusive("cannot parse the map witness")
		return
	}
	run.Sample(seqText(k.Ops))
	v, ab, illegal := runMapCase(k, nil)
	switch {
	case illegal:
		run.Inconclusive("the replay file contains an illegal call (unknown key, slot in use, or iterator used after Close)")
	case ab != "":
		run.Inconclusive("history ended by a panic: " + ab)
	case v != nil:
		k.Text = seqText(k.Ops)
		run.Violation(v.sig, v.what, k)
	default:
		fmt.Println("REPLAY: no violation on this tree")
	}
}
