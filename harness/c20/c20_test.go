// C20 — zip helpers: lossless round trip and extraction confined to the target (DESIGN §3 C20).
//
// Two monitors over the real file system:
//
//   - round trip (this file): seeded random trees are written under a scratch directory, archived with
//     files.ZipFolder under every (filter, recursive, trailing slash, destination state) combination and
//     extracted with files.UnzipToFolder; the map relative path -> SHA-256 of what is found under the
//     destination must equal that of the source files selected by (filter, recursive).
//   - confinement (confine_test.go, strace_test.go): archives written directly with archive/zip carry
//     hostile entry names; a snapshot of everything in the sandbox outside the destination is taken before
//     and after UnzipToFolder, and (thorough tier) the same call is observed from outside with strace.
package c20

import (
	"crypto/sha256"
	"encoding/hex"
	"encoding/json"
	"fmt"
	"io/fs"
	"math/rand"
	"os"
	"path/filepath"
	"runtime"
	"sort"
	"strings"
	"sync"
	"sync/atomic"
	"testing"
	"time"
	"unicode/utf8"

	"github.com/acquirecloud/golibs/files"

	"verifharness/internal/report"
)

func TestMain(m *testing.M) {
	if spec := os.Getenv(childEnv); spec != "" {
		childMain(spec) // helper mode of the strace observer; never returns
	}
	os.Exit(report.ExitCode(m.Run()))
}

// harness carries the run and the single scratch root; every directory the check creates lives below
// top, which is created with os.MkdirTemp under os.TempDir() and removed when TestCheck returns.
type harness struct {
	run       *report.Run
	top       string
	nsSampled atomic.Bool // one written-out namesake case is enough
}

// witness is what goes into a replay file: exactly one of the two members is set.
type witness struct {
	Kind string  `json:"kind"` // "roundtrip" | "confine"
	RT   *rtCase `json:"roundtrip,omitempty"`
	CF   *cfCase `json:"confine,omitempty"`
}

func TestCheck(t *testing.T) {
	run := report.New("C20", "exploration")
	defer run.Finish(t)
	run.Rule("round trip: seeded random trees (depth 0..4, 0..40 files, empty/binary/compressible contents, names with spaces, dots, leading dots, unicode, punctuation, 200..255-byte names) x filter {nil, extension, directory prefix, not directory prefix} x recursive x source with/without trailing slash x destination absent/empty; oracle = equality of the maps relative path -> (SHA-256, size) (selected source files vs. non-directory entries under the destination). For every tree with files additionally, per filter x recursive, one round trip (same oracle) whose archive file is named after a file of the tree that the combination selects (top level or sub-folder; every fourth case after a directory of the tree or the source directory) and whose destination directory is named after another file or directory of the tree, archive and destination each in a directory of their own outside the source. For every fourth tree additionally, under all filter x recursive x trailing-slash combinations: (a) the destination is first filled by hand with other, mostly longer files at the same relative paths, (b) re-extraction: archive and extract, edit the source in place (files cut to a prefix, emptied, shortened with other content, grown, replaced at equal length, untouched, deleted, new), archive again and extract into the SAME destination; oracle there = every selected file of the current source is under the destination with exactly the source content, and nothing is there that is neither selected nor was there before the extraction. confinement: archives written with archive/zip whose entry names carry '..' segments, absolute paths, backslashes, clashes, duplicates, empty/overlong names, with the destination 1..4 levels below the sandbox root and absent/empty/populated; oracle = snapshot (path, size, sha256, mtime, mode) of the sandbox outside the destination is unchanged; thorough: strace of a child process, every successful write-mode open / mkdir / rename / link / unlink path lies under the destination. distinct = distinct (filter, recursive, slash, destination state, tree depth, file-count bucket, selected-count bucket, name-class mask) round-trip classes plus distinct (filter, recursive, slash, destination state, depth, buckets, kind of the archive's namesake) namesake classes plus distinct (variant, filter, recursive, slash, depth, buckets, set of change kinds among the selected files) second-extraction classes plus distinct (hostile class set, destination depth, destination state, outcome) confinement classes")
	run.Assume("the source directory is spelled as a clean absolute path with at most one trailing slash; no symbolic links in the source tree, in the destination or in the sandbox; file names contain no backslash or control character")
	run.Assume("what a destination held before an extraction (left by an earlier extraction, e.g. of a file since deleted or no longer selected, or put there by hand) and is not selected now is pre-existing content, not something the extraction created: neither its presence nor its content is judged; only paths that are neither selected nor pre-existing count as extra")
	run.Assume("the parent of the destination exists; the archive file lives outside the sandbox that is snapshotted")
	run.Assume("absolute hostile entry names are rooted at the sandbox path, and the number of '..' segments never exceeds the depth of the destination below the sandbox root, so no hostile name resolves outside the harness-owned scratch tree")

	top, err := os.MkdirTemp(os.TempDir(), "verif-c20-")
	if err != nil {
		run.Inconclusive("cannot create scratch directory: " + err.Error())
		return
	}
	defer os.RemoveAll(top)
	if r, err := filepath.EvalSymlinks(top); err == nil {
		top = r
	}
	h := &harness{run: run, top: top}

	replayFile := os.Getenv("VERIF_REPLAY")
	if replayFile != "" {
		if a, err := filepath.Abs(replayFile); err == nil {
			replayFile = a
		}
	}
	// defence in depth: the working directory is moved five levels down into the scratch root, so that
	// even an implementation resolving an entry name against the working directory stays in harness-owned space
	if wd, err := os.Getwd(); err == nil {
		deep := filepath.Join(top, "cwd", "1", "2", "3", "4", "5")
		if os.MkdirAll(deep, 0o755) == nil && os.Chdir(deep) == nil {
			defer os.Chdir(wd)
		}
	}
	if replayFile != "" {
		h.replay(replayFile)
		return
	}
	maxSize := run.Pick(64<<10, 1<<20)
	phases := map[string]float64{}
	timed := func(name string, f func()) {
		t0 := time.Now()
		f()
		phases[name] = time.Since(t0).Seconds()
	}
	timed("roundtrip", func() { h.roundTrips(run.Pick(64, 320), maxSize) })
	timed("confinement", func() { h.confinement(run.Pick(600, 4000)) })
	if run.Thorough() {
		timed("strace", func() { h.straceSubset() })
	}
	run.Note("phase_wall_seconds", phases) // informational only; no verdict depends on time
}

// ---------------------------------------------------------------------------------------------
// round trip

type fileSpec struct {
	Path string `json:"path"` // relative, '/'-separated
	Size int    `json:"size"`
	Kind int    `json:"kind"` // content generator
	Seed int64  `json:"seed"`
	// derived content (second version of a file in the re-extraction variant):
	// Op "prefix": the first Size bytes of From; Op "extend": From followed by Size-From.Size generated bytes
	Op   string    `json:"op,omitempty"`
	From *fileSpec `json:"from,omitempty"`
}

type treeSpec struct {
	SrcName string     `json:"src_name"`
	Dirs    []string   `json:"dirs"` // every directory (relative), parents before children; some stay empty
	Files   []fileSpec `json:"files"`
}

type rtCase struct {
	Tree       treeSpec `json:"tree"`
	Filter     string   `json:"filter"` // "nil" | "ext" | "dir" | "notdir"
	Param      string   `json:"param"`  // extension, or the top-level directory name
	Recursive  bool     `json:"recursive"`
	Slash      bool     `json:"src_trailing_slash"`
	DestExists bool     `json:"dest_exists"`
	DestSlash  bool     `json:"dest_trailing_slash"`
	// Variant "" extracts into a fresh destination. "re-extract": the tree is archived and extracted, the
	// source is then changed in place into Tree2, archived again and extracted into the SAME destination.
	// "prepopulated": the destination is first filled by hand with the files of Pre.
	Variant string     `json:"variant,omitempty"`
	Tree2   *treeSpec  `json:"tree2,omitempty"`
	Pre     []fileSpec `json:"prepopulated,omitempty"`
	// Variant "namesake": the archive file and the destination directory carry names that also occur inside
	// the tree. ZipName (base name of the archive, which lives in a directory of its own outside the source)
	// is the base name of a file or directory of the tree or the name of the source directory itself;
	// DestName (base name of the destination, in another directory of its own) likewise.
	ZipName  string `json:"archive_name,omitempty"`
	DestName string `json:"dest_name,omitempty"`
}

const (
	ncPlain = 1 << iota
	ncSpace
	ncDots
	ncHidden
	ncUnicode
	ncLong
	ncPunct
	ncEmptyFile
	ncBigFile
)

var (
	plainNames  = []string{"f", "data", "README", "main", "x1", "index", "Makefile", "a", "b"}
	spaceNames  = []string{"my file", " lead", "trail ", "a  b", "  ", " . ", "new folder (2)"}
	dotNames    = []string{"a.b.c", "trail.", "..x", "x..y", "...", "a..", ". .", "..a..", "....", "v1.2.3"}
	hiddenNames = []string{".hidden", ".config", ".a b", ".…", "..rc", ".git", ".x.y"}
	uniNames    = []string{"файл", "日本語テキスト", "caf\u00e9", "cafe\u0301", "\U0001F600 emoji", "straße", "שלום", "नमस्ते", "a\u200db", "Ω", "ǅ", "ＦＵＬＬ", "．．", "ı", "İ"}
	punctNames  = []string{"a#b", "100%", "a&b", "(1)", "it's", `say "hi"`, "a*b", "what?", "[x]", "~tmp", "a+b", "a,b", "a;b", "a=b", "@home", "!bang", "$var", "{x}", "a:b", "a|b", "<x>", "-rf", "--", "a`b", "%2e%2e", "a^b", "..%2f"}
	extensions  = []string{".txt", ".txt", ".txt", ".txt", ".TXT", ".txt.bak", "txt", ".bin", ".bin", "", "", "", "", "", ""}
)

// genName returns a single path component and its class bit.
func genName(rng *rand.Rand, allowLong bool) (string, int) {
	pick := func(l []string) string { return l[rng.Intn(len(l))] }
	x := rng.Intn(100)
	switch {
	case x < 25:
		return pick(plainNames), ncPlain
	case x < 40:
		return pick(spaceNames), ncSpace
	case x < 55:
		return pick(dotNames), ncDots
	case x < 65:
		return pick(hiddenNames), ncHidden
	case x < 80:
		return pick(uniNames), ncUnicode
	case x < 90:
		return pick(punctNames), ncPunct
	default:
		if !allowLong {
			return pick(plainNames), ncPlain
		}
		// 200..240 bytes (an extension and a uniqueness suffix are appended later, limit 255)
		n := 200 + rng.Intn(41)
		unit := []string{"L", "long-name_", "д", "長"}[rng.Intn(4)]
		var sb strings.Builder
		for sb.Len()+len(unit) <= n {
			sb.WriteString(unit)
		}
		return sb.String(), ncLong
	}
}

// genTree draws a tree: depth 0..4, 0..40 files.
func genTree(rng *rand.Rand, idx, maxSize int) (treeSpec, int) {
	ts := treeSpec{SrcName: []string{"src", "src dir.d", "σrc", "src.txt"}[idx%4]}
	mask := 0
	depth := rng.Intn(5)
	nfiles := 0
	if rng.Intn(10) != 0 {
		nfiles = 1 + rng.Intn(40)
	}
	if idx%16 == 1 {
		nfiles = 40
	}
	used := map[string]bool{} // every relative path in use (file or directory)
	uniq := func(dir, name, ext string) string {
		cand := name + ext
		for k := 1; ; k++ {
			p := cand
			if dir != "" {
				p = dir + "/" + cand
			}
			if !used[p] && cand != "." && cand != ".." && len(cand) <= 255 {
				used[p] = true
				return p
			}
			cand = fmt.Sprintf("%s-%d%s", name, k, ext)
			if len(cand) > 255 {
				name = name[:len(name)/2]
				for !utf8.ValidString(name) {
					name = name[:len(name)-1]
				}
			}
		}
	}
	var dirs []string
	if depth > 0 {
		// one chain of the full depth, then a few side branches
		cur := ""
		for d := 0; d < depth; d++ {
			n, m := genName(rng, d == 0 && rng.Intn(4) == 0)
			mask |= m
			ext := ""
			if rng.Intn(6) == 0 {
				ext = ".txt"
			}
			cur = uniq(cur, n, ext)
			dirs = append(dirs, cur)
		}
		for extra := rng.Intn(6); extra > 0; extra-- {
			parent := ""
			if rng.Intn(3) != 0 {
				parent = dirs[rng.Intn(len(dirs))]
			}
			if strings.Count(parent, "/")+2 > depth {
				parent = ""
			}
			n, m := genName(rng, false)
			mask |= m
			dirs = append(dirs, uniq(parent, n, ""))
		}
	}
	ts.Dirs = dirs
	total := 0
	for i := 0; i < nfiles; i++ {
		dir := ""
		if len(dirs) > 0 && rng.Intn(100) >= 35 {
			dir = dirs[rng.Intn(len(dirs))]
		}
		n, m := genName(rng, true)
		mask |= m
		p := uniq(dir, n, extensions[rng.Intn(len(extensions))])
		size := 0
		switch x := rng.Intn(100); {
		case x < 20:
			size = 0
		case x < 50:
			size = 1 + rng.Intn(256)
		case x < 72:
			size = 257 + rng.Intn(8192-256)
		case x < 88:
			size = 8193 + rng.Intn(65536-8192)
		case x < 94:
			size = []int{32767, 32768, 32769, 65535, 65536, 4096, 1}[rng.Intn(7)]
		default:
			size = 1 + rng.Intn(maxSize)
		}
		if size > maxSize {
			size = maxSize
		}
		if total+size > 6<<20 {
			size = rng.Intn(512)
		}
		total += size
		if size == 0 {
			mask |= ncEmptyFile
		}
		if size > 64<<10 {
			mask |= ncBigFile
		}
		ts.Files = append(ts.Files, fileSpec{Path: p, Size: size, Kind: rng.Intn(5), Seed: rng.Int63()})
	}
	return ts, mask
}

// content is a pure function of the spec, so a replay file reproduces the bytes.
func content(f fileSpec) []byte {
	if f.From != nil {
		base := content(*f.From)
		switch f.Op {
		case "prefix":
			return base[:min(f.Size, len(base))]
		case "extend":
			return append(base, content(fileSpec{Path: f.Path, Size: max(f.Size-len(base), 0), Kind: f.Kind, Seed: f.Seed})...)
		}
	}
	b := make([]byte, f.Size)
	if f.Size == 0 {
		return b
	}
	rng := rand.New(rand.NewSource(f.Seed))
	switch f.Kind {
	case 0, 1: // incompressible
		rng.Read(b)
	case 2: // compressible: a short random block repeated
		blk := make([]byte, 1+rng.Intn(97))
		rng.Read(blk)
		for i := range b {
			b[i] = blk[i%len(blk)]
		}
	case 3: // text that mentions the own path and a sequence number per line
		var sb strings.Builder
		for i := 0; sb.Len() < f.Size; i++ {
			fmt.Fprintf(&sb, "%s line %d %x\n", f.Path, i, rng.Int63())
		}
		copy(b, sb.String())
	default: // looks like archive structure: local-header magics, names and zero runs
		pat := []byte("PK\x03\x04\x14\x00\x00\x00\x08\x00/" + f.Path + "PK\x01\x02PK\x05\x06\x00\x00\x00\x00")
		off := rng.Intn(len(pat))
		for i := range b {
			b[i] = pat[(i+off)%len(pat)]
		}
		b[0] = byte(rng.Intn(256))
		b[len(b)-1] = byte(rng.Intn(256))
	}
	return b
}

func sum(b []byte) string { s := sha256.Sum256(b); return hex.EncodeToString(s[:]) }

func bucket(n int) string {
	switch {
	case n == 0:
		return "0"
	case n == 1:
		return "1"
	case n <= 5:
		return "2-5"
	case n <= 15:
		return "6-15"
	default:
		return "16+"
	}
}

func treeDepth(ts treeSpec) int {
	d := 0
	for _, p := range ts.Dirs {
		d = max(d, strings.Count(p, "/")+1)
	}
	return d
}

type vio struct{ sig, what string }

// materialize writes the tree below base and returns the source directory.
func materialize(base string, ts treeSpec) (string, map[string]string, error) {
	src := filepath.Join(base, ts.SrcName)
	if err := os.Mkdir(src, 0o755); err != nil {
		return "", nil, err
	}
	for _, d := range ts.Dirs {
		if err := os.MkdirAll(filepath.Join(src, filepath.FromSlash(d)), 0o755); err != nil {
			return "", nil, err
		}
	}
	sums := map[string]string{}
	for _, f := range ts.Files {
		b := content(f)
		if err := os.WriteFile(filepath.Join(src, filepath.FromSlash(f.Path)), b, 0o644); err != nil {
			return "", nil, err
		}
		sums[f.Path] = sum(b)
	}
	return src, sums, nil
}

// hashTree maps every non-directory entry below root (relative, '/'-separated) to the SHA-256 of its
// content; anything that is neither a directory nor a regular file is mapped to its mode string.
func hashTree(root string) (map[string]string, map[string]int64, error) {
	out := map[string]string{}
	sizes := map[string]int64{}
	err := filepath.WalkDir(root, func(p string, d fs.DirEntry, err error) error {
		if err != nil {
			return err
		}
		if d.IsDir() {
			return nil
		}
		rel, err := filepath.Rel(root, p)
		if err != nil {
			return err
		}
		rel = filepath.ToSlash(rel)
		if !d.Type().IsRegular() {
			out[rel] = "non-regular:" + d.Type().String()
			return nil
		}
		b, err := os.ReadFile(p)
		if err != nil {
			return err
		}
		out[rel] = sum(b)
		sizes[rel] = int64(len(b))
		return nil
	})
	return out, sizes, err
}

// selector builds the filter handed to ZipFolder. The library calls it with the walked path, i.e.
// <clean source dir>/<relative path>; the directory filters therefore carry an absolute prefix.
func selector(c *rtCase, srcClean string) func(string) bool {
	switch c.Filter {
	case "ext":
		return func(p string) bool { return strings.HasSuffix(p, c.Param) }
	case "dir":
		pre := srcClean + "/" + c.Param + "/"
		return func(p string) bool { return strings.HasPrefix(p, pre) }
	case "notdir":
		pre := srcClean + "/" + c.Param + "/"
		return func(p string) bool { return !strings.HasPrefix(p, pre) }
	}
	return nil
}

func show(s string) string {
	if len(s) > 80 {
		return fmt.Sprintf("%q…(%d bytes)", s[:60], len(s))
	}
	return fmt.Sprintf("%q", s)
}

// selected is the reference selection: the files of the tree chosen by (filter, recursive), with the
// SHA-256 and the size of their content.
func selected(c *rtCase, fl []fileSpec, src string, sums map[string]string) (map[string]string, map[string]int) {
	sel := selector(c, src)
	want := map[string]string{}
	sizes := map[string]int{}
	for _, f := range fl {
		if !c.Recursive && strings.Contains(f.Path, "/") {
			continue
		}
		if sel != nil && !sel(src+"/"+f.Path) {
			continue
		}
		want[f.Path] = sums[f.Path]
		sizes[f.Path] = f.Size
	}
	return want, sizes
}

func qualifiers(c *rtCase) string {
	q := ""
	if !c.Recursive {
		q += "/nonrecursive"
	}
	if c.Slash {
		q += "/trailing-slash"
	}
	return q
}

// zipUnzip runs ZipFolder(src) and UnzipToFolder(dest) under recover; tag ("" | "/re-extract" |
// "/prepopulated") names the variant in the signature of a failing call.
func zipUnzip(c *rtCase, src, zipPath, dest, tag string, nfiles, nsel int) *vio {
	srcArg, destArg := src, dest
	if c.Slash {
		srcArg += "/"
	}
	if c.DestSlash {
		destArg += "/"
	}
	q := qualifiers(c) + tag
	var err error
	var pan any
	func() {
		defer func() { pan = recover() }()
		err = files.ZipFolder(srcArg, zipPath, selector(c, src), c.Recursive)
	}()
	if pan != nil {
		return &vio{"roundtrip/zip-panic" + q, fmt.Sprintf("ZipFolder panicked: %v", pan)}
	}
	if err != nil {
		return &vio{"roundtrip/zip-error" + q, fmt.Sprintf("ZipFolder of a readable tree of %d files failed: %v", nfiles, err)}
	}
	func() {
		defer func() { pan = recover() }()
		err = files.UnzipToFolder(zipPath, destArg)
	}()
	q2 := tag
	if c.DestSlash {
		q2 = "/dest-trailing-slash" + tag
	}
	if pan != nil {
		return &vio{"roundtrip/unzip-panic" + q2, fmt.Sprintf("UnzipToFolder panicked on an archive made by ZipFolder: %v", pan)}
	}
	if err != nil {
		return &vio{"roundtrip/unzip-error" + q2, fmt.Sprintf("UnzipToFolder failed on an archive made by ZipFolder (%d selected files): %v", nsel, err)}
	}
	return nil
}

// compare checks the destination against the selection. Paths in preexisting (what the destination held
// before this extraction) are not judged when they are not selected: the extraction did not create them.
// prev (may be nil) holds the SHA-256 the selected paths had in the destination before, to tell a file
// that was not rewritten at all from one that was rewritten wrongly.
func compare(c *rtCase, want map[string]string, sizes map[string]int, allSums map[string]string, dest string,
	preexisting map[string]string, tag string) (*vio, map[string]string) {
	q := qualifiers(c) + tag
	got, gotSizes, err := hashTree(dest)
	if err != nil {
		if len(want) == 0 && os.IsNotExist(err) {
			got = map[string]string{} // nothing selected and no destination made: nothing is missing or extra
		} else {
			return &vio{"roundtrip/dest-unreadable", fmt.Sprintf("cannot read the destination back: %v", err)}, nil
		}
	}
	var missing, extra, differ []string
	for p := range want {
		if _, ok := got[p]; !ok {
			missing = append(missing, p)
		}
	}
	for p, s := range got {
		w, ok := want[p]
		if !ok {
			if _, was := preexisting[p]; !was {
				extra = append(extra, p)
			}
		} else if w != s || gotSizes[p] != int64(sizes[p]) {
			differ = append(differ, p)
		}
	}
	sort.Strings(missing)
	sort.Strings(extra)
	sort.Strings(differ)
	head := fmt.Sprintf("filter=%s(%s) recursive=%v", c.Filter, show(c.Param), c.Recursive)
	switch tag {
	case "/re-extract":
		head += ", second extraction into the same destination after the source was changed"
	case "/prepopulated":
		head += ", destination filled by hand before the extraction"
	case "/namesake":
		head += fmt.Sprintf(", archive file named %s and destination directory named %s (names that occur in the tree; both live outside the source)", show(c.ZipName), show(c.DestName))
	}
	head += ": "
	if len(missing) > 0 {
		return &vio{"roundtrip/missing" + q, head + fmt.Sprintf("%d of %d selected files are not under the destination, first %s (destination has %d files, %d of them unexpected)", len(missing), len(want), show(missing[0]), len(got), len(extra))}, got
	}
	if len(extra) > 0 {
		kind := "not selected by (filter, recursive)"
		if _, ok := allSums[extra[0]]; !ok {
			kind = "not a path of the source tree"
		}
		return &vio{"roundtrip/extra" + q, head + fmt.Sprintf("%d entries under the destination that were not selected and were not there before, first %s (%s); selected %d", len(extra), show(extra[0]), kind, len(want))}, got
	}
	if len(differ) > 0 {
		// classify by the most telling of the differing files: a stale tail first
		class, p := "", differ[0]
		for _, d := range differ {
			if cl := contentClass(d, want, sizes, allSums, got, gotSizes, dest, preexisting); class == "" || (cl == "stale-tail" && class != "stale-tail") {
				class, p = cl, d
			}
		}
		extraNote := ""
		if old, ok := preexisting[p]; ok {
			extraNote = fmt.Sprintf("; before the extraction the destination held sha256 %.12s… at this path", old)
		}
		return &vio{"roundtrip/content/" + class, head + fmt.Sprintf("%d files differ in content, e.g. %s: source %d bytes sha256 %.12s…, destination %d bytes sha256 %.12s…%s", len(differ), show(p), sizes[p], want[p], gotSizes[p], got[p], extraNote)}, got
	}
	return nil, got
}

// contentClass names how the destination file at p differs from the source:
// stale-tail (source content followed by left-over bytes), stale-version (still exactly what the
// destination held before), non-regular, truncated, swapped (content of another source file), corrupt.
func contentClass(p string, want map[string]string, sizes map[string]int, allSums, got map[string]string, gotSizes map[string]int64,
	dest string, preexisting map[string]string) string {
	switch {
	case strings.HasPrefix(got[p], "non-regular:"):
		return "non-regular"
	case gotSizes[p] > int64(sizes[p]):
		if b, err := os.ReadFile(filepath.Join(dest, filepath.FromSlash(p))); err == nil && len(b) > sizes[p] && sum(b[:sizes[p]]) == want[p] {
			return "stale-tail"
		}
	}
	if old, ok := preexisting[p]; ok && old == got[p] {
		return "stale-version"
	}
	if gotSizes[p] < int64(sizes[p]) {
		return "truncated"
	}
	for op, s := range allSums {
		if op != p && s == got[p] {
			return "swapped"
		}
	}
	return "corrupt"
}

// writeFiles writes the given files below root (used to fill a destination by hand).
func writeFiles(root string, fl []fileSpec) (map[string]string, error) {
	sums := map[string]string{}
	for _, f := range fl {
		p := filepath.Join(root, filepath.FromSlash(f.Path))
		if err := os.MkdirAll(filepath.Dir(p), 0o755); err != nil {
			return nil, err
		}
		b := content(f)
		if err := os.WriteFile(p, b, 0o644); err != nil {
			return nil, err
		}
		sums[f.Path] = sum(b)
	}
	return sums, nil
}

// runCombo archives src (already materialized, holding c.Tree) and extracts it below work; it returns the
// first divergence and the number of selected files. Variant "prepopulated" fills the destination first.
func runCombo(c *rtCase, src string, srcSums map[string]string, work string, n int) (*vio, int) {
	want, sizes := selected(c, c.Tree.Files, src, srcSums)
	zipPath := filepath.Join(work, fmt.Sprintf("a%d.zip", n))
	dest := filepath.Join(work, fmt.Sprintf("out%d", n))
	tag := ""
	if c.Variant == "namesake" {
		tag = "/namesake"
		zdir, ddir := filepath.Join(work, fmt.Sprintf("z%d", n)), filepath.Join(work, fmt.Sprintf("d%d", n))
		defer os.RemoveAll(zdir)
		defer os.RemoveAll(ddir)
		if err := os.Mkdir(zdir, 0o755); err != nil {
			return &vio{"harness/mkdir", err.Error()}, len(want)
		}
		if err := os.Mkdir(ddir, 0o755); err != nil {
			return &vio{"harness/mkdir", err.Error()}, len(want)
		}
		zipPath, dest = filepath.Join(zdir, c.ZipName), filepath.Join(ddir, c.DestName)
	}
	defer os.Remove(zipPath)
	defer os.RemoveAll(dest)
	var pre map[string]string
	if c.Variant == "prepopulated" {
		tag = "/prepopulated"
		var err error
		if pre, err = writeFiles(dest, c.Pre); err != nil {
			return &vio{"harness/prepopulate", err.Error()}, len(want)
		}
	} else if c.DestExists {
		if err := os.Mkdir(dest, 0o755); err != nil {
			return &vio{"harness/mkdir", err.Error()}, len(want)
		}
	}
	if v := zipUnzip(c, src, zipPath, dest, tag, len(c.Tree.Files), len(want)); v != nil {
		return v, len(want)
	}
	v, _ := compare(c, want, sizes, srcSums, dest, pre, tag)
	return v, len(want)
}

// mutateTree draws the second version of a tree: files shrunk to a prefix, emptied, shrunk with other
// content, grown, replaced at equal length, left alone, deleted; plus new files. ops counts per operation.
func mutateTree(rng *rand.Rand, ts treeSpec) (treeSpec, map[string]string) {
	t2 := treeSpec{SrcName: ts.SrcName, Dirs: append([]string(nil), ts.Dirs...)}
	ops := map[string]string{} // path -> operation
	forced := map[string]bool{}
	used := map[string]bool{}
	for _, d := range ts.Dirs {
		used[d] = true
	}
	for _, f := range ts.Files {
		used[f.Path] = true
	}
	for _, f := range ts.Files {
		f := f
		op := ""
		switch x := rng.Intn(100); {
		case x < 20:
			op = "shrink-prefix"
		case x < 30:
			op = "empty"
		case x < 40:
			op = "shrink-other"
		case x < 55:
			op = "grow"
		case x < 70:
			op = "same-length"
		case x < 95:
			op = "unchanged"
		default:
			op = "delete"
		}
		// every tree that can, has at least one prefix-shrunk and one emptied file
		if f.Size >= 2 && !forced["shrink-prefix"] {
			op = "shrink-prefix"
		} else if f.Size >= 1 && !forced["empty"] {
			op = "empty"
		}
		if (op == "shrink-prefix" || op == "shrink-other") && f.Size < 2 || (op == "empty" || op == "same-length") && f.Size == 0 {
			op = "unchanged"
		}
		forced[op] = true
		ops[f.Path] = op
		switch op {
		case "shrink-prefix":
			t2.Files = append(t2.Files, fileSpec{Path: f.Path, Size: 1 + rng.Intn(f.Size-1), Op: "prefix", From: &f})
		case "empty":
			t2.Files = append(t2.Files, fileSpec{Path: f.Path, Size: 0, Op: "prefix", From: &f})
		case "shrink-other":
			t2.Files = append(t2.Files, fileSpec{Path: f.Path, Size: 1 + rng.Intn(f.Size-1), Kind: rng.Intn(5), Seed: rng.Int63()})
		case "grow":
			add := 1 + rng.Intn(4096)
			if rng.Intn(2) == 0 {
				t2.Files = append(t2.Files, fileSpec{Path: f.Path, Size: f.Size + add, Kind: rng.Intn(5), Seed: rng.Int63(), Op: "extend", From: &f})
			} else {
				t2.Files = append(t2.Files, fileSpec{Path: f.Path, Size: f.Size + add, Kind: rng.Intn(5), Seed: rng.Int63()})
			}
		case "same-length":
			t2.Files = append(t2.Files, fileSpec{Path: f.Path, Size: f.Size, Kind: rng.Intn(2), Seed: rng.Int63()})
		case "unchanged":
			t2.Files = append(t2.Files, f)
		}
	}
	for i := 1 + rng.Intn(2); i > 0; i-- {
		dir := ""
		if len(ts.Dirs) > 0 && i == 1 {
			dir = ts.Dirs[rng.Intn(len(ts.Dirs))] + "/"
		}
		name := fmt.Sprintf("%snew file %d.txt", dir, i)
		if used[name] {
			continue
		}
		t2.Files = append(t2.Files, fileSpec{Path: name, Size: rng.Intn(3000), Kind: rng.Intn(5), Seed: rng.Int63()})
		ops[name] = "new"
	}
	return t2, ops
}

// applyTree changes the source directory, which holds tree from, in place into tree to.
func applyTree(src string, from, to treeSpec) (map[string]string, error) {
	for _, d := range to.Dirs {
		if err := os.MkdirAll(filepath.Join(src, filepath.FromSlash(d)), 0o755); err != nil {
			return nil, err
		}
	}
	keep := map[string]bool{}
	sums := map[string]string{}
	for _, f := range to.Files {
		keep[f.Path] = true
		p := filepath.Join(src, filepath.FromSlash(f.Path))
		b := content(f)
		sums[f.Path] = sum(b)
		var err error
		if f.Op == "prefix" && f.From != nil && f.From.Path == f.Path {
			err = os.Truncate(p, int64(f.Size))
		} else {
			err = os.WriteFile(p, b, 0o644)
		}
		if err != nil {
			return nil, err
		}
	}
	for _, f := range from.Files {
		if !keep[f.Path] {
			if err := os.Remove(filepath.Join(src, filepath.FromSlash(f.Path))); err != nil {
				return nil, err
			}
		}
	}
	// the harness's own edit is checked before anything is judged against it
	now, _, err := hashTree(src)
	if err != nil {
		return nil, err
	}
	if len(now) != len(sums) {
		return nil, fmt.Errorf("source holds %d files after the edit, %d expected", len(now), len(sums))
	}
	for p, s := range sums {
		if now[p] != s {
			return nil, fmt.Errorf("source file %q does not hold its second version", p)
		}
	}
	return sums, nil
}

// reExtract runs the re-extraction variant for a batch of cases sharing one tree pair: every case extracts
// version 1 into its own destination (judged like a fresh round trip), then the source is edited in place
// once, then every case archives version 2 and extracts it into the same destination. report receives the
// verdict per case (nil = held) and the number of files selected from version 2.
func reExtract(cs []*rtCase, src string, sums1 map[string]string, work string, report func(c *rtCase, v *vio, nsel int)) error {
	type st struct {
		dest, zip string
		got1      map[string]string
		dead      bool
	}
	sts := make([]*st, len(cs))
	defer func() {
		for _, s := range sts {
			if s != nil {
				os.RemoveAll(s.dest)
				os.Remove(s.zip)
			}
		}
	}()
	for i, c := range cs {
		s := &st{dest: filepath.Join(work, fmt.Sprintf("re-out%d", i)), zip: filepath.Join(work, fmt.Sprintf("re-a%d.zip", i))}
		sts[i] = s
		want, sizes := selected(c, c.Tree.Files, src, sums1)
		v := zipUnzip(c, src, s.zip, s.dest, "", len(c.Tree.Files), len(want))
		if v == nil {
			v, s.got1 = compare(c, want, sizes, sums1, s.dest, nil, "")
		}
		if v != nil {
			s.dead = true
			report(c, v, len(want))
		}
	}
	sums2, err := applyTree(src, cs[0].Tree, *cs[0].Tree2)
	if err != nil {
		return err
	}
	for i, c := range cs {
		s := sts[i]
		if s.dead {
			continue
		}
		want, sizes := selected(c, c.Tree2.Files, src, sums2)
		v := zipUnzip(c, src, s.zip, s.dest, "/re-extract", len(c.Tree2.Files), len(want))
		if v == nil {
			v, _ = compare(c, want, sizes, sums2, s.dest, s.got1, "/re-extract")
		}
		report(c, v, len(want))
	}
	return nil
}

func (h *harness) roundTrips(trees, maxSize int) {
	type job struct{ idx int }
	jobs := make(chan job)
	var wg sync.WaitGroup
	for w := 0; w < runtime.NumCPU(); w++ {
		wg.Add(1)
		go func() {
			defer wg.Done()
			for j := range jobs {
				h.oneTree(j.idx, maxSize)
			}
		}()
	}
	for i := 0; i < trees; i++ {
		jobs <- job{i}
	}
	close(jobs)
	wg.Wait()
}

func (h *harness) oneTree(idx, maxSize int) {
	run := h.run
	rng := rand.New(rand.NewSource(run.Seed()*7_368_787 + int64(idx)))
	ts, mask := genTree(rng, idx, maxSize)
	base, err := os.MkdirTemp(h.top, "rt-")
	if err != nil {
		run.Inconclusive("mkdtemp: " + err.Error())
		return
	}
	defer os.RemoveAll(base)
	src, srcSums, err := materialize(base, ts)
	if err != nil {
		run.Inconclusive(fmt.Sprintf("cannot write tree %d: %v", idx, err))
		return
	}
	run.Add("rt_trees", 1)
	run.Add("rt_files_written", int64(len(ts.Files)))
	depth := treeDepth(ts)
	run.Max("rt_max_tree_depth", int64(depth))
	run.Max("rt_max_files_in_tree", int64(len(ts.Files)))
	for _, f := range ts.Files {
		run.Add("rt_bytes_written", int64(f.Size))
		run.Max("rt_max_file_size", int64(f.Size))
		run.Max("rt_max_relpath_bytes", int64(len(f.Path)))
		if f.Size == 0 {
			run.Add("rt_empty_files", 1)
		}
	}
	if len(ts.Files) == 0 {
		run.Add("rt_trees_without_files", 1)
	}
	// the directory filters select a top-level directory that has files below it when there is one
	dirParam := "no-such-dir"
	for _, f := range ts.Files {
		if i := strings.IndexByte(f.Path, '/'); i > 0 {
			dirParam = f.Path[:i]
			break
		}
	}
	if dirParam == "no-such-dir" && len(ts.Dirs) > 0 {
		dirParam = strings.SplitN(ts.Dirs[0], "/", 2)[0]
	}
	n := 0
	for _, filter := range []string{"nil", "ext", "dir", "notdir"} {
		for _, rec := range []bool{true, false} {
			for _, slash := range []bool{false, true} {
				for _, destExists := range []bool{false, true} {
					n++
					c := &rtCase{Tree: ts, Filter: filter, Recursive: rec, Slash: slash, DestExists: destExists,
						DestSlash: (idx+n)%5 == 0}
					switch filter {
					case "ext":
						c.Param = ".txt"
					case "dir", "notdir":
						c.Param = dirParam
					}
					v, nsel := runCombo(c, src, srcSums, base, n)
					run.Eval(1)
					run.Add("rt_combinations", 1)
					run.Add("rt_files_compared", int64(nsel))
					if nsel == 0 {
						run.Add("rt_combinations_selecting_nothing", 1)
					}
					if v != nil {
						if strings.HasPrefix(v.sig, "harness/") {
							run.Inconclusive(v.sig + ": " + v.what)
							continue
						}
						run.Violation(v.sig, v.what, witness{Kind: "roundtrip", RT: c})
						continue
					}
					if nsel > 0 {
						run.DistinctStr(fmt.Sprintf("rt|%s|%v|%v|%v|d%d|n%s|s%s|m%b", filter, rec, slash, destExists, depth, bucket(len(ts.Files)), bucket(nsel), mask))
					}
					if run.SampleN() < 2 && nsel >= 3 && filter == "ext" && !rec && slash && !destExists {
						var names []string
						for i, f := range ts.Files {
							if i < 6 {
								names = append(names, f.Path)
							}
						}
						run.Sample(map[string]any{"kind": "roundtrip", "filter": filter, "param": c.Param, "recursive": rec, "src_trailing_slash": slash,
							"dest_exists": destExists, "files_in_tree": len(ts.Files), "selected_and_reproduced": nsel, "tree_depth": depth, "first_paths": names})
					}
				}
			}
		}
	}
	h.namesakes(idx, ts, src, srcSums, base, dirParam, depth)
	// UnzipToFolder (and ZipFolder) must have left the source alone: it is outside every destination
	after, _, err := hashTree(src)
	if err == nil {
		changed := ""
		for p, s := range srcSums {
			if after[p] != s {
				changed = p
			}
		}
		for p := range after {
			if _, ok := srcSums[p]; !ok {
				changed = p
			}
		}
		if changed != "" {
			c := &rtCase{Tree: ts, Filter: "nil", Recursive: true}
			run.Violation("roundtrip/source-modified", "after the round trips the source tree differs at "+show(changed), witness{Kind: "roundtrip", RT: c})
		}
	}
	if idx%4 == 0 {
		h.secondExtractions(rng, idx, ts, src, srcSums, base, dirParam, depth)
	}
}

// namesakes runs, for every (filter, recursive) combination of a tree that has files, one round trip in
// which the archive file and the destination directory are named after things of the tree itself: the
// archive after a file the combination selects (any depth; every fourth case after a directory or after the
// source directory), the destination after another file or directory. Archive and destination live in
// directories of their own outside the source, so the tree, the selection and the oracle are unchanged -
// "for any directory tree" includes trees that hold a file called like the archive one is about to write.
func (h *harness) namesakes(idx int, ts treeSpec, src string, srcSums map[string]string, base, dirParam string, depth int) {
	run := h.run
	if len(ts.Files) == 0 {
		run.Add("ns_trees_skipped_no_files", 1)
		return
	}
	run.Add("ns_trees", 1)
	rng := rand.New(rand.NewSource(run.Seed()*7_368_787 + int64(idx) + 1<<40)) // own stream: the tree's stream is left as it was
	baseOf := func(p string) string { return p[strings.LastIndexByte(p, '/')+1:] }
	var all []string // every name of the tree: files, directories, the source directory
	for _, f := range ts.Files {
		all = append(all, baseOf(f.Path))
	}
	for _, d := range ts.Dirs {
		all = append(all, baseOf(d))
	}
	all = append(all, ts.SrcName)
	n := 200
	for _, filter := range []string{"nil", "ext", "dir", "notdir"} {
		for _, rec := range []bool{true, false} {
			n++
			c := &rtCase{Tree: ts, Filter: filter, Recursive: rec, Slash: rng.Intn(2) == 0, DestExists: rng.Intn(2) == 0,
				DestSlash: rng.Intn(5) == 0, Variant: "namesake"}
			switch filter {
			case "ext":
				c.Param = ".txt"
			case "dir", "notdir":
				c.Param = dirParam
			}
			want, _ := selected(c, ts.Files, src, srcSums)
			after := ""
			switch {
			case (n+idx)%4 == 0 && len(ts.Dirs) > 0 && rng.Intn(2) == 0:
				c.ZipName, after = baseOf(ts.Dirs[rng.Intn(len(ts.Dirs))]), "directory"
			case (n+idx)%4 == 0:
				c.ZipName, after = ts.SrcName, "source-dir"
			case len(want) > 0:
				var sel []string
				for p := range want {
					sel = append(sel, p)
				}
				sort.Strings(sel)
				// half of the time the deepest selected file, otherwise any selected file
				p := sel[rng.Intn(len(sel))]
				if rng.Intn(2) == 0 {
					for _, q := range sel {
						if strings.Count(q, "/") > strings.Count(p, "/") {
							p = q
						}
					}
				}
				c.ZipName, after = baseOf(p), "selected-file"
				if strings.Contains(p, "/") {
					after = "selected-file-in-subfolder"
				}
			default:
				c.ZipName, after = baseOf(ts.Files[rng.Intn(len(ts.Files))].Path), "unselected-file"
			}
			c.DestName = all[rng.Intn(len(all))]
			v, nsel := runCombo(c, src, srcSums, base, n)
			run.Eval(1)
			run.Add("ns_combinations", 1)
			run.Add("ns_archive_named_after_"+after, 1)
			run.Add("ns_files_compared", int64(nsel))
			if c.DestName == c.ZipName {
				run.Add("ns_destination_and_archive_same_name", 1)
			}
			if v != nil {
				if strings.HasPrefix(v.sig, "harness/") {
					run.Inconclusive(v.sig + ": " + v.what)
					continue
				}
				run.Add("ns_violations", 1)
				run.Violation(v.sig, v.what, witness{Kind: "roundtrip", RT: c})
				continue
			}
			if nsel > 0 {
				run.DistinctStr(fmt.Sprintf("ns|%s|%v|%v|%v|d%d|n%s|s%s|%s", filter, rec, c.Slash, c.DestExists, depth, bucket(len(ts.Files)), bucket(nsel), after))
			}
			if nsel >= 2 && after == "selected-file-in-subfolder" && filter == "nil" && run.SampleN() < 4 && h.nsSampled.CompareAndSwap(false, true) {
				run.Sample(map[string]any{"kind": "roundtrip", "variant": "namesake", "filter": filter, "recursive": rec, "archive_name": c.ZipName,
					"dest_name": c.DestName, "files_in_tree": len(ts.Files), "selected_and_reproduced": nsel, "tree_depth": depth})
			}
		}
	}
}

// secondExtractions runs, for a share of the trees, the variants in which the destination is not fresh:
// filled by hand with other (mostly longer) files at the same relative paths, and re-extraction after the
// source has changed. Every (filter, recursive, trailing slash) combination is run for both.
func (h *harness) secondExtractions(rng *rand.Rand, idx int, ts treeSpec, src string, srcSums map[string]string, base, dirParam string, depth int) {
	run := h.run
	total := 0
	for _, f := range ts.Files {
		total += f.Size
	}
	if total > 3<<20 {
		run.Add("rx_trees_skipped_over_3MiB", 1) // sixteen destinations are alive at once
		return
	}
	run.Add("rx_trees", 1)
	// by hand: 60% longer, 20% same length, 20% shorter, always other content; plus one unrelated file
	var pre []fileSpec
	for i, f := range ts.Files {
		size := f.Size + 1 + rng.Intn(4096)
		if x := rng.Intn(10); i > 0 && x < 2 {
			size = f.Size
		} else if i > 0 && x < 4 {
			size = rng.Intn(f.Size + 1)
		}
		pre = append(pre, fileSpec{Path: f.Path, Size: size, Kind: 0, Seed: rng.Int63()})
	}
	pre = append(pre, fileSpec{Path: "left by somebody else.dat", Size: 100, Kind: 0, Seed: rng.Int63()})
	t2, ops := mutateTree(rng, ts)
	for _, op := range ops {
		run.Add("rx_source_files_"+op, 1)
	}
	mk := func(variant, filter string, rec, slash bool, n int) *rtCase {
		c := &rtCase{Tree: ts, Filter: filter, Recursive: rec, Slash: slash, DestSlash: (idx+n)%5 == 0, Variant: variant}
		switch filter {
		case "ext":
			c.Param = ".txt"
		case "dir", "notdir":
			c.Param = dirParam
		}
		return c
	}
	judge := func(c *rtCase, v *vio, nsel int, class string) {
		run.Eval(1)
		run.Add("rx_combinations_"+c.Variant, 1)
		run.Add("rx_files_compared", int64(nsel))
		if v != nil {
			if strings.HasPrefix(v.sig, "harness/") {
				run.Inconclusive(v.sig + ": " + v.what)
				return
			}
			run.Add("rx_violations_"+c.Variant, 1)
			run.Violation(v.sig, v.what, witness{Kind: "roundtrip", RT: c})
			return
		}
		if nsel > 0 {
			run.DistinctStr(fmt.Sprintf("rx|%s|%s|%v|%v|d%d|n%s|s%s|%s", c.Variant, c.Filter, c.Recursive, c.Slash, depth, bucket(len(ts.Files)), bucket(nsel), class))
		}
	}
	var batch []*rtCase
	n := 100
	for _, filter := range []string{"nil", "ext", "dir", "notdir"} {
		for _, rec := range []bool{true, false} {
			for _, slash := range []bool{false, true} {
				n++
				c := mk("prepopulated", filter, rec, slash, n)
				c.Pre = pre
				v, nsel := runCombo(c, src, srcSums, base, n)
				judge(c, v, nsel, "")
				r := mk("re-extract", filter, rec, slash, n)
				r.Tree2 = &t2
				batch = append(batch, r)
			}
		}
	}
	err := reExtract(batch, src, srcSums, base, func(c *rtCase, v *vio, nsel int) {
		// class = which kinds of change the selected files went through
		seen := map[string]bool{}
		want, _ := selected(c, t2.Files, src, nil)
		for p := range want {
			seen[ops[p]] = true
		}
		var l []string
		for k := range seen {
			l = append(l, k)
		}
		sort.Strings(l)
		judge(c, v, nsel, strings.Join(l, "+"))
		if v == nil && run.SampleN() < 3 && nsel >= 3 && c.Filter == "nil" && c.Recursive && !c.Slash {
			run.Sample(map[string]any{"kind": "roundtrip", "variant": "re-extract", "filter": c.Filter, "recursive": c.Recursive,
				"files_version_1": len(ts.Files), "files_version_2": len(t2.Files), "changes_among_selected": l, "selected_and_reproduced": nsel})
		}
	})
	if err != nil {
		run.Inconclusive(fmt.Sprintf("tree %d: cannot edit the source in place: %v", idx, err))
	}
}

// ---------------------------------------------------------------------------------------------
// replay

func (h *harness) replay(path string) {
	run := h.run
	b, err := os.ReadFile(path)
	if err != nil {
		run.Inconclusive("cannot read replay file: " + err.Error())
		return
	}
	var doc struct {
		Witness witness `json:"witness"`
	}
	if err := json.Unmarshal(b, &doc); err != nil {
		run.Inconclusive("cannot parse replay file: " + err.Error())
		return
	}
	w := doc.Witness
	run.Eval(1)
	run.DistinctAdd(2)
	switch {
	case w.RT != nil:
		base, err := os.MkdirTemp(h.top, "rt-")
		if err != nil {
			run.Inconclusive("mkdtemp: " + err.Error())
			return
		}
		defer os.RemoveAll(base)
		src, sums, err := materialize(base, w.RT.Tree)
		if err != nil {
			run.Inconclusive("cannot write the tree: " + err.Error())
			return
		}
		run.Sample(map[string]any{"kind": "roundtrip", "filter": w.RT.Filter, "recursive": w.RT.Recursive, "files": len(w.RT.Tree.Files)})
		if w.RT.Variant == "re-extract" && w.RT.Tree2 != nil {
			var first *vio
			err := reExtract([]*rtCase{w.RT}, src, sums, base, func(c *rtCase, v *vio, nsel int) {
				if v != nil && first == nil {
					first = v
				}
			})
			if err != nil {
				run.Inconclusive("cannot edit the source in place: " + err.Error())
				return
			}
			if first != nil {
				run.Violation(first.sig, first.what, w)
				return
			}
		} else if v, _ := runCombo(w.RT, src, sums, base, 1); v != nil {
			run.Violation(v.sig, v.what, w)
			return
		}
	case w.CF != nil:
		run.Sample(w.CF)
		if v := h.runConfine(w.CF, nil); v != nil {
			run.Violation(v.sig, v.what, w)
			return
		}
	default:
		run.Inconclusive("replay file has neither a roundtrip nor a confine witness")
		return
	}
	fmt.Println("REPLAY: no violation on this tree")
}
