package c20

import (
	"archive/zip"
	"bytes"
	"fmt"
	"io/fs"
	"math/rand"
	"os"
	"path/filepath"
	"runtime"
	"sort"
	"strings"
	"sync"
	"time"

	"github.com/acquirecloud/golibs/files"
)

// ---------------------------------------------------------------------------------------------
// confinement: hostile archives against a sandbox
//
// Sandbox of one case (P is a fresh directory below the scratch root):
//
//	P/canary.txt  P/sibling/canary.txt  P/sibling/deep/canary.txt
//	P/n1/{canary.txt, sibling/…}  P/n1/n2/{…}  P/n1/n2/n3/{…}
//	destination = P/dest | P/n1/dest | P/n1/n2/dest | P/n1/n2/n3/dest   (depth 1..4)
//
// so that k '..' segments land on a different, harness-owned level for every k <= depth.

type entry struct {
	// Name is a template: {P} = sandbox root, {D} = destination, {B} = base name of the destination,
	// {U} = a token unique to the case (base name of the sandbox root).
	Name    string `json:"name"`
	Body    string `json:"body,omitempty"`
	BodyLen int    `json:"body_len,omitempty"` // if > 0 the body is BodyLen times 'B'
	Mode    string `json:"mode,omitempty"`     // "" regular, "dir" (directory mode bits without trailing slash), "symlink"
	Store   bool   `json:"store,omitempty"`
	Class   string `json:"class,omitempty"`
}

type cfCase struct {
	Class   string  `json:"class"`
	Depth   int     `json:"dest_depth"` // 1..4
	Dest    string  `json:"dest_state"` // "absent" | "empty" | "populated"
	Entries []entry `json:"entries,omitempty"`
	// Corrupt, if set, post-processes the archive bytes: "truncate" | "garbage" | "empty" | "crc"
	Corrupt string `json:"corrupt,omitempty"`
	Strace  bool   `json:"strace,omitempty"`
}

const destBase = "dest"

var fixedTime = time.Date(2001, 2, 3, 4, 5, 6, 0, time.UTC)

func e(class, name string) entry { return entry{Name: name, Body: "payload of " + class, Class: class} }

type hostile struct {
	Class   string
	Entries []entry
	Corrupt string
}

// catalogue lists the single-class hostile archives. Numbers in names make every target unique.
func catalogue() []hostile {
	one := func(class, name string) hostile { return hostile{Class: class, Entries: []entry{e(class, name)}} }
	withMode := func(class, name, mode string) hostile {
		x := e(class, name)
		x.Mode = mode
		if mode == "dir" {
			x.Body = ""
		}
		return hostile{Class: class, Entries: []entry{x}}
	}
	l := []hostile{
		// '..' segments
		one("dd1-file", "../esc-1"),
		one("dd2-file", "../../esc-2"),
		one("dd3-file", "../../../esc-3"),
		one("dd4-file", "../../../../esc-4"),
		one("dd-mid", "a/../../esc-5"),
		one("dd-mid2", "a/b/../../../esc-6"),
		one("dd-mid-deep", "a/../../../esc-7"),
		one("dd-into-sibling", "../sibling/esc-8"),
		one("dd-into-sibling-deep", "../sibling/deep/esc-9"),
		one("dd-overwrite-canary", "../canary.txt"),
		one("dd-overwrite-sibling-canary", "../sibling/canary.txt"),
		one("dd2-overwrite-canary", "../../canary.txt"),
		one("dd-newdir", "../newdir-10/x"),
		one("dd-newdir-deep", "../newdir-11/a/b/c/x"),
		one("dd-mkdir-only", "../newdir-12/.."),
		one("dd-mkdir-only-dot", "../newdir-13/sub/."),
		one("dd-prefix-sibling-dir", "../{B}-evil/x"),
		one("dd-prefix-sibling-file", "../{B}x"),
		one("dd-dotslash", "./../esc-14"),
		one("dd-dot-mid", "a/./../../esc-15"),
		one("dd-dblslash", "..//esc-16"),
		one("dd-dblslash-mid", "a//..//..//esc-17"),
		// rooted names: Join(dest, "/../x") still climbs out although Clean("/../x") has no '..' left
		one("dd-rooted", "/../verif-c20-esc-{U}-48"),
		one("dd-rooted-mid", "/a/../../verif-c20-esc-{U}-49"),
		one("dd-rooted-dblslash", "//../verif-c20-esc-{U}-50"),
		one("dd-long-name", "../"+strings.Repeat("L", 255)),
		one("dd-unicode", "../esc-ü-日本-18"),
		one("dd-space", "../esc 19 .txt"),
		one("dd-out-and-back-out", "../{B}/../esc-20"),
		one("dd-out-and-back-in", "../{B}/inside-21"),
		one("dd-bare", ".."),
		one("dd-bare2", "../.."),
		one("dd-a-dotdot", "a/.."),
		one("dd-direntry", "../"),
		one("dd-direntry-new", "../newdir-22/"),
		withMode("dd-dirmode", "../esc-23", "dir"),
		one("dd-existing-dir-outside", "../sibling"),
		one("dd-file-as-dir-outside", "../canary.txt/x"),
		one("dd-nul", "../esc\x00-24"),
		{Class: "dd-clash", Entries: []entry{e("dd-clash", "../clash-25"), e("dd-clash", "../clash-25/x")}},
		{Class: "dd-dup", Entries: []entry{{Name: "../dup-26", Body: "one", Class: "dd-dup"}, {Name: "../dup-26", Body: "two", Class: "dd-dup"}}},
		{Class: "dd-empty-body", Entries: []entry{{Name: "../esc-27", Class: "dd-empty-body"}}},
		{Class: "dd-stored", Entries: []entry{{Name: "../esc-28", Body: "stored", Store: true, Class: "dd-stored"}}},
		{Class: "dd-big-body", Entries: []entry{{Name: "../big-29", BodyLen: 1 << 20, Class: "dd-big-body"}}},
		{Class: "dd-after-benign", Entries: []entry{e("benign", "ok/before.txt"), e("dd-after-benign", "../esc-30"), e("benign", "ok/after.txt")}},
		{Class: "dd-long-path", Entries: []entry{e("dd-long-path", "../"+strings.Repeat("e/", 2500)+"x")}},
		{Class: "dd-crc", Entries: []entry{{Name: "../esc-31", Body: "body whose checksum will not match", Store: true, Class: "dd-crc"}}, Corrupt: "crc"},
		// absolute names, rooted at the sandbox so that an implementation honouring them stays observable
		one("abs-into-sibling", "{P}/sibling/abs-32"),
		one("abs-overwrite-canary", "{P}/canary.txt"),
		one("abs-dblslash", "/{P}/sibling/abs-33"),
		one("abs-dest", "{D}/abs-34"),
		one("abs-dest-dotdot", "{D}/../abs-35"),
		one("abs-dir-P", "{P}"),
		// backslashes (plain characters on this platform)
		one("bs-dd", `..\esc-36`),
		one("bs-dd2", `..\..\esc-37`),
		one("bs-mid", `a\..\..\esc-38`),
		one("bs-lead", `\abs-39`),
		one("bs-mixed", `..\../esc-40`),
		one("bs-drive", `C:\esc-41`),
		one("bs-drive-dd", `C:../esc-42`),
		// empty, dots, slashes, overlong
		one("empty-name", ""),
		one("space-name", " "),
		one("dot-name", "."),
		one("dot-slash", "./"),
		one("long-component", strings.Repeat("x", 300)),
		one("long-path", strings.Repeat("d/", 2500)+"x"),
		one("max-name", strings.Repeat("m", 65535)),
		one("nul", "a\x00b"),
		one("newline", "a\nb/c"),
		// clashes with what the populated destination holds, and inside one archive
		one("existing-dir", "sub"),
		one("existing-file-as-dir", "file.txt/x"),
		one("overwrite-inside", "file.txt"),
		one("existing-emptydir", "emptydir"),
		{Class: "clash-file-dir", Entries: []entry{e("clash-file-dir", "a"), e("clash-file-dir", "a/b")}},
		{Class: "clash-dir-file", Entries: []entry{e("clash-dir-file", "a/b"), e("clash-dir-file", "a")}},
		{Class: "clash-direntry-file", Entries: []entry{e("clash-direntry-file", "a/"), e("clash-direntry-file", "a")}},
		{Class: "dup", Entries: []entry{{Name: "dup.txt", Body: "one", Class: "dup"}, {Name: "dup.txt", Body: "two", Class: "dup"}}},
		// entries that claim to be symbolic links (the helper has no business creating links)
		{Class: "symlink-mode", Entries: []entry{{Name: "link-43", Body: "../sibling", Mode: "symlink", Class: "symlink-mode"}, e("symlink-mode", "link-43/x")}},
		{Class: "symlink-mode-abs", Entries: []entry{{Name: "link-44", Body: "{P}/sibling", Mode: "symlink", Class: "symlink-mode-abs"}, e("symlink-mode-abs", "link-44/y")}},
		// decoys: legal names that merely look suspicious; they must stay inside
		one("decoy-dotdotx", "..x/y"),
		one("decoy-xdotdot", "x../y"),
		one("decoy-3dots", ".../y"),
		one("decoy-dotdotb", "a/..b"),
		one("decoy-fullwidth", "．．/x"),
		one("decoy-pct", "..%2fx"),
		one("decoy-pct2", "%2e%2e/x"),
		one("benign", "ok/inner.txt"),
		// archives that are not archives
		{Class: "corrupt-truncated", Entries: []entry{e("corrupt-truncated", "../esc-45"), e("benign", "ok.txt")}, Corrupt: "truncate"},
		{Class: "corrupt-garbage", Entries: []entry{e("corrupt-garbage", "../esc-46")}, Corrupt: "garbage"},
		{Class: "corrupt-empty", Entries: []entry{e("corrupt-empty", "../esc-47")}, Corrupt: "empty"},
	}
	// many entries in one archive
	var many []entry
	for i := 0; i < 120; i++ {
		switch i % 4 {
		case 0:
			many = append(many, e("many", fmt.Sprintf("m/%d/f.txt", i)))
		case 1:
			many = append(many, e("many", fmt.Sprintf("m/%d/../../../many-%d", i, i)))
		case 2:
			many = append(many, e("many", fmt.Sprintf("../many-%d", i)))
		default:
			many = append(many, e("many", fmt.Sprintf("m/%d/", i)))
		}
	}
	l = append(l, hostile{Class: "many", Entries: many})
	return l
}

func within(dir, p string) bool { return p == dir || strings.HasPrefix(p, dir+"/") }

// dotdots counts '..' segments, splitting on both separators (conservative: used by the safety guard).
func dotdots(name string) int {
	n := 0
	for _, s := range strings.FieldsFunc(name, func(r rune) bool { return r == '/' || r == '\\' }) {
		if s == ".." {
			n++
		}
	}
	return n
}

type sandbox struct {
	P, Z, dest, cwd string
	levels          []string
}

func expand(s string, sb *sandbox) string {
	s = strings.ReplaceAll(s, "{P}", sb.P)
	s = strings.ReplaceAll(s, "{D}", sb.dest)
	s = strings.ReplaceAll(s, "{U}", filepath.Base(sb.P))
	return strings.ReplaceAll(s, "{B}", destBase)
}

// safe is the generator restriction that keeps every hostile name inside the harness-owned tree, whether
// it is joined to the destination (what the library does) or taken as an absolute path.
func safe(name string, depth int, sb *sandbox) bool {
	if dotdots(name) > depth {
		return false
	}
	t := filepath.Join(sb.dest, name)
	if !within(sb.P, t) {
		return false
	}
	if strings.HasPrefix(name, "/") && !within(sb.P, filepath.Clean(name)) && rootedProbe(name) == "" {
		return false
	}
	return true
}

// rootedProbe recognises the few rooted names of the catalogue whose reading as an absolute path is not
// inside the sandbox: /verif-c20-esc-<unique token>-<n>. The library joins them below the destination; should
// an implementation ever honour them as absolute paths, the harness looks for that file and removes it.
func rootedProbe(name string) string {
	a := filepath.Clean(name)
	if strings.HasPrefix(name, "/") && filepath.Dir(a) == "/" && strings.HasPrefix(filepath.Base(a), "verif-c20-esc-p-") {
		return a
	}
	return ""
}

func (h *harness) newSandbox(c *cfCase) (*sandbox, error) {
	P, err := os.MkdirTemp(h.top, "p-")
	if err != nil {
		return nil, err
	}
	Z, err := os.MkdirTemp(h.top, "z-")
	if err != nil {
		os.RemoveAll(P)
		return nil, err
	}
	sb := &sandbox{P: P, Z: Z}
	lv := P
	for i := 0; i < 4; i++ {
		if i > 0 {
			lv = filepath.Join(lv, fmt.Sprintf("n%d", i))
		}
		sb.levels = append(sb.levels, lv)
		for _, d := range []string{"", "sibling", "sibling/deep"} {
			dir := filepath.Join(lv, d)
			if err = os.MkdirAll(dir, 0o755); err == nil {
				err = os.WriteFile(filepath.Join(dir, "canary.txt"), []byte("canary at "+dir[len(P):]+"\n"), 0o644)
			}
			if err != nil {
				sb.remove()
				return nil, err
			}
		}
	}
	sb.cwd = filepath.Join(sb.levels[3], "sibling", "deep")
	sb.dest = filepath.Join(sb.levels[c.Depth-1], destBase)
	switch c.Dest {
	case "empty":
		err = os.Mkdir(sb.dest, 0o755)
	case "populated":
		if err = os.MkdirAll(filepath.Join(sb.dest, "sub"), 0o755); err == nil {
			err = os.Mkdir(filepath.Join(sb.dest, "emptydir"), 0o755)
		}
		if err == nil {
			err = os.WriteFile(filepath.Join(sb.dest, "file.txt"), []byte("old file\n"), 0o644)
		}
		if err == nil {
			err = os.WriteFile(filepath.Join(sb.dest, "sub", "inner.txt"), []byte("old inner\n"), 0o644)
		}
	}
	if err != nil {
		sb.remove()
		return nil, err
	}
	// timestamps of everything are moved into the past: kernel timestamps are coarse, a directory made
	// and modified within one tick would otherwise look untouched
	filepath.WalkDir(P, func(p string, d fs.DirEntry, err error) error {
		if err == nil {
			os.Chtimes(p, fixedTime, fixedTime)
		}
		return nil
	})
	return sb, nil
}

func (sb *sandbox) remove() {
	os.RemoveAll(sb.P)
	os.RemoveAll(sb.Z)
}

type snapEnt struct {
	Dir   bool
	Size  int64
	Sum   string
	Mtime int64
	Mode  fs.FileMode
}

// snapshot records everything under P except the destination subtree.
func snapshot(P, dest string) map[string]snapEnt {
	out := map[string]snapEnt{}
	filepath.WalkDir(P, func(p string, d fs.DirEntry, err error) error {
		if err != nil {
			return nil
		}
		if p == dest {
			if d.IsDir() {
				return filepath.SkipDir
			}
			return nil
		}
		fi, err := os.Lstat(p)
		if err != nil {
			return nil
		}
		s := snapEnt{Dir: fi.IsDir(), Mtime: fi.ModTime().UnixNano(), Mode: fi.Mode()}
		switch {
		case fi.Mode().IsRegular():
			s.Size = fi.Size()
			if b, err := os.ReadFile(p); err == nil {
				s.Sum = sum(b)
			}
		case fi.Mode()&fs.ModeSymlink != 0:
			s.Sum, _ = os.Readlink(p)
		}
		out[p] = s
		return nil
	})
	return out
}

type change struct {
	Path string
	Kind string // "file-created" "file-modified" "dir-created" "deleted" "dir-touched"
	Note string
}

func rank(kind string) int {
	switch kind {
	case "file-modified":
		return 0
	case "file-created":
		return 1
	case "dir-created":
		return 2
	case "deleted":
		return 3
	}
	return 4
}

func diffSnap(before, after map[string]snapEnt, untouchable map[string]bool) []change {
	var out []change
	for p, a := range after {
		b, ok := before[p]
		switch {
		case !ok && a.Dir:
			out = append(out, change{p, "dir-created", ""})
		case !ok:
			out = append(out, change{p, "file-created", fmt.Sprintf("%d bytes", a.Size)})
		case a.Dir != b.Dir:
			out = append(out, change{p, "file-modified", "type changed"})
		case !a.Dir && (a.Size != b.Size || a.Sum != b.Sum || a.Mtime != b.Mtime || a.Mode != b.Mode):
			out = append(out, change{p, "file-modified", fmt.Sprintf("size %d->%d, sha256 %.8s->%.8s, mtime changed=%v, mode %v->%v", b.Size, a.Size, b.Sum, a.Sum, a.Mtime != b.Mtime, b.Mode, a.Mode)})
		case a.Dir && a.Mode != b.Mode:
			out = append(out, change{p, "dir-touched", fmt.Sprintf("mode %v->%v", b.Mode, a.Mode)})
		case a.Dir && a.Mtime != b.Mtime && !untouchable[p]:
			out = append(out, change{p, "dir-touched", "mtime changed"})
		}
	}
	for p := range before {
		if _, ok := after[p]; !ok {
			out = append(out, change{p, "deleted", ""})
		}
	}
	sort.Slice(out, func(i, j int) bool {
		if ri, rj := rank(out[i].Kind), rank(out[j].Kind); ri != rj {
			return ri < rj
		}
		if len(out[i].Path) != len(out[j].Path) {
			return len(out[i].Path) < len(out[j].Path)
		}
		return out[i].Path < out[j].Path
	})
	return out
}

func buildZip(entries []entry, sb *sandbox, corrupt string) ([]byte, error) {
	var buf bytes.Buffer
	zw := zip.NewWriter(&buf)
	bodyOff := -1
	for _, en := range entries {
		name := expand(en.Name, sb)
		hdr := &zip.FileHeader{Name: name, Method: zip.Deflate}
		if en.Store {
			hdr.Method = zip.Store
		}
		body := []byte(expand(en.Body, sb))
		if en.BodyLen > 0 {
			body = bytes.Repeat([]byte{'B'}, en.BodyLen)
		}
		switch en.Mode {
		case "dir":
			hdr.SetMode(fs.ModeDir | 0o755)
			body = nil
		case "symlink":
			hdr.SetMode(fs.ModeSymlink | 0o777)
		}
		if strings.HasSuffix(name, "/") {
			body = nil
		}
		w, err := zw.CreateHeader(hdr)
		if err != nil {
			return nil, fmt.Errorf("archive/zip refuses entry %s: %w", show(name), err)
		}
		if len(body) > 0 {
			if en.Store && bodyOff < 0 {
				zw.Flush()
				bodyOff = buf.Len()
			}
			if _, err := w.Write(body); err != nil {
				return nil, err
			}
		}
	}
	if err := zw.Close(); err != nil {
		return nil, err
	}
	b := buf.Bytes()
	switch corrupt {
	case "truncate":
		b = b[:len(b)/2]
	case "empty":
		b = nil
	case "garbage":
		rng := rand.New(rand.NewSource(20))
		b = make([]byte, 300)
		rng.Read(b)
		copy(b, "PK\x03\x04")
	case "crc":
		if bodyOff >= 0 && bodyOff < len(b) {
			b[bodyOff] ^= 0xff
		}
	}
	return b, nil
}

// via names the escape class of an entry name whose joined target is t.
func via(name, t, dest string) string {
	for _, s := range strings.Split(name, "/") {
		if s == ".." {
			if strings.HasPrefix(t, dest) && !within(dest, t) {
				return "dotdot-sibling-prefix"
			}
			return "dotdot"
		}
	}
	switch {
	case strings.HasPrefix(name, "/"):
		return "abs"
	case strings.Contains(name, `\`):
		return "backslash"
	}
	return "other"
}

// attribute finds the entry responsible for a change at path p: the one whose joined target is p or
// lies below p; failing that, an entry naming p when taken as an absolute path.
func attribute(p string, names []string, dest string) (string, string) {
	for _, n := range names {
		// the joined target and every intermediate directory the name passes through
		segs := strings.Split(n, "/")
		for i := len(segs); i >= 1; i-- {
			t := filepath.Join(dest, strings.Join(segs[:i], "/"))
			if t == p || strings.HasPrefix(t, p+"/") {
				return n, via(n, t, dest)
			}
		}
	}
	for _, n := range names {
		if strings.HasPrefix(n, "/") {
			if t := filepath.Clean(n); t == p || strings.HasPrefix(t, p+"/") {
				return n, "abs"
			}
		}
	}
	return "", "unattributed"
}

type cfOutcome struct {
	skipped   bool
	dropped   int
	err       error
	pan       any
	escaped   bool
	straceEv  int
	straceSaw bool // the observer, too, saw a write-class call outside the destination
	straceNA  string
}

// runConfine executes one confinement case; out (may be nil) receives what happened.
func (h *harness) runConfine(c *cfCase, out *cfOutcome) *vio {
	if out == nil {
		out = &cfOutcome{}
	}
	if c.Depth < 1 || c.Depth > 4 {
		out.skipped = true
		return nil
	}
	sb, err := h.newSandbox(c)
	if err != nil {
		return &vio{"harness/sandbox", err.Error()}
	}
	defer sb.remove()

	// generator restriction: drop every entry that could resolve outside the harness-owned tree
	var entries []entry
	var names []string
	for _, en := range c.Entries {
		n := expand(en.Name, sb)
		if !safe(n, c.Depth, sb) {
			out.dropped++
			continue
		}
		entries = append(entries, en)
		names = append(names, n)
	}
	if len(entries) == 0 {
		out.skipped = true
		return nil
	}
	zb, err := buildZip(entries, sb, c.Corrupt)
	if err != nil {
		out.skipped = true // archive/zip itself cannot express this archive
		return nil
	}
	zipPath := filepath.Join(sb.Z, "a.zip")
	if err := os.WriteFile(zipPath, zb, 0o644); err != nil {
		return &vio{"harness/zip-write", err.Error()}
	}

	untouchable := map[string]bool{}
	if c.Dest == "absent" {
		untouchable[filepath.Dir(sb.dest)] = true // making the destination itself touches its parent
	}
	var probes []string
	for _, n := range names {
		if a := rootedProbe(n); a != "" {
			if _, err := os.Lstat(a); err != nil {
				probes = append(probes, a)
			}
		}
	}
	before := snapshot(sb.P, sb.dest)

	var events []sevent
	if c.Strace {
		events, out.straceNA = h.traceChild(zipPath, sb)
		out.straceEv = len(events)
	} else {
		func() {
			defer func() { out.pan = recover() }()
			out.err = files.UnzipToFolder(zipPath, sb.dest)
		}()
	}

	after := snapshot(sb.P, sb.dest)
	changes := diffSnap(before, after, untouchable)
	ret := fmt.Sprintf("UnzipToFolder returned %v", out.err)
	if out.pan != nil {
		ret = fmt.Sprintf("UnzipToFolder panicked: %v", out.pan)
	}
	if c.Strace {
		ret = "run in a traced child process"
	}
	rel := func(p string) string {
		if within(sb.P, p) {
			return "<P>" + p[len(sb.P):]
		}
		return p
	}
	for _, a := range probes {
		if fi, err := os.Lstat(a); err == nil {
			if fi.Mode().IsRegular() || fi.IsDir() {
				os.RemoveAll(a) // the name carries this case's unique token: nobody else made it
			}
			out.escaped = true
			return &vio{"unzip/escape/abs-file", fmt.Sprintf("a rooted entry name was honoured as an absolute path: %s appeared (removed again); %s", a, ret)}
		}
	}
	if len(changes) > 0 {
		out.escaped = true
		for _, ev := range events {
			for _, p := range ev.Paths {
				if !within(sb.dest, p) {
					out.straceSaw = true
				}
			}
		}
		ch := changes[0]
		name, v := attribute(ch.Path, names, sb.dest)
		effect := map[string]string{"file-modified": "file", "file-created": "file", "dir-created": "mkdir", "deleted": "delete", "dir-touched": "touch"}[ch.Kind]
		var all []string
		for i, x := range changes {
			if i == 6 {
				all = append(all, fmt.Sprintf("… %d more", len(changes)-i))
				break
			}
			all = append(all, x.Kind+" "+rel(x.Path))
		}
		return &vio{"unzip/escape/" + v + "-" + effect,
			fmt.Sprintf("entry %s, destination <P>%s (%s): %s %s %s outside the destination; all changes outside: %s; %s",
				show(name), sb.dest[len(sb.P):], c.Dest, ch.Kind, rel(ch.Path), ch.Note, strings.Join(all, ", "), ret)}
	}
	// independent observer: every successful write-class system call must name a path under the destination
	for _, ev := range events {
		for _, p := range ev.Paths {
			if within(sb.dest, p) {
				continue
			}
			out.escaped = true
			name, v := attribute(p, names, sb.dest)
			return &vio{"unzip/escape/" + v + "-" + ev.Effect,
				fmt.Sprintf("strace observer: entry %s, destination <P>%s (%s): %s on %s, which is not under the destination (the snapshot saw no lasting change): %s",
					show(name), sb.dest[len(sb.P):], c.Dest, ev.Call, rel(p), ev.Raw)}
		}
	}
	return nil
}

func outcomeClass(o *cfOutcome) string {
	switch {
	case o.pan != nil:
		return "panic"
	case o.err != nil:
		return "error"
	}
	return "ok"
}

func (h *harness) confinement(randomCases int) {
	run := h.run
	cat := catalogue()
	var cases []*cfCase
	for _, hz := range cat {
		for d := 1; d <= 4; d++ {
			for _, st := range []string{"absent", "empty", "populated"} {
				cases = append(cases, &cfCase{Class: hz.Class, Depth: d, Dest: st, Entries: hz.Entries, Corrupt: hz.Corrupt})
			}
		}
	}
	enumerated := len(cases)
	// seeded composites: 2..7 entries drawn from the pool of all catalogue entries
	var pool []entry
	for _, hz := range cat {
		if hz.Corrupt != "" || hz.Class == "many" || hz.Class == "max-name" || hz.Class == "dd-big-body" {
			continue
		}
		pool = append(pool, hz.Entries...)
	}
	rng := rand.New(rand.NewSource(h.run.Seed()*9_176_501 + 17))
	for i := 0; i < randomCases; i++ {
		c := &cfCase{Depth: 1 + rng.Intn(4), Dest: []string{"absent", "empty", "populated"}[rng.Intn(3)]}
		cls := map[string]bool{}
		for n := 2 + rng.Intn(6); n > 0; n-- {
			en := pool[rng.Intn(len(pool))]
			if dotdots(en.Name) > c.Depth {
				continue
			}
			c.Entries = append(c.Entries, en)
			cls[en.Class] = true
		}
		var l []string
		for k := range cls {
			l = append(l, k)
		}
		sort.Strings(l)
		c.Class = "mix:" + strings.Join(l, "+")
		cases = append(cases, c)
	}
	run.Note("cf_catalogue_classes", len(cat))
	run.Note("cf_enumerated_cases", enumerated)

	jobs := make(chan int)
	var wg sync.WaitGroup
	for w := 0; w < runtime.NumCPU(); w++ {
		wg.Add(1)
		go func() {
			defer wg.Done()
			for i := range jobs {
				h.confineOne(cases[i], i < enumerated)
			}
		}()
	}
	for i := range cases {
		jobs <- i
	}
	close(jobs)
	wg.Wait()
}

func (h *harness) confineOne(c *cfCase, single bool) {
	run := h.run
	var o cfOutcome
	if single {
		// a single-class case runs with all of its entries or not at all
		for _, en := range c.Entries {
			if dotdots(en.Name) > c.Depth {
				run.Add("cf_not_applicable_at_depth", 1)
				return
			}
		}
	}
	v := h.runConfine(c, &o)
	if o.skipped {
		run.Add("cf_skipped_by_generator_restriction", 1)
		run.Add("cf_skipped:"+c.Class, 1)
		return
	}
	if v != nil && strings.HasPrefix(v.sig, "harness/") {
		run.Inconclusive(v.sig + ": " + v.what)
		return
	}
	if c.Strace && o.straceNA != "" {
		run.Add("strace_runs_unusable", 1)
		run.Note("strace_last_problem", o.straceNA)
		if v == nil {
			return
		}
	}
	run.Eval(1)
	pre := "cf"
	if c.Strace {
		pre = "strace"
		run.Add("strace_runs", 1)
		run.Add("strace_write_class_syscalls_checked", int64(o.straceEv))
	} else {
		run.Add("cf_cases", 1)
		run.Add("cf_outcome_"+outcomeClass(&o), 1)
		run.Add("cf_entries_dropped_by_generator_restriction", int64(o.dropped))
	}
	run.Add(pre+"_archive_entries", int64(len(c.Entries)))
	if v != nil {
		run.Add(pre+"_escapes", 1)
		if c.Strace && o.straceSaw {
			run.Add("strace_escapes_seen_by_both_observers", 1)
		}
		run.Violation(v.sig, v.what, witness{Kind: "confine", CF: c})
		return
	}
	run.DistinctStr(fmt.Sprintf("%s|%s|d%d|%s|%s", pre, c.Class, c.Depth, c.Dest, outcomeClass(&o)))
	if single && !c.Strace && c.Depth == 2 && c.Dest == "empty" && (c.Class == "dd-out-and-back-in" || c.Class == "abs-into-sibling" || c.Class == "clash-file-dir") {
		var names []string
		for _, en := range c.Entries {
			names = append(names, en.Name)
		}
		run.Sample(map[string]any{"kind": "confine", "class": c.Class, "entries": names, "dest_depth": c.Depth, "dest_state": c.Dest,
			"outcome": outcomeClass(&o), "error": fmt.Sprint(o.err), "changes_outside_destination": 0})
	}
}
