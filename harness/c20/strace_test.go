package c20

import (
	"bytes"
	"fmt"
	"os"
	"os/exec"
	"path/filepath"
	"runtime"
	"strconv"
	"strings"
	"sync"

	"github.com/acquirecloud/golibs/files"
)

// ---------------------------------------------------------------------------------------------
// independent observer (thorough tier): the test binary re-executes itself under strace in a helper
// mode that does nothing but call UnzipToFolder between two marker system calls.

const (
	childEnv    = "VERIF_C20_CHILD" // "<archive>:<dest>" or "selftest:<dir>"
	markerBegin = ".verif-c20-marker-begin"
	markerEnd   = ".verif-c20-marker-end"
	traceCalls  = "open,openat,creat,mkdir,mkdirat,rename,renameat,renameat2,symlink,symlinkat,link,linkat,unlink,unlinkat,rmdir"
)

func childMain(spec string) {
	a, d, _ := strings.Cut(spec, ":")
	if a == "selftest" {
		os.Open(filepath.Join(d, markerBegin))
		dir := filepath.Join(d, "st é\"d")
		os.Mkdir(dir, 0o755)
		os.WriteFile(filepath.Join(dir, "w"), []byte("x"), 0o644)
		os.Rename(filepath.Join(dir, "w"), filepath.Join(dir, "w2"))
		os.Remove(filepath.Join(dir, "w2"))
		os.Open(filepath.Join(dir, "read-only-open"))
		os.Open(filepath.Join(d, markerEnd))
		os.Exit(0)
	}
	mdir := filepath.Dir(a)
	os.Open(filepath.Join(mdir, markerBegin))
	var err error
	func() {
		defer func() {
			if r := recover(); r != nil {
				err = fmt.Errorf("panic: %v", r)
			}
		}()
		err = files.UnzipToFolder(a, d)
	}()
	os.Open(filepath.Join(mdir, markerEnd))
	fmt.Printf("child: UnzipToFolder returned %v\n", err)
	os.Exit(0)
}

type sevent struct {
	Call   string
	Effect string   // "file" | "mkdir" | "delete"
	Paths  []string // absolute, cleaned
	Raw    string
}

// {index of the dirfd argument or -1, index of the path argument}
var pathArgs = map[string][][2]int{
	"open": {{-1, 0}}, "creat": {{-1, 0}}, "openat": {{0, 1}},
	"mkdir": {{-1, 0}}, "mkdirat": {{0, 1}},
	"rename": {{-1, 0}, {-1, 1}}, "renameat": {{0, 1}, {2, 3}}, "renameat2": {{0, 1}, {2, 3}},
	"symlink": {{-1, 1}}, "symlinkat": {{1, 2}}, "link": {{-1, 1}}, "linkat": {{2, 3}},
	"unlink": {{-1, 0}}, "unlinkat": {{0, 1}}, "rmdir": {{-1, 0}},
}

var effects = map[string]string{
	"open": "file", "creat": "file", "openat": "file", "mkdir": "mkdir", "mkdirat": "mkdir",
	"rename": "file", "renameat": "file", "renameat2": "file", "symlink": "file", "symlinkat": "file",
	"link": "file", "linkat": "file", "unlink": "delete", "unlinkat": "delete", "rmdir": "delete",
}

// splitArgs splits the argument text of one strace line at top-level commas.
func splitArgs(s string) []string {
	var out []string
	depth, start := 0, 0
	inq := false
	for i := 0; i < len(s); i++ {
		ch := s[i]
		switch {
		case inq:
			if ch == '\\' {
				i++
			} else if ch == '"' {
				inq = false
			}
		case ch == '"':
			inq = true
		case ch == '(' || ch == '[' || ch == '{':
			depth++
		case ch == ')' || ch == ']' || ch == '}':
			depth--
		case ch == ',' && depth == 0:
			out = append(out, strings.TrimSpace(s[start:i]))
			start = i + 1
		}
	}
	return append(out, strings.TrimSpace(s[start:]))
}

// unquote decodes a C string literal as printed by strace; ok=false if it is not a complete literal.
func unquote(tok string) (string, bool) {
	if len(tok) < 2 || tok[0] != '"' || tok[len(tok)-1] != '"' {
		return "", false // includes the abbreviated form "..."...
	}
	s := tok[1 : len(tok)-1]
	var b []byte
	for i := 0; i < len(s); i++ {
		if s[i] != '\\' {
			b = append(b, s[i])
			continue
		}
		i++
		if i >= len(s) {
			return "", false
		}
		switch c := s[i]; {
		case c == 'n':
			b = append(b, '\n')
		case c == 't':
			b = append(b, '\t')
		case c == 'r':
			b = append(b, '\r')
		case c == 'v':
			b = append(b, '\v')
		case c == 'f':
			b = append(b, '\f')
		case c == 'a':
			b = append(b, 7)
		case c == 'b':
			b = append(b, 8)
		case c == 'e':
			b = append(b, 27)
		case c == 'x':
			j := i + 1
			for j < len(s) && j < i+3 && strings.IndexByte("0123456789abcdefABCDEF", s[j]) >= 0 {
				j++
			}
			v, err := strconv.ParseUint(s[i+1:j], 16, 8)
			if err != nil {
				return "", false
			}
			b = append(b, byte(v))
			i = j - 1
		case c >= '0' && c <= '7':
			j := i
			for j < len(s) && j < i+3 && s[j] >= '0' && s[j] <= '7' {
				j++
			}
			v, err := strconv.ParseUint(s[i:j], 8, 16)
			if err != nil {
				return "", false
			}
			b = append(b, byte(v))
			i = j - 1
		default:
			b = append(b, c)
		}
	}
	return string(b), true
}

type traceResult struct {
	events     []sevent
	sawBegin   bool
	sawEnd     bool
	unresolved int // write-class calls between the markers whose path could not be resolved
	lines      int
}

// parseTrace extracts the successful write-class calls made between the two markers.
func parseTrace(data []byte, begin, end, cwd string) traceResult {
	var r traceResult
	pending := map[string]string{}
	for _, line := range strings.Split(string(data), "\n") {
		if line == "" {
			continue
		}
		r.lines++
		pid := ""
		if i := strings.IndexByte(line, ' '); i > 0 {
			if _, err := strconv.Atoi(line[:i]); err == nil {
				pid, line = line[:i], strings.TrimSpace(line[i+1:])
			}
		}
		if i := strings.Index(line, " <unfinished ...>"); i >= 0 && strings.HasSuffix(line, "<unfinished ...>") {
			pending[pid] = line[:i]
			continue
		}
		if strings.HasPrefix(line, "<... ") {
			i := strings.Index(line, " resumed>")
			if i < 0 {
				continue
			}
			line = pending[pid] + line[i+len(" resumed>"):]
			delete(pending, pid)
		}
		op := strings.IndexByte(line, '(')
		eq := strings.LastIndex(line, " = ")
		if op <= 0 || eq < op {
			continue
		}
		call := line[:op]
		spec, ok := pathArgs[call]
		if !ok {
			continue
		}
		cl := strings.LastIndexByte(line[:eq], ')')
		if cl < op {
			continue
		}
		args := splitArgs(line[op+1 : cl])
		retTok := strings.Fields(line[eq+3:])
		success := false
		if len(retTok) > 0 {
			if v, err := strconv.ParseInt(retTok[0], 0, 64); err == nil && v >= 0 {
				success = true
			}
		}
		// markers are failing read-only opens of fixed names
		if call == "openat" && len(args) >= 2 {
			if p, ok := unquote(args[1]); ok {
				if p == begin {
					r.sawBegin = true
					continue
				}
				if p == end {
					r.sawEnd = true
					continue
				}
			}
		}
		if !r.sawBegin || r.sawEnd || !success {
			continue
		}
		if call == "open" || call == "openat" {
			fi := 1
			if call == "openat" {
				fi = 2
			}
			if fi >= len(args) {
				continue
			}
			write := false
			for _, f := range strings.Split(args[fi], "|") {
				switch strings.TrimSpace(f) {
				case "O_WRONLY", "O_RDWR", "O_CREAT", "O_TRUNC", "O_APPEND":
					write = true
				}
			}
			if !write {
				continue
			}
		}
		ev := sevent{Call: call, Effect: effects[call], Raw: line}
		resolved := true
		for _, pa := range spec {
			if pa[1] >= len(args) {
				resolved = false
				break
			}
			p, ok := unquote(args[pa[1]])
			if !ok {
				resolved = false
				break
			}
			if !filepath.IsAbs(p) {
				if pa[0] >= 0 && args[pa[0]] != "AT_FDCWD" {
					resolved = false
					break
				}
				p = filepath.Join(cwd, p)
			}
			ev.Paths = append(ev.Paths, filepath.Clean(p))
		}
		if !resolved {
			r.unresolved++
			continue
		}
		r.events = append(r.events, ev)
	}
	return r
}

func (h *harness) stracePath() string {
	p, err := exec.LookPath("strace")
	if err != nil {
		return ""
	}
	return p
}

// runTraced runs this binary in helper mode under strace and returns the raw trace.
func (h *harness) runTraced(spec, cwd, outFile string) ([]byte, string) {
	st := h.stracePath()
	exe, err := os.Executable()
	if st == "" || err != nil {
		return nil, "strace or the own executable not found"
	}
	cmd := exec.Command(st, "-f", "-qq", "-e", "trace="+traceCalls, "-e", "signal=none", "-o", outFile, exe)
	cmd.Env = append(os.Environ(), childEnv+"="+spec)
	cmd.Dir = cwd
	var ob bytes.Buffer
	cmd.Stdout, cmd.Stderr = &ob, &ob
	runErr := cmd.Run()
	data, rerr := os.ReadFile(outFile)
	os.Remove(outFile)
	if rerr != nil || len(data) == 0 {
		msg := strings.TrimSpace(ob.String())
		if len(msg) > 200 {
			msg = msg[:200]
		}
		return nil, fmt.Sprintf("strace produced no trace (%v): %s", runErr, msg)
	}
	return data, ""
}

// traceChild is the strace variant of the call under test: it returns the write-class system calls the
// child made while inside UnzipToFolder, or a reason why the observer was unusable.
func (h *harness) traceChild(zipPath string, sb *sandbox) ([]sevent, string) {
	data, na := h.runTraced(zipPath+":"+sb.dest, sb.cwd, filepath.Join(sb.Z, "trace.txt"))
	if na != "" {
		return nil, na
	}
	r := parseTrace(data, filepath.Join(sb.Z, markerBegin), filepath.Join(sb.Z, markerEnd), sb.cwd)
	if !r.sawBegin || !r.sawEnd {
		return nil, fmt.Sprintf("markers not seen in %d trace lines (begin=%v end=%v)", r.lines, r.sawBegin, r.sawEnd)
	}
	if r.unresolved > 0 {
		h.run.Add("strace_unresolved_paths", int64(r.unresolved))
	}
	return r.events, ""
}

// straceSelfTest proves that the observer sees and decodes mkdir, write-open, rename and unlink of a
// helper child before any verdict is based on it.
func (h *harness) straceSelfTest() string {
	dir, err := os.MkdirTemp(h.top, "st-")
	if err != nil {
		return err.Error()
	}
	defer os.RemoveAll(dir)
	data, na := h.runTraced("selftest:"+dir, dir, filepath.Join(dir, "trace.txt"))
	if na != "" {
		return na
	}
	r := parseTrace(data, filepath.Join(dir, markerBegin), filepath.Join(dir, markerEnd), dir)
	if !r.sawBegin || !r.sawEnd {
		return fmt.Sprintf("self-test: markers not seen in %d trace lines", r.lines)
	}
	d := filepath.Join(dir, "st é\"d")
	want := map[string]bool{"mkdir " + d: false, "file " + d + "/w": false, "file " + d + "/w2": false, "delete " + d + "/w2": false}
	for _, ev := range r.events {
		for _, p := range ev.Paths {
			if _, ok := want[ev.Effect+" "+p]; ok {
				want[ev.Effect+" "+p] = true
			}
			if strings.HasSuffix(p, "read-only-open") {
				return "self-test: a read-only open was classified as a write"
			}
		}
	}
	for k, seen := range want {
		if !seen {
			return "self-test: the observer did not report " + k
		}
	}
	return ""
}

func (h *harness) straceSubset() {
	run := h.run
	if h.stracePath() == "" {
		run.Note("strace_observer", "skipped: strace is not installed")
		return
	}
	if problem := h.straceSelfTest(); problem != "" {
		run.Note("strace_observer", "skipped: "+problem)
		return
	}
	run.Note("strace_observer", "active: strace -f -e trace="+traceCalls+"; self-test passed")
	var cases []*cfCase
	for _, hz := range catalogue() {
		if hz.Class == "max-name" || hz.Class == "dd-big-body" {
			continue
		}
		need := 1
		for _, en := range hz.Entries {
			need = max(need, dotdots(en.Name))
		}
		for _, d := range []int{1, 2, 3, 4} {
			if d != need && d != max(need, 2) && d != 4 {
				continue
			}
			for _, st := range []string{"absent", "populated"} {
				cases = append(cases, &cfCase{Class: hz.Class, Depth: d, Dest: st, Entries: hz.Entries, Corrupt: hz.Corrupt, Strace: true})
			}
		}
	}
	jobs := make(chan *cfCase)
	var wg sync.WaitGroup
	for w := 0; w < runtime.NumCPU(); w++ {
		wg.Add(1)
		go func() {
			defer wg.Done()
			for c := range jobs {
				h.confineOne(c, true)
			}
		}()
	}
	for _, c := range cases {
		jobs <- c
	}
	close(jobs)
	wg.Wait()
}
