// C06 — an expired record is indistinguishable from a deleted one (reference model with a clock,
// DESIGN §3 C06). inmem runs inside synctest bubbles (virtual clock), Redis on miniredis (FastForward).
package c06

import (
	"context"
	"encoding/json"
	"errors"
	"fmt"
	"math/rand"
	"os"
	"runtime"
	"strings"
	"sync"
	"sync/atomic"
	"testing"
	"testing/synctest"
	"time"

	gerrors "github.com/acquirecloud/golibs/errors"
	"github.com/acquirecloud/golibs/kvs"
	"github.com/acquirecloud/golibs/kvs/inmem"
	"github.com/alicebob/miniredis/v2/server"

	"verifharness/internal/kvmodel"
	"verifharness/internal/report"
	"verifharness/internal/shard"
)

func TestMain(m *testing.M) { os.Exit(report.ExitCode(m.Run())) }

type Op = kvmodel.Op

type kase struct {
	Backend string `json:"backend"`
	Kind    string `json:"kind"` // matrix | seq | random
	Ops     []Op   `json:"ops"`
}

// final observation: every reader, then a Create on each key (which must succeed exactly for absent/expired keys)
var observers = []Op{
	{K: "Get", Key: "a"}, {K: "Get", Key: "b"}, {K: "GetMany", Keys: []string{"a", "b", "c"}}, {K: "List", Pat: "*"},
	{K: "Create", Key: "a", Val: 3}, {K: "Create", Key: "b", Val: 3}, {K: "List", Pat: "?"},
}

func runCase(be *kvmodel.Backend, k kase, states map[string]struct{}, firstTouch map[string]int64) *kvmodel.Vio {
	m := kvmodel.New(be)
	touchedExpired := map[string]bool{}
	for i, o := range k.Ops {
		if !m.Applicable(o) {
			continue
		}
		if firstTouch != nil && o.K != "Advance" {
			keys := o.Keys
			if o.Key != "" {
				keys = []string{o.Key}
			}
			if o.K == "List" {
				keys = []string{"a", "b"}
			}
			for _, key := range keys {
				if m.Expired(key) && !touchedExpired[key] {
					firstTouch[o.K+":"+o.Ver]++
					touchedExpired[key] = true
				}
			}
		}
		if v := m.Step(o); v != nil {
			v.What = fmt.Sprintf("step %d: %s", i, v.What)
			return v
		}
		if o.K != "Advance" && o.K != "Get" && o.K != "GetMany" && o.K != "List" && o.K != "Wait" {
			for key := range touchedExpired { // a write revives the key
				if !m.Expired(key) {
					delete(touchedExpired, key)
				}
			}
		}
		if states != nil {
			states[m.StateKey()] = struct{}{}
		}
	}
	for _, ob := range observers {
		if v := m.Step(ob); v != nil {
			v.What = fmt.Sprintf("final observation: %s", v.What)
			return v
		}
	}
	return nil
}

// operation instances of the depth-bounded enumeration
func alphabet(backend string) []Op {
	a := []Op{
		{K: "Put", Key: "a", Val: 2, Exp: 1},
		{K: "Put", Key: "a", Val: 3, Exp: 3},
		{K: "Put", Key: "a", Val: 2},
		{K: "Put", Key: "b", Val: 2, Exp: 1},
		{K: "Create", Key: "a", Val: 2, Exp: 1},
		{K: "Create", Key: "b", Val: 3, Exp: 2},
		{K: "PutMany", Keys: []string{"a", "b"}, Val: 2, Exp: 1},
		{K: "PutMany", Keys: []string{"a"}, Val: 3},
		{K: "PutMany", Keys: []string{"a", "b", "a"}, Val: 1, Exps: []int{0, 2, 1}},
		{K: "Cas", Key: "a", Val: 3, Ver: "cur", Exp: 1},
		{K: "Cas", Key: "a", Val: 2, Ver: "cur"},
		{K: "Cas", Key: "a", Val: 2, Ver: "bogus"},
		{K: "Get", Key: "a"},
		{K: "GetMany", Keys: []string{"b", "a"}},
		{K: "Delete", Key: "a"},
		{K: "Create", Key: "a", Val: 1},
		{K: "List", Pat: "*"},
		{K: "Wait", Key: "a", Ver: "cur"},
		{K: "Wait", Key: "a", Ver: "stale"},
		{K: "Wait", Key: "b", Ver: "bogus"},
		{K: "Advance", N: 1},
		{K: "Advance", N: 3},
		{K: "Advance", N: 2000},
	}
	// an expiry that already lies in the past when written (real Redis keeps such a key for 1 ms: the backend view
	// lets 5 ms of the server clock pass after such a write) and "never" expiries (year 2300 / 9999)
	a = append(a, Op{K: "Put", Key: "a", Val: 2, Exp: -1}, Op{K: "Put", Key: "a", Val: 1, Exp: kvmodel.Never2}, Op{K: "Create", Key: "b", Val: 2, Exp: kvmodel.Never1}, Op{K: "Put", Key: "a", Val: 3, Exp: kvmodel.ZeroTime})
	return a
}

// the systematic "first toucher" matrix
func matrix(backend string) []kase {
	writers := [][]Op{
		{{K: "Put", Key: "a", Val: 2, Exp: 1}},
		{{K: "Create", Key: "a", Val: 2, Exp: 1}},
		{{K: "PutMany", Keys: []string{"a", "b"}, Val: 2, Exp: 1}},
		{{K: "PutMany", Keys: []string{"a", "b", "a"}, Val: 2, Exps: []int{0, 3, 1}}},
		{{K: "Put", Key: "a", Val: 1}, {K: "Cas", Key: "a", Val: 2, Ver: "cur", Exp: 1}},
		{{K: "Put", Key: "a", Val: 1}, {K: "Put", Key: "a", Val: 3, Exp: 2}, {K: "Advance", N: 1}},
		{{K: "Put", Key: "a", Val: 2, Exp: kvmodel.Never2}},
		{{K: "Create", Key: "a", Val: 2, Exp: kvmodel.Never1}},
		{{K: "Put", Key: "a", Val: 1}, {K: "Put", Key: "a", Val: 3, Exp: -1}},
		{{K: "Put", Key: "a", Val: 1}, {K: "Put", Key: "a", Val: 3, Exp: kvmodel.ZeroTime}},
		{{K: "PutMany", Keys: []string{"b", "a"}, Val: 2, Exps: []int{0, kvmodel.ZeroTime}}},
	}
	unrelated := [][]Op{
		{},
		{{K: "Put", Key: "c", Val: 2}},
		{{K: "Put", Key: "c", Val: 2, Exp: 9}, {K: "Get", Key: "c"}},
		{{K: "Put", Key: "b", Val: 3}, {K: "Delete", Key: "b"}},
	}
	touchers := []Op{
		{K: "Get", Key: "a"},
		{K: "GetMany", Keys: []string{"a"}},
		{K: "GetMany", Keys: []string{"c", "a", "b"}},
		{K: "Cas", Key: "a", Val: 3, Ver: "cur"},
		{K: "Cas", Key: "a", Val: 3, Ver: "stale"},
		{K: "Cas", Key: "a", Val: 3, Ver: "bogus"},
		{K: "Delete", Key: "a"},
		{K: "Create", Key: "a", Val: 3},
		{K: "Create", Key: "a", Val: 3, Exp: 1},
		{K: "List", Pat: "*"},
		{K: "List", Pat: "a"},
		{K: "Wait", Key: "a", Ver: "cur"},
		{K: "Wait", Key: "a", Ver: "stale"},
		{K: "Wait", Key: "a", Ver: "bogus"},
		{K: "Put", Key: "a", Val: 3},
		{K: "Put", Key: "a", Val: 3, Exp: 1},
		{K: "PutMany", Keys: []string{"a"}, Val: 3},
	}
	advances := []int{1, 2, 5000}
	var res []kase
	for _, w := range writers {
		for _, u := range unrelated {
			for _, adv := range advances {
				for _, x := range touchers {
					for _, second := range append([]Op{{K: "Advance", N: 0}}, touchers[:8]...) {
						ops := append([]Op(nil), w...)
						ops = append(ops, u...)
						ops = append(ops, Op{K: "Advance", N: adv}, x)
						if second.K != "Advance" {
							ops = append(ops, second)
						}
						res = append(res, kase{Backend: backend, Kind: "matrix", Ops: ops})
					}
				}
			}
		}
	}
	return res
}

type shared struct {
	run        *report.Run
	mu         sync.Mutex
	states     map[string]struct{}
	firstTouch map[string]int64
}

func (sh *shared) merge(states map[string]struct{}, ft map[string]int64) {
	sh.mu.Lock()
	for s := range states {
		sh.states[s] = struct{}{}
	}
	for k, n := range ft {
		sh.firstTouch[k] += n
	}
	sh.mu.Unlock()
}

func TestCheck(t *testing.T) {
	run := report.New("C06", "exploration")
	sh := &shared{run: run, states: map[string]struct{}{}, firstTouch: map[string]int64{}}
	t.Cleanup(func() {
		for s := range sh.states {
			run.DistinctStr(s)
		}
		run.Note("first_touch_of_an_expired_key_by_operation", sh.firstTouch)
		run.Finish(t)
	})
	run.Rule("(i) first-toucher matrix: 11 ways to write a short-lived, already expired (also: expiry pointing to the zero time) or never expiring (year 2300 / 9999) record x 4 unrelated interludes x 3 clock advances x 17 first touchers x 9 second touchers; (ii) 1-3 waiters parked while the record is alive, 0..n-1 of them (the earliest) give up, clock advanced past the expiry; (iii)/(iv) every sequence over 26 operation instances (writes with short/long/no/past/never expiry on 2 keys; Redis: the server-side time to live of every written key is compared with the given expiry, all readers, Advance 1/3/2000 units) to the depth bound plus seeded random sequences; each followed by a full observation (Get, GetMany, ListKeys, Create); (vii) Redis: the record expires / is deleted by somebody else between the read and the write of a CasByVersion holding its current version (server pre-hook before MULTI / SET / EXEC): only nil (and then stored) or ErrNotExist are explainable; likewise the record that makes a Create fail expires / is deleted before Create looks again: ErrExist or nil, and the record a Create writes after a slow retry must not outlive its ExpiresAt; (vi) inmem, real scheduling: readers of an expired, not yet purged record race a writer of a record without expiry (80 000 / 3 200 000 rounds), the written record must survive; (v) inmem on the real clock: a record without expiry is written right at the expiry of its predecessor while waiters are parked on it and a long ListKeys keeps the lock busy - it must survive. Compared call by call with the contract model with a logical clock. distinct = distinct logical store states (presence, value, remaining lifetime, last write) reached")
	run.Assume("expirations lie at half clock units and the clock moves in whole units, so the exact expiry instant is never sampled")
	run.Assume("inmem: testing/synctest virtual clock; Redis: miniredis, whose clock is the sum of FastForward calls")

	if p := os.Getenv("VERIF_REPLAY"); p != "" {
		replay(t, run, p)
		return
	}
	depth := run.Pick(3, 4)
	run.Note("depth", depth)

	// ---------------- in-memory backend: synctest bubbles, one per child process ----------------
	// (the library's global version generator holds a mutex that must not be shared between bubbles)
	for c := range shard.Run(run, "TestChild", "inmem", runtime.NumCPU(), 40*time.Minute) {
		if strings.HasPrefix(c, "ft:") {
			continue
		}
		sh.states[c] = struct{}{}
	}

	// ---------------- in-memory backend, real clock: a write racing the expiry wake-up of parked waiters
	var rwg sync.WaitGroup
	for i := 0; i < run.Pick(6, 40); i++ {
		rwg.Add(1)
		go func(i int) {
			defer rwg.Done()
			run.Eval(1)
			if v := expiryRace(run, run.Seed()*977+int64(i)); v != nil {
				run.Violation(v.Sig, v.What, map[string]any{"scenario": "expiry-race", "backend": "inmem", "seed": run.Seed()*977 + int64(i)})
			}
		}(i)
	}
	rwg.Add(1)
	go func() {
		defer rwg.Done()
		run.Eval(1)
		if v := casAcrossExpiry(run); v != nil {
			if strings.HasPrefix(v.Sig, "inconclusive/") {
				run.Inconclusive(v.What)
				return
			}
			run.Violation(v.Sig, v.What, map[string]any{"scenario": "cas-across-expiry", "backend": "redis"})
		}
	}()
	for i := 0; i < run.Pick(4, 16); i++ {
		rwg.Add(1)
		go func(i int) {
			defer rwg.Done()
			run.Eval(1)
			if v := purgeRace(run, run.Seed()*1013+int64(i), run.Pick(20000, 200000)); v != nil {
				run.Violation(v.Sig, v.What, map[string]any{"scenario": "purge-race", "backend": "inmem", "seed": run.Seed()*1013 + int64(i)})
			}
		}(i)
	}
	defer rwg.Wait()

	// ---------------- Redis backend: miniredis, FastForward ----------------
	t.Run("redis", func(t *testing.T) {
		var cases []kase
		cases = append(cases, matrix("redis")...)
		alpha := alphabet("redis")
		var rec func(ops []Op)
		rec = func(ops []Op) {
			if len(ops) == depth {
				cases = append(cases, kase{Backend: "redis", Kind: "seq", Ops: ops})
				return
			}
			for _, o := range alpha {
				rec(append(append([]Op(nil), ops...), o))
			}
		}
		rec(nil)
		for i := 0; i < run.Pick(300, 5000); i++ {
			cases = append(cases, randomCase("redis", run.Seed(), i))
		}
		nshards := runtime.NumCPU()
		var wg sync.WaitGroup
		for s := 0; s < nshards; s++ {
			wg.Add(1)
			go func(s int) {
				defer wg.Done()
				rs, err := kvmodel.NewRedisServer()
				if err != nil {
					run.Inconclusive("miniredis: " + err.Error())
					return
				}
				defer rs.Close()
				states := map[string]struct{}{}
				ft := map[string]int64{}
				for i := s; i < len(cases); i += nshards {
					k := cases[i]
					run.Eval(1)
					run.Add("sequences_redis_"+k.Kind, 1)
					if v := runCase(rs.Backend(), k, states, ft); v != nil {
						if strings.HasPrefix(v.Sig, "inconclusive/") {
							run.Inconclusive(v.What)
							continue
						}
						run.Violation(v.Sig, v.What, k)
					}
				}
				if s < 4 {
					for _, exp := range []int{1, 2} {
						run.Eval(1)
						run.Add("parked_waiter_scenarios_redis", 1)
						if v := parkedWaiterRedis(run, rs, exp); v != nil {
							run.Violation(v.Sig, v.What, map[string]any{"scenario": "parked-waiter", "backend": "redis", "exp": exp})
						}
					}
				}
				sh.merge(states, ft)
			}(s)
		}
		wg.Wait()
	})
	run.Sample(matrix("inmem")[1234])
	run.Sample(matrix("redis")[777])
	run.Sample(randomCase("inmem", run.Seed(), 0))
}

func inmemCases(run *report.Run) []kase {
	depth := run.Pick(3, 4)
	var cases []kase
	cases = append(cases, matrix("inmem")...)
	alpha := alphabet("inmem")
	var rec func(ops []Op)
	rec = func(ops []Op) {
		if len(ops) == depth {
			cases = append(cases, kase{Backend: "inmem", Kind: "seq", Ops: ops})
			return
		}
		for _, o := range alpha {
			rec(append(append([]Op(nil), ops...), o))
		}
	}
	rec(nil)
	for i := 0; i < run.Pick(300, 5000); i++ {
		cases = append(cases, randomCase("inmem", run.Seed(), i))
	}
	return cases
}

// TestChild runs one shard of the in-memory part inside a single bubble (child process of TestCheck).
func TestChild(t *testing.T) {
	idx, total, _, ok := shard.Child()
	if !ok {
		t.Skip("not a shard child")
	}
	run := report.New("C06", "exploration")
	res := shard.NewResult()
	cases := inmemCases(run)
	states := map[string]struct{}{}
	ft := map[string]int64{}
	// a fresh bubble (fresh virtual clock) every 500 cases
	var mine []kase
	for i := idx; i < len(cases); i += total {
		mine = append(mine, cases[i])
	}
	for from := 0; from < len(mine); from += 500 {
		batch := mine[from:min(from+500, len(mine))]
		synctest.Test(t, func(t *testing.T) {
			for _, k := range batch {
				res.Evals++
				res.Counters["sequences_inmem_"+k.Kind]++
				if v := runCase(kvmodel.InmemBubble(), k, states, ft); v != nil {
					if strings.HasPrefix(v.Sig, "inconclusive/") {
						res.Inconcl = append(res.Inconcl, v.What)
						continue
					}
					res.Violation(v.Sig, v.What, k)
				}
			}
		})
	}
	synctest.Test(t, func(t *testing.T) {
		// (ii) parked waiter, then the record expires
		if idx < 4 {
			for _, exp := range []int{1, 2, 4} {
				for nw := 1; nw <= 3; nw++ {
					res.Evals++
					res.Counters["parked_waiter_scenarios_inmem"]++
					for leave := 0; leave < nw; leave++ {
						if v := parkedWaiterInmem(exp, nw, leave); v != nil {
							res.Violation(v.Sig, v.What, map[string]any{"scenario": "parked-waiter", "backend": "inmem", "exp": exp, "waiters": nw, "leave_before_expiry": leave})
						}
					}
				}
			}
		}
	})
	for s := range states {
		res.Classes = append(res.Classes, s)
	}
	for k, n := range ft {
		res.Counters["first_touch_inmem_"+k] = n
	}
	shard.Emit(res)
}

// expiryRace (inmem, real clock): "a record whose expiration lies in the future, or that has none, is never
// dropped" must also hold against the library's own expiry machinery. A waiter is parked on a record that
// expires in a few milliseconds; right at the expiry a record WITHOUT expiry is written under the same key
// while a long ListKeys keeps the store lock busy, so that the waiter's expiry wake-up and the write queue up
// behind the lock in either order. Afterwards the key must hold the record without expiry. The clock only
// creates the interleavings; the verdict (a successful Put without expiry, no Delete => Get finds it) is logical.
func expiryRace(run *report.Run, seed int64) *kvmodel.Vio {
	s := inmem.New()
	bg := context.Background()
	for i := 0; i < 60000; i++ { // filler keys make ListKeys hold the lock for a while
		_, _ = s.Put(bg, kvs.Record{Key: fmt.Sprintf("fill/%d", i), Value: []byte("f")})
	}
	rng := rand.New(rand.NewSource(seed))
	for round := 0; round < 12; round++ {
		key := fmt.Sprintf("race/%d", round)
		ttl := time.Duration(8+rng.Intn(8)) * time.Millisecond
		at := time.Now().Add(ttl)
		r0, err := s.Put(bg, kvs.Record{Key: key, Value: []byte("short"), ExpiresAt: &at})
		if err != nil {
			return &kvmodel.Vio{Sig: "inmem/Put/error", What: err.Error()}
		}
		var wg sync.WaitGroup
		nw := 1 + rng.Intn(3)
		for i := 0; i < nw; i++ {
			wg.Add(1)
			go func() {
				defer wg.Done()
				ctx, cancel := context.WithTimeout(bg, 2*time.Second)
				defer cancel()
				_ = s.WaitForVersionChange(ctx, key, r0.Version)
			}()
		}
		wg.Add(1)
		go func() { // keeps the lock busy around the expiry
			defer wg.Done()
			time.Sleep(time.Until(at) - 2*time.Millisecond)
			for time.Now().Before(at.Add(6 * time.Millisecond)) {
				if it, err := s.ListKeys(bg, "nomatch*"); err == nil {
					_ = it.Close()
				}
			}
		}()
		// the write lands just after the expiry (+ the waiter's wake-up margin)
		time.Sleep(time.Until(at) + time.Duration(500+rng.Intn(2500))*time.Microsecond)
		if _, err := s.Put(bg, kvs.Record{Key: key, Value: []byte("keep")}); err != nil {
			return &kvmodel.Vio{Sig: "inmem/Put/error", What: err.Error()}
		}
		wg.Wait()
		run.Add("expiry_race_rounds", 1)
		got, err := s.Get(bg, key)
		if err != nil || string(got.Value) != "keep" {
			return &kvmodel.Vio{Sig: "inmem/live-record-dropped-at-expiry-of-its-predecessor", What: fmt.Sprintf("a record without expiry was written (successfully) %v after its predecessor expired while %d waiters were parked on the predecessor; nobody deleted it, yet Get returns (%q, %v)", time.Since(at), nw, got.Value, err)}
		}
	}
	return nil
}

// casAcrossExpiry (Redis): the record a CasByVersion was given the current version of expires (or is deleted by
// somebody else) while the call is under way - between its read and its write (injected by the server's pre-hook
// right before EXEC / before the n-th command of the call). Before that instant the version matches, after it
// the key is absent: the only explainable results are nil (then Get returns what was written) and ErrNotExist.
func casAcrossExpiry(run *report.Run) *kvmodel.Vio {
	rs, err := kvmodel.NewRedisServer()
	if err != nil {
		return &kvmodel.Vio{Sig: "inconclusive/miniredis", What: err.Error()}
	}
	defer rs.Close()
	bg := context.Background()
	for _, how := range []string{"expire", "delete"} {
		for _, at := range []string{"EXEC", "MULTI", "SET"} {
			rs.InstallDefaultHook()
			rs.MR.FlushAll()
			exp := time.Now().Add(time.Hour)
			r0, err := rs.S.Put(bg, kvs.Record{Key: "cx", Value: []byte("0"), ExpiresAt: &exp})
			if err != nil {
				return &kvmodel.Vio{Sig: "redis/Put/error", What: err.Error()}
			}
			var fired atomic.Bool
			rs.MR.Server().SetPreHook(func(_ *server.Peer, cmd string, _ ...string) bool {
				if cmd == at && fired.CompareAndSwap(false, true) {
					if how == "expire" {
						rs.MR.FastForward(2 * time.Hour)
					} else {
						rs.MR.Del("/kvs/cx")
					}
				}
				return false
			})
			got, cerr := rs.S.CasByVersion(bg, kvs.Record{Key: "cx", Value: []byte("1"), Version: r0.Version})
			rs.InstallDefaultHook()
			if !fired.Load() {
				continue // this backend version does not send that command inside a CAS: nothing was injected
			}
			run.Add("redis_cas_across_expiry_cases", 1)
			desc := fmt.Sprintf("the record was made to %s right before the %s command of a CasByVersion that was given its current version", how, at)
			switch {
			case cerr == nil:
				g, gerr := rs.S.Get(bg, "cx")
				if gerr != nil || g.Version != got.Version || string(g.Value) != "1" {
					return &kvmodel.Vio{Sig: "redis/Cas/success-not-stored", What: fmt.Sprintf("%s; it returned nil (version %s) but Get returns (%q, %q, %v)", desc, got.Version, g.Value, g.Version, gerr)}
				}
			case errors.Is(cerr, gerrors.ErrNotExist):
				if _, gerr := rs.S.Get(bg, "cx"); !errors.Is(gerr, gerrors.ErrNotExist) {
					return &kvmodel.Vio{Sig: "redis/Cas/not-exist-but-present", What: fmt.Sprintf("%s; it returned ErrNotExist but Get afterwards returns %v", desc, gerr)}
				}
			default:
				return &kvmodel.Vio{Sig: "redis/Cas/unexplainable-result-across-expiry", What: fmt.Sprintf("%s; it returned %v: before that instant the version matched, afterwards the key was absent - only nil or ErrNotExist can be explained", desc, cerr)}
			}
		}
	}
	// the same for Create: the record that makes the first attempt fail (key present) expires / is deleted before
	// Create looks at it again - the explainable results are ErrExist (it was there) and nil (it is gone: created)
	for _, how := range []string{"expire", "delete"} {
		rs.InstallDefaultHook()
		rs.MR.FlushAll()
		exp := time.Now().Add(time.Hour)
		if _, err := rs.S.Put(bg, kvs.Record{Key: "cx", Value: []byte("0"), ExpiresAt: &exp}); err != nil {
			return &kvmodel.Vio{Sig: "redis/Put/error", What: err.Error()}
		}
		var fired atomic.Bool
		sawSet := false
		rs.MR.Server().SetPreHook(func(_ *server.Peer, cmd string, _ ...string) bool {
			if cmd == "SETNX" || cmd == "SET" {
				sawSet = true
			} else if sawSet && fired.CompareAndSwap(false, true) {
				if how == "expire" {
					rs.MR.FastForward(2 * time.Hour)
				} else {
					rs.MR.Del("/kvs/cx")
				}
			}
			return false
		})
		ver, cerr := rs.S.Create(bg, kvs.Record{Key: "cx", Value: []byte("1")})
		rs.InstallDefaultHook()
		if !fired.Load() {
			continue
		}
		run.Add("redis_create_across_expiry_cases", 1)
		desc := fmt.Sprintf("the record that made a Create fail was made to %s before the Create looked at it again", how)
		switch {
		case cerr == nil:
			if g, gerr := rs.S.Get(bg, "cx"); gerr != nil || g.Version != ver || string(g.Value) != "1" {
				return &kvmodel.Vio{Sig: "redis/Create/success-not-stored", What: fmt.Sprintf("%s; it returned nil (version %s) but Get returns (%q, %q, %v)", desc, ver, g.Value, g.Version, gerr)}
			}
		case errors.Is(cerr, gerrors.ErrExist):
		default:
			return &kvmodel.Vio{Sig: "redis/Create/unexplainable-result-across-expiry", What: fmt.Sprintf("%s; it returned %v: only ErrExist (the record was there) or nil (it is gone, so the key was free) can be explained", desc, cerr)}
		}
	}
	// a Create that has to go round (the blocking record vanishes while its slow second look is under way: the
	// pre-hook deletes the record and lets 300 ms of real time pass): the record it finally writes must not
	// outlive the expiry it was given - the server's time to live may not exceed what is left until ExpiresAt
	{
		rs.InstallDefaultHook()
		rs.MR.FlushAll()
		if _, err := rs.S.Put(bg, kvs.Record{Key: "cx", Value: []byte("0")}); err != nil {
			return &kvmodel.Vio{Sig: "redis/Put/error", What: err.Error()}
		}
		var fired atomic.Bool
		sawSet := false
		rs.MR.Server().SetPreHook(func(_ *server.Peer, cmd string, _ ...string) bool {
			if cmd == "SETNX" || cmd == "SET" {
				sawSet = true
			} else if sawSet && fired.CompareAndSwap(false, true) {
				rs.MR.Del("/kvs/cx")
				time.Sleep(300 * time.Millisecond)
			}
			return false
		})
		exp := time.Now().Add(2 * time.Second)
		_, cerr := rs.S.Create(bg, kvs.Record{Key: "cx", Value: []byte("1"), ExpiresAt: &exp})
		left := time.Until(exp)
		rs.InstallDefaultHook()
		if fired.Load() && cerr == nil {
			run.Add("redis_create_after_slow_retry_cases", 1)
			if ttl := rs.MR.TTL("/kvs/cx"); ttl > left+150*time.Millisecond {
				return &kvmodel.Vio{Sig: "redis/Create/stored/outlives-its-expiry", What: fmt.Sprintf("a Create had to try twice (the record in its way vanished during its slow second look, 300 ms); when it returned %v were left until the ExpiresAt it was given, but the server keeps the record for %v", left.Round(time.Millisecond), ttl)}
			}
		}
	}
	return nil
}

// purgeRace (inmem, real scheduling): a record that is expired but still physically stored (nobody touched the
// key since) is read by several goroutines - each of them may purge it - while one goroutine writes a record
// WITHOUT expiry under the same key. Whatever the order: the write succeeded and nobody deleted, so afterwards the
// key must hold that record. The verdict is logical; goroutines are released from one barrier per round.
func purgeRace(run *report.Run, seed int64, rounds int) *kvmodel.Vio {
	s := inmem.New()
	bg := context.Background()
	rng := rand.New(rand.NewSource(seed))
	for round := 0; round < rounds; round++ {
		key := fmt.Sprintf("purge/%d", round%7)
		past := time.Now().Add(-time.Millisecond)
		if _, err := s.Put(bg, kvs.Record{Key: key, Value: []byte("dead"), ExpiresAt: &past}); err != nil {
			return &kvmodel.Vio{Sig: "inmem/Put/error", What: err.Error()}
		}
		readers := 2 + rng.Intn(5)
		kind := rng.Intn(4)
		start := make(chan struct{})
		var wg sync.WaitGroup
		for i := 0; i < readers; i++ {
			wg.Add(1)
			go func(i int) {
				defer wg.Done()
				<-start
				switch (kind + i) % 4 {
				case 0:
					_, _ = s.Get(bg, key)
				case 1:
					_, _ = s.GetMany(bg, key)
				case 2:
					_ = s.Delete(bg, key+"/other") // unrelated key: must not matter
					_, _ = s.Get(bg, key)
				default:
					ctx, cancel := context.WithCancel(bg)
					cancel()
					_ = s.WaitForVersionChange(ctx, key, "v")
				}
			}(i)
		}
		var perr error
		var keep kvs.Record
		wg.Add(1)
		go func() {
			defer wg.Done()
			<-start
			for i := rng.Intn(3); i > 0; i-- {
				runtime.Gosched()
			}
			keep, perr = s.Put(bg, kvs.Record{Key: key, Value: []byte("keep")})
		}()
		close(start)
		wg.Wait()
		if perr != nil {
			return &kvmodel.Vio{Sig: "inmem/Put/error", What: perr.Error()}
		}
		run.Add("purge_race_rounds", 1)
		got, err := s.Get(bg, key)
		if err != nil || got.Version != keep.Version || string(got.Value) != "keep" {
			return &kvmodel.Vio{Sig: "inmem/live-record-dropped-by-purge-of-its-expired-predecessor", What: fmt.Sprintf("round %d: a record without expiry was written successfully (version %s) over an expired, not yet purged record while %d goroutines read the key; nobody deleted it, yet Get returns (%q, version %q, %v)", round, keep.Version, readers, got.Value, got.Version, err)}
		}
	}
	return nil
}

func randomCase(backend string, seed int64, i int) kase {
	rng := rand.New(rand.NewSource(seed*104729 + int64(i)))
	keys := []string{"a", "b", "c"}
	key := func() string { return keys[rng.Intn(len(keys))] }
	exp := func() int {
		switch rng.Intn(6) {
		case 0, 1:
			return 0
		case 2:
			return 1
		case 3:
			return 1 + rng.Intn(4)
		case 4:
			return 1000
		default:
			switch rng.Intn(4) {
			case 0:
				return kvmodel.Never1 + rng.Intn(2)
			case 1:
				return kvmodel.ZeroTime
			}
			return -1 - rng.Intn(2)
		}
	}
	k := kase{Backend: backend, Kind: "random"}
	n := 20 + rng.Intn(100)
	for j := 0; j < n; j++ {
		var o Op
		switch x := rng.Intn(100); {
		case x < 10:
			o = Op{K: "Create", Key: key(), Val: rng.Intn(4), Exp: exp()}
		case x < 18:
			o = Op{K: "Get", Key: key()}
		case x < 25:
			o = Op{K: "GetMany", Keys: []string{key(), key()}}
		case x < 37:
			o = Op{K: "Put", Key: key(), Val: rng.Intn(4), Exp: exp()}
		case x < 45:
			o = Op{K: "PutMany", Keys: []string{key(), key()}, Val: rng.Intn(4), Exp: exp()}
			if rng.Intn(2) == 0 {
				o.Exps = []int{exp(), exp()}
			}
		case x < 57:
			o = Op{K: "Cas", Key: key(), Val: rng.Intn(4), Exp: exp(), Ver: []string{"cur", "cur", "stale", "bogus"}[rng.Intn(4)]}
		case x < 64:
			o = Op{K: "Delete", Key: key()}
		case x < 72:
			o = Op{K: "List", Pat: []string{"*", "?", "[ab]", "c"}[rng.Intn(4)]}
		case x < 80:
			o = Op{K: "Wait", Key: key(), Ver: []string{"cur", "stale", "bogus"}[rng.Intn(3)]}
		default:
			o = Op{K: "Advance", N: []int{1, 1, 1, 2, 3, 1000}[rng.Intn(6)]}
		}
		k.Ops = append(k.Ops, o)
	}
	return k
}

// parkedWaiterInmem: nw waiters park on a live record (current version); the clock then passes the
// expiry; after quiescence all of them must have returned ErrNotExist and the waiter table is empty.
// Runs inside a bubble.
func parkedWaiterInmem(exp, nw, leave int) *kvmodel.Vio {
	s := inmem.New()
	ctx, cancel := context.WithCancel(context.Background())
	defer cancel()
	at := time.Now().Add(time.Duration(2*exp-1) * kvmodel.BubbleUnit / 2)
	rec, err := s.Put(ctx, kvs.Record{Key: "a", Value: []byte("x"), ExpiresAt: &at})
	if err != nil {
		return &kvmodel.Vio{Sig: "inmem/Put/error", What: err.Error()}
	}
	res := make(chan error, nw)
	var leavers []context.CancelFunc
	for i := 0; i < nw; i++ {
		wctx := ctx
		if i < leave { // the first waiters (the ones that registered first) will give up before the expiry
			c, cancelW := context.WithCancel(ctx)
			wctx = c
			leavers = append(leavers, cancelW)
		}
		go func() {
			err := s.WaitForVersionChange(wctx, "a", rec.Version)
			if wctx != ctx && errors.Is(err, context.Canceled) {
				return // a leaver
			}
			res <- err
		}()
		synctest.Wait() // registration order = start order
	}
	synctest.Wait()
	if len(res) != 0 {
		return &kvmodel.Vio{Sig: "inmem/Wait/returned-while-alive", What: fmt.Sprintf("a waiter on the current version of a live record returned %v", <-res)}
	}
	for _, c := range leavers {
		c()
	}
	synctest.Wait()
	nw -= leave
	if exp > 1 { // not woken early
		time.Sleep(time.Duration(exp-1) * kvmodel.BubbleUnit)
		synctest.Wait()
		if len(res) != 0 {
			return &kvmodel.Vio{Sig: "inmem/Wait/returned-before-expiry", What: fmt.Sprintf("a waiter returned %v before the record expired", <-res)}
		}
	}
	time.Sleep(kvmodel.BubbleUnit)
	synctest.Wait()
	if len(res) != nw {
		cancel()
		synctest.Wait()
		return &kvmodel.Vio{Sig: "inmem/expired/Wait/parked-want-ErrNotExist", What: fmt.Sprintf("%d of %d waiters parked on a record are still parked after its expiry passed", nw-len(res), nw)}
	}
	for i := 0; i < nw; i++ {
		if e := <-res; !errors.Is(e, gerrors.ErrNotExist) {
			return &kvmodel.Vio{Sig: "inmem/expired/Wait/error-class", What: fmt.Sprintf("waiter returned %v after the record expired, want ErrNotExist", e)}
		}
	}
	if w := inmem.VerifWaiters(s); len(w) != 0 {
		return &kvmodel.Vio{Sig: "inmem/expired/Wait/table-residue", What: fmt.Sprintf("waiter table not empty after all waiters returned: %v", w)}
	}
	return nil
}

// parkedWaiterRedis: the polling waiter must notice the expiry within 2 polls after the FastForward.
func parkedWaiterRedis(run *report.Run, rs *kvmodel.RedisServer, exp int) *kvmodel.Vio {
	be := rs.Backend()
	ctx, cancel := context.WithCancel(context.Background())
	defer cancel()
	at := time.Now().Add(time.Duration(2*exp-1) * kvmodel.Unit / 2)
	rec, err := be.S.Put(ctx, kvs.Record{Key: "a", Value: []byte("x"), ExpiresAt: &at})
	if err != nil {
		return &kvmodel.Vio{Sig: "redis/Put/error", What: err.Error()}
	}
	var gets atomic.Int64
	rs.MR.Server().SetPreHook(func(_ *server.Peer, cmd string, _ ...string) bool {
		if cmd == "GET" {
			gets.Add(1)
		}
		return false
	})
	defer rs.InstallDefaultHook()
	res := make(chan error, 1)
	go func() { res <- be.S.WaitForVersionChange(ctx, "a", rec.Version) }()
	waitPolls := func(n int64) bool { // logical progress: n more polls reached the server
		target := gets.Load() + n
		deadline := time.Now().Add(20 * time.Second) // watchdog only
		for gets.Load() < target {
			if len(res) > 0 {
				return true
			}
			if time.Now().After(deadline) {
				return false
			}
			time.Sleep(time.Millisecond)
		}
		return true
	}
	if !waitPolls(2) {
		run.Inconclusive("redis waiter did not poll twice within the watchdog")
		return nil
	}
	if len(res) != 0 {
		return &kvmodel.Vio{Sig: "redis/Wait/returned-while-alive", What: fmt.Sprintf("a waiter on the current version of a live record returned %v", <-res)}
	}
	be.Advance(exp)
	if !waitPolls(3) {
		run.Inconclusive("redis waiter did not poll within the watchdog after the expiry")
		return nil
	}
	// the reply of the last counted poll may still be in flight: allow it to be delivered
	select {
	case e := <-res:
		if !errors.Is(e, gerrors.ErrNotExist) {
			return &kvmodel.Vio{Sig: "redis/expired/Wait/error-class", What: fmt.Sprintf("waiter returned %v after the record expired, want ErrNotExist", e)}
		}
	case <-time.After(20 * time.Second):
		return &kvmodel.Vio{Sig: "redis/expired/Wait/parked-want-ErrNotExist", What: "waiter polled 3 more times after the record expired and still has not returned"}
	}
	return nil
}

func replay(t *testing.T, run *report.Run, path string) {
	b, err := os.ReadFile(path)
	if err != nil {
		run.Inconclusive("cannot read replay file: " + err.Error())
		return
	}
	var doc struct {
		Witness kase `json:"witness"`
	}
	if err := json.Unmarshal(b, &doc); err != nil || len(doc.Witness.Ops) == 0 {
		run.Inconclusive("cannot parse replay file (only sequence witnesses can be replayed)")
		return
	}
	run.Eval(1)
	run.DistinctAdd(2)
	run.Sample(doc.Witness)
	var v *kvmodel.Vio
	if doc.Witness.Backend == "redis" {
		rs, err := kvmodel.NewRedisServer()
		if err != nil {
			run.Inconclusive(err.Error())
			return
		}
		defer rs.Close()
		v = runCase(rs.Backend(), doc.Witness, nil, nil)
	} else {
		synctest.Test(t, func(t *testing.T) { v = runCase(kvmodel.InmemBubble(), doc.Witness, nil, nil) })
	}
	if v != nil {
		run.Violation(v.Sig, v.What, doc.Witness)
	} else {
		fmt.Println("REPLAY: no violation on this tree")
	}
}
