// Package locksim is engine E1 for the distributed lock (C01, C04): real goroutines run the real
// kvs/distlock code inside a testing/synctest bubble with frozen time; every call that crosses the
// kvs.Storage boundary parks at a gate and the scheduler (the bubble's main goroutine) decides, after
// bringing the bubble to quiescence, which single action happens next: release a gate (optionally with
// an injected fault), cancel an attempt, leave a critical section, shut a provider down, expire an
// ownerless lock record. Executions are sequences of atomic steps reproducible from the choice list.
package locksim

import (
	"bytes"
	"context"
	"errors"
	"fmt"
	"runtime"
	"sort"
	"strconv"
	"sync"
	"testing/synctest"
	"time"

	"github.com/acquirecloud/golibs/container/iterable"
	"github.com/acquirecloud/golibs/kvs"
	dist "github.com/acquirecloud/golibs/kvs/distlock"
	"github.com/acquirecloud/golibs/kvs/inmem"
	"github.com/acquirecloud/golibs/logging"
	gsync "github.com/acquirecloud/golibs/sync"
	"github.com/acquirecloud/golibs/timeout"
)

type nullLogger struct{}

func (nullLogger) Warnf(string, ...interface{})  {}
func (nullLogger) Infof(string, ...interface{})  {}
func (nullLogger) Debugf(string, ...interface{}) {}
func (nullLogger) Tracef(string, ...interface{}) {}
func (nullLogger) Errorf(string, ...interface{}) {}

// SilenceLogging routes the library's logging to nowhere (stdout carries the verdict lines).
func SilenceLogging() {
	logging.SetConfig(logging.Config{
		NewLoggerF: func(string) logging.Logger { return nullLogger{} },
		SetLevelF:  func(logging.Level) {},
		GetLevelF:  func() logging.Level { return logging.ERROR },
	})
}

// Config describes one scenario.
type Config struct {
	Providers int        `json:"providers"`
	Lockers   []int      `json:"lockers"`  // locker -> provider
	Workers   []int      `json:"workers"`  // worker -> locker
	Programs  [][]string `json:"programs"` // per worker: attempts L (Lock), T (TryLock), C (LockWithCtx)
	Faults    int        `json:"faults"`   // max number of injected storage faults
	Shutdown  bool       `json:"shutdown"` // Shutdown of a provider is a schedulable action
	Cancel    bool       `json:"cancel"`   // cancellation of LockWithCtx attempts is a schedulable action
}

// Chooser picks the next action: given the labels of the enabled actions (progress actions first),
// return an index. It is the only source of non-determinism the harness adds.
type Chooser interface {
	Choose(labels []string, nProgress int) int
}

// Vio is a violation found by the monitors.
type Vio struct {
	Sig  string `json:"sig"`
	What string `json:"what"`
}

// Result of one execution.
type Result struct {
	Vios    []Vio    `json:"vios"`
	Trace   []string `json:"trace"`   // labels of the executed actions
	Choices []int    `json:"choices"` // index chosen at every step
	Steps   int      `json:"steps"`
	Stats   map[string]int
}

var errInjected = errors.New("injected: storage unavailable")

type gateCall struct {
	w       int
	kind    string // begin cs Create Delete Cas Wait
	release chan int
}

const (
	actExec = iota
	actLostReq
	actLostReply
)

type wstate struct {
	goid        int64
	phase       string // idle begin attempt cs done
	attempt     string
	attemptIdx  int
	cancel      context.CancelFunc
	cancelled   bool
	cancelEarly bool // cancelled before the call was made
	afterShut   bool // attempt started after Shutdown of its provider returned
	faulted     bool // a fault was injected into a storage call of this attempt
	holding     bool
	finished    bool
}

type sim struct {
	cfg      Config
	ch       Chooser
	mu       sync.Mutex
	pending  []*gateCall
	ws       []*wstate
	byGoid   map[int64]int
	inner    kvs.Storage
	key      string
	provs    []dist.LockProvider
	lockers  []gsync.Locker
	shut     []bool
	faults   int
	owner    int  // worker whose Create produced the present record (-1 none)
	ownerOK  bool // that worker is between its successful Create and its Unlock's Delete
	holders  int
	res      *Result
	anyFault bool
}

func goid() int64 {
	var buf [64]byte
	n := runtime.Stack(buf[:], false)
	b := buf[:n]
	b = b[len("goroutine "):]
	b = b[:bytes.IndexByte(b, ' ')]
	id, _ := strconv.ParseInt(string(b), 10, 64)
	return id
}

// gateStore is the kvs.Storage handed to the providers.
type gateStore struct{ s *sim }

func (g gateStore) park(kind string) (int, int, bool) {
	s := g.s
	id := goid()
	s.mu.Lock()
	w, ok := s.byGoid[id]
	if !ok {
		s.mu.Unlock()
		return 0, -1, false // not a worker (scheduler epilogue, timer goroutine): ungated
	}
	gc := &gateCall{w: w, kind: kind, release: make(chan int)}
	s.pending = append(s.pending, gc)
	s.mu.Unlock()
	return <-gc.release, w, true
}

func (g gateStore) Create(ctx context.Context, r kvs.Record) (string, error) {
	act, w, gated := g.park("Create")
	if !gated {
		return g.s.inner.Create(ctx, r)
	}
	if act == actLostReq {
		return "", errInjected
	}
	ver, err := g.s.inner.Create(ctx, r)
	if err == nil {
		g.s.mu.Lock()
		g.s.owner, g.s.ownerOK = w, act == actExec
		g.s.mu.Unlock()
	}
	if act == actLostReply {
		return "", errInjected
	}
	return ver, err
}

func (g gateStore) Delete(ctx context.Context, key string) error {
	act, w, gated := g.park("Delete")
	if !gated {
		return g.s.inner.Delete(ctx, key)
	}
	// whatever happens to this Delete, the caller's tenure is over
	g.s.mu.Lock()
	if g.s.owner == w {
		g.s.ownerOK = false
	}
	g.s.mu.Unlock()
	if act == actLostReq {
		return errInjected
	}
	err := g.s.inner.Delete(ctx, key)
	if err == nil {
		g.s.mu.Lock()
		g.s.owner = -1
		g.s.mu.Unlock()
	}
	if act == actLostReply {
		return errInjected
	}
	return err
}

func (g gateStore) CasByVersion(ctx context.Context, r kvs.Record) (kvs.Record, error) {
	act, _, gated := g.park("Cas")
	if !gated {
		return g.s.inner.CasByVersion(ctx, r)
	}
	if act == actLostReq {
		return kvs.Record{}, errInjected
	}
	rec, err := g.s.inner.CasByVersion(ctx, r)
	if act == actLostReply {
		return kvs.Record{}, errInjected
	}
	return rec, err
}

func (g gateStore) WaitForVersionChange(ctx context.Context, key, ver string) error {
	act, _, gated := g.park("Wait")
	if gated && act != actExec {
		return errInjected
	}
	// once released the call runs the real in-memory wait: the real notification path is exercised
	return g.s.inner.WaitForVersionChange(ctx, key, ver)
}

func (g gateStore) Get(ctx context.Context, key string) (kvs.Record, error) {
	return g.s.inner.Get(ctx, key)
}
func (g gateStore) GetMany(ctx context.Context, keys ...string) ([]*kvs.Record, error) {
	return g.s.inner.GetMany(ctx, keys...)
}
func (g gateStore) Put(ctx context.Context, r kvs.Record) (kvs.Record, error) {
	return g.s.inner.Put(ctx, r)
}
func (g gateStore) PutMany(ctx context.Context, rs []kvs.Record) error {
	return g.s.inner.PutMany(ctx, rs)
}
func (g gateStore) ListKeys(ctx context.Context, p string) (iterable.Iterator[string], error) {
	return g.s.inner.ListKeys(ctx, p)
}

func (s *sim) vio(sig, what string) {
	s.res.Vios = append(s.res.Vios, Vio{sig, what})
}

// harness-owned gate (begin / cs)
func (s *sim) ownGate(w int, kind string) {
	gc := &gateCall{w: w, kind: kind, release: make(chan int)}
	s.mu.Lock()
	s.pending = append(s.pending, gc)
	s.mu.Unlock()
	<-gc.release
}

var errCallerGaveUp = errors.New("caller gave up (custom cancellation cause)")

func (s *sim) worker(w int) {
	st := s.ws[w]
	s.mu.Lock()
	st.goid = goid()
	s.byGoid[st.goid] = w
	s.mu.Unlock()
	locker := s.lockers[s.cfg.Workers[w]]
	prov := s.cfg.Lockers[s.cfg.Workers[w]]
	for i, a := range s.cfg.Programs[w] {
		// contexts are cancelled with a custom cause: what LockWithCtx has to return is still ctx.Err()
		ctx, cancelCause := context.WithCancelCause(context.Background())
		cancel := func() { cancelCause(errCallerGaveUp) }
		s.mu.Lock()
		st.phase, st.attempt, st.attemptIdx = "begin", a, i
		st.cancel, st.cancelled, st.cancelEarly, st.faulted = cancel, false, false, false
		s.mu.Unlock()
		s.ownGate(w, "begin")
		s.mu.Lock()
		st.phase = "attempt"
		st.afterShut = s.shut[prov]
		s.mu.Unlock()
		acquired := false
		var err error
		switch a {
		case "L":
			func() {
				defer func() {
					if p := recover(); p != nil {
						err = fmt.Errorf("Lock panicked: %v", p)
					}
				}()
				locker.Lock()
				acquired = true
			}()
		case "T":
			acquired = locker.TryLock(ctx)
		case "C":
			err = locker.LockWithCtx(ctx)
			acquired = err == nil
		}
		s.mu.Lock()
		// ---- monitors at the return of the acquisition call
		if acquired {
			s.holders++
			st.holding = true
			if s.holders > 1 {
				var hs []int
				for j, o := range s.ws {
					if o.holding {
						hs = append(hs, j)
					}
				}
				s.vio("lock/two-holders", fmt.Sprintf("workers %v hold the lock at the same time (worker %d just returned from %s)", hs, w, a))
			}
			if st.afterShut {
				s.vio("lock/acquired-after-shutdown", fmt.Sprintf("worker %d acquired through %s although the attempt started after Shutdown of its provider returned", w, a))
			}
			if st.cancelEarly && a == "C" {
				s.vio("lock/cancelled-before-call-acquired", fmt.Sprintf("worker %d: LockWithCtx returned nil although its context was cancelled before the call", w))
			}
		} else {
			switch {
			case a == "C" && st.cancelEarly && !s.shut[prov] && !errors.Is(err, context.Canceled):
				s.vio("lock/cancelled-before-call-wrong-error", fmt.Sprintf("worker %d: LockWithCtx with an already cancelled context returned %v", w, err))
			case a == "C" && !st.cancelled && !st.faulted && !st.afterShut && !s.shut[prov]:
				s.vio("lock/lockwithctx-failed-without-cause", fmt.Sprintf("worker %d: LockWithCtx returned %v although nothing was cancelled, injected or shut down", w, err))
			case a == "C" && st.cancelled && !st.faulted && !s.shut[prov] && !errors.Is(err, context.Canceled):
				s.vio("lock/cancelled-wrong-error", fmt.Sprintf("worker %d: cancelled LockWithCtx returned %v, want the context's error", w, err))
			case a == "L" && !st.faulted && !st.afterShut && !s.shut[prov]:
				s.vio("lock/lock-failed-without-cause", fmt.Sprintf("worker %d: Lock did not acquire (%v) although nothing was injected or shut down", w, err))
			}
		}
		s.mu.Unlock()
		if acquired {
			s.mu.Lock()
			st.phase = "cs"
			s.mu.Unlock()
			s.ownGate(w, "cs")
			s.mu.Lock()
			s.holders--
			st.holding = false
			st.phase = "unlock"
			s.mu.Unlock()
			locker.Unlock()
		}
		cancel()
		s.mu.Lock()
		st.phase = "idle"
		s.mu.Unlock()
	}
	s.mu.Lock()
	st.phase, st.finished = "done", true
	s.mu.Unlock()
}

// Run executes one scenario inside the calling bubble. idle is the idle timeout given to the timer
// package (virtual time).
func Run(cfg Config, ch Chooser) *Result {
	const idle = time.Second
	timeout.VerifReset(idle, 10)
	s := &sim{cfg: cfg, ch: ch, byGoid: map[int64]int{}, owner: -1, faults: cfg.Faults, res: &Result{Stats: map[string]int{}}}
	s.inner = inmem.New()
	for p := 0; p < cfg.Providers; p++ {
		s.provs = append(s.provs, dist.NewKvsLockProvider(gateStore{s}, "/locks/"))
		s.shut = append(s.shut, false)
	}
	s.key = "/locks/L"
	for _, p := range cfg.Lockers {
		s.lockers = append(s.lockers, s.provs[p].NewLocker("L"))
	}
	for range cfg.Workers {
		s.ws = append(s.ws, &wstate{phase: "idle"})
	}
	for w := range cfg.Workers {
		go s.worker(w)
	}
	bg := context.Background()
	maxSteps := 4000
	for {
		synctest.Wait()
		s.mu.Lock()
		if len(s.res.Vios) > 0 {
			s.mu.Unlock()
			return s.res // the caller reports and ends the process: the bubble is not torn down
		}
		allDone := true
		for _, st := range s.ws {
			if !st.finished {
				allDone = false
			}
		}
		if allDone {
			s.mu.Unlock()
			break
		}
		sort.SliceStable(s.pending, func(i, j int) bool { return s.pending[i].w < s.pending[j].w })
		type action struct {
			label string
			prep  func() // under s.mu
			fire  func() // outside s.mu: hands control to a worker / the library
		}
		var prog, opt []action
		for _, gc := range s.pending {
			gc := gc
			rel := func(act int) (func(), func()) {
				return func() {
						for i, x := range s.pending {
							if x == gc {
								s.pending = append(s.pending[:i], s.pending[i+1:]...)
								break
							}
						}
						if act != actExec {
							s.faults--
							s.anyFault = true
							s.ws[gc.w].faulted = true
							s.res.Stats["fault_"+gc.kind]++
						}
						s.res.Stats["gate_"+gc.kind]++
					}, func() {
						gc.release <- act
					}
			}
			p0, f0 := rel(actExec)
			prog = append(prog, action{fmt.Sprintf("go:w%d:%s", gc.w, gc.kind), p0, f0})
			if s.faults > 0 && gc.kind != "begin" && gc.kind != "cs" {
				p1, f1 := rel(actLostReq)
				opt = append(opt, action{fmt.Sprintf("lostreq:w%d:%s", gc.w, gc.kind), p1, f1})
				if gc.kind == "Create" || gc.kind == "Delete" {
					p2, f2 := rel(actLostReply)
					opt = append(opt, action{fmt.Sprintf("lostreply:w%d:%s", gc.w, gc.kind), p2, f2})
				}
			}
		}
		if _, err := s.inner.Get(bg, s.key); err == nil && !s.ownerOK {
			prog = append(prog, action{"expire-ownerless-record", func() {
				s.res.Stats["expired_ownerless"]++
				s.owner = -1
			}, func() {
				_ = s.inner.Delete(bg, s.key)
			}})
		}
		if cfg.Cancel {
			for w, st := range s.ws {
				w, st := w, st
				if st.attempt == "C" && !st.cancelled && (st.phase == "begin" || st.phase == "attempt") {
					opt = append(opt, action{fmt.Sprintf("cancel:w%d:%s", w, st.phase), func() {
						st.cancelled = true
						st.cancelEarly = st.phase == "begin"
						s.res.Stats["cancel_"+st.phase]++
					}, func() {
						st.cancel()
					}})
				}
			}
		}
		if cfg.Shutdown {
			for p := range s.provs {
				p := p
				if !s.shut[p] {
					opt = append(opt, action{fmt.Sprintf("shutdown:p%d", p), func() {
						s.res.Stats["shutdown"]++
						s.shut[p] = true
					}, func() {
						s.provs[p].Shutdown()
					}})
				}
			}
		}
		if len(prog) == 0 {
			// nobody can make progress although somebody is unfinished: lost wake-up / lost token
			var stuck []string
			for w, st := range s.ws {
				if !st.finished {
					stuck = append(stuck, fmt.Sprintf("w%d:%s:%s", w, st.attempt, st.phase))
				}
			}
			_, gerr := s.inner.Get(bg, s.key)
			s.vio("lock/stuck", fmt.Sprintf("no gate is parked, nobody is in a critical section and no ownerless record exists, yet these workers are unfinished: %v (lock record present: %v, waiter table: %v)", stuck, gerr == nil, inmem.VerifWaiters(s.inner)))
			s.mu.Unlock()
			return s.res
		}
		all := append(append([]action(nil), prog...), opt...)
		labels := make([]string, len(all))
		for i, a := range all {
			labels[i] = a.label
		}
		idx := s.ch.Choose(labels, len(prog))
		if idx < 0 || idx >= len(all) {
			idx = 0
		}
		s.res.Trace = append(s.res.Trace, all[idx].label)
		s.res.Choices = append(s.res.Choices, idx)
		s.res.Steps++
		all[idx].prep()
		fire := all[idx].fire
		s.mu.Unlock()
		fire() // a gate hand-off (the worker is parked on the receive) or a call that does not block
		if s.res.Steps > maxSteps {
			s.mu.Lock()
			s.vio("lock/livelock", fmt.Sprintf("execution did not finish within %d scheduler steps", maxSteps))
			s.mu.Unlock()
			return s.res
		}
	}
	// ---------------- epilogue: residue at quiescence (every holder has unlocked)
	if _, err := s.inner.Get(bg, s.key); err == nil {
		if s.anyFault && !s.ownerOK {
			_ = s.inner.Delete(bg, s.key) // ownerless left-over of an injected fault: its lease would lapse
			s.res.Stats["expired_ownerless"]++
		} else {
			s.vio("lock/residue/record", "every worker is done and every holder has unlocked, but the lock record is still in the store")
		}
	}
	if t := inmem.VerifWaiters(s.inner); len(t) != 0 {
		s.vio("lock/residue/waiter-table", fmt.Sprintf("waiter table not empty at the end: %v", t))
	}
	if _, pend := timeout.VerifState(); pend != 0 {
		// an already armed renewal of a finished tenure is explicitly tolerated by the lease property (C05: "at
		// most one already armed attempt may still reach the storage, it changes nothing"), so this is an
		// observation, not a verdict; the queue is emptied because virtual time must not reach a pending timer
		s.res.Stats["lease_timers_pending_after_all_unlocked"] += pend
		timeout.VerifDrain()
	}
	for i, l := range s.lockers {
		p := cfg.Lockers[i]
		ok := l.TryLock(bg)
		switch {
		case s.shut[p] && ok:
			s.vio("lock/acquired-after-shutdown", fmt.Sprintf("TryLock on locker %d succeeded after Shutdown of its provider", i))
			l.Unlock()
		case !s.shut[p] && !ok:
			s.vio("lock/residue/trylock-false", fmt.Sprintf("at quiescence TryLock on locker %d of a live provider fails: something was left behind (token / counter / record)", i))
		case ok:
			l.Unlock()
		}
	}
	if _, pend := timeout.VerifState(); pend != 0 {
		s.res.Stats["lease_timers_pending_after_all_unlocked"] += pend
		timeout.VerifDrain()
	}
	// let the idle timer workers go (virtual time; nothing is pending, so no timer can come due)
	for i := 0; i < 8; i++ {
		if wk, _ := timeout.VerifState(); wk == 0 {
			break
		}
		time.Sleep(3 * idle)
	}
	if wk, _ := timeout.VerifState(); wk != 0 {
		s.vio("harness/timer-workers-still-alive", fmt.Sprintf("%d timer workers did not wind down", wk))
	}
	for _, p := range s.provs {
		func() {
			defer func() { _ = recover() }()
			p.Shutdown()
		}()
	}
	return s.res
}
