package locksim

import (
	"math/rand"
	"strings"
)

// RandomChooser picks uniformly among the progress actions; with probability POpt (when there are
// optional actions: faults, cancellations, shutdown) it picks uniformly among those instead.
type RandomChooser struct {
	Rng  *rand.Rand
	POpt float64
}

func (c *RandomChooser) Choose(labels []string, nProgress int) int {
	nOpt := len(labels) - nProgress
	if nOpt > 0 && c.Rng.Float64() < c.POpt {
		return nProgress + c.Rng.Intn(nOpt)
	}
	return c.Rng.Intn(nProgress)
}

// PCTChooser is a PCT-style priority scheduler: every worker gets a random priority; the enabled
// progress action of the highest-priority worker runs; at D random step numbers the running worker's
// priority drops below all others. Optional actions are mixed in with probability POpt.
type PCTChooser struct {
	Rng    *rand.Rand
	POpt   float64
	prio   map[string]int
	change map[int]bool
	step   int
	low    int
}

func NewPCT(rng *rand.Rand, d int, expectedSteps int, pOpt float64) *PCTChooser {
	c := &PCTChooser{Rng: rng, POpt: pOpt, prio: map[string]int{}, change: map[int]bool{}}
	for i := 0; i < d; i++ {
		c.change[rng.Intn(expectedSteps)] = true
	}
	return c
}

func workerOf(label string) string {
	f := strings.Split(label, ":")
	if len(f) >= 2 {
		return f[1]
	}
	return label
}

func (c *PCTChooser) Choose(labels []string, nProgress int) int {
	c.step++
	nOpt := len(labels) - nProgress
	if nOpt > 0 && c.Rng.Float64() < c.POpt {
		return nProgress + c.Rng.Intn(nOpt)
	}
	best, bestP := 0, -1<<30
	for i := 0; i < nProgress; i++ {
		w := workerOf(labels[i])
		p, ok := c.prio[w]
		if !ok {
			p = 1000 + c.Rng.Intn(1000)
			c.prio[w] = p
		}
		if p > bestP {
			best, bestP = i, p
		}
	}
	if c.change[c.step] {
		c.low--
		c.prio[workerOf(labels[best])] = c.low
	}
	return best
}

// ReplayChooser follows a recorded choice list (then always takes the first action) and records how
// many actions were enabled at every step — the basis of the stateless DFS.
type ReplayChooser struct {
	Prefix []int
	Ns     []int
	Labels [][]string
	Keep   bool
	i      int
}

func (c *ReplayChooser) Choose(labels []string, nProgress int) int {
	c.Ns = append(c.Ns, len(labels))
	if c.Keep {
		c.Labels = append(c.Labels, append([]string(nil), labels...))
	}
	idx := 0
	if c.i < len(c.Prefix) {
		idx = c.Prefix[c.i]
	}
	c.i++
	if idx >= len(labels) {
		idx = 0
	}
	return idx
}

// NextDFS computes the next choice prefix after an execution that made choices with ns options
// available per step: the deepest step with an untried alternative is advanced. nil = space exhausted.
func NextDFS(choices, ns []int) []int {
	for i := len(choices) - 1; i >= 0; i-- {
		if choices[i]+1 < ns[i] {
			next := append([]int(nil), choices[:i]...)
			return append(next, choices[i]+1)
		}
	}
	return nil
}
