package locksim

import (
	"encoding/json"
	"hash/fnv"
	"math/rand"
	"strings"
)

// GenConfig draws a scenario. kind "c01": faults and cancellation, no shutdown. kind "c04": no
// faults, cancellation, shutdown in about half of the scenarios, re-acquisition programs.
func GenConfig(rng *rand.Rand, kind string) Config {
	var c Config
	switch rng.Intn(6) {
	case 0: // goroutines sharing one Locker
		c.Providers, c.Lockers = 1, []int{0}
		n := 2 + rng.Intn(2)
		for i := 0; i < n; i++ {
			c.Workers = append(c.Workers, 0)
		}
	case 1: // shared Locker plus a foreign one
		c.Providers, c.Lockers = 2, []int{0, 1}
		c.Workers = []int{0, 0, 1}
	default:
		nl := 2 + rng.Intn(3)
		c.Providers = 1 + rng.Intn(3)
		for i := 0; i < nl; i++ {
			c.Lockers = append(c.Lockers, rng.Intn(c.Providers))
			c.Workers = append(c.Workers, i)
		}
		if rng.Intn(3) == 0 { // one more goroutine on locker 0
			c.Workers = append(c.Workers, 0)
		}
	}
	attempts := []string{"L", "T", "C", "C"}
	for range c.Workers {
		n := 1 + rng.Intn(2)
		if kind == "c04" {
			n = 1 + rng.Intn(3)
		}
		var p []string
		for i := 0; i < n; i++ {
			p = append(p, attempts[rng.Intn(len(attempts))])
		}
		c.Programs = append(c.Programs, p)
	}
	c.Cancel = true
	if kind == "c01" {
		c.Faults = rng.Intn(3)
	} else {
		c.Shutdown = rng.Intn(2) == 0
	}
	return c
}

// SmallConfigs are the configurations explored by exhaustive DFS: 2 workers, one acquisition each.
func SmallConfigs(kind string) []Config {
	var res []Config
	topos := []Config{
		{Providers: 1, Lockers: []int{0}, Workers: []int{0, 0}},
		{Providers: 1, Lockers: []int{0, 0}, Workers: []int{0, 1}},
		{Providers: 2, Lockers: []int{0, 1}, Workers: []int{0, 1}},
	}
	for _, t := range topos {
		for _, a := range []string{"L", "T", "C"} {
			for _, b := range []string{"L", "T", "C"} {
				c := t
				c.Programs = [][]string{{a}, {b}}
				c.Cancel = true
				if kind == "c01" {
					c.Faults = 1
				} else {
					c.Shutdown = true
				}
				res = append(res, c)
			}
		}
	}
	return res
}

// HashExec hashes (configuration, trace): the identity of a controlled execution.
func HashExec(c Config, trace []string) uint64 {
	h := fnv.New64a()
	b, _ := json.Marshal(c)
	h.Write(b)
	h.Write([]byte(strings.Join(trace, ",")))
	return h.Sum64()
}
