package locksim

import (
	"encoding/json"
	"fmt"
	"math/rand"
	"os"
	"testing"
	"testing/synctest"

	"verifharness/internal/report"
	"verifharness/internal/shard"
)

// Witness of a controlled execution.
type Witness struct {
	Mode    string   `json:"mode"` // random | pct | dfs | replay
	Config  Config   `json:"config"`
	Choices []int    `json:"choices"`
	Trace   []string `json:"trace"`
}

// Plan says how much the controlled part explores.
type Plan struct {
	Prop      string
	Level     string
	Kind      string // c01 | c04 (scenario generator)
	Mine      func(sig string) bool
	NRandom   func(run *report.Run) int
	DFSBudget func(run *report.Run) int
}

// ChildMain is the body of the TestChild function of a lock check: one shard, one bubble.
func ChildMain(t *testing.T, pl Plan) {
	idx, total, part, ok := shard.Child()
	if !ok {
		t.Skip("not a shard child")
	}
	run := report.New(pl.Prop, pl.Level)
	res := shard.NewResult()
	finish := func() {
		shard.Emit(res)
		os.Exit(0) // the bubble of a violated execution is not torn down
	}
	judge := func(mode string, cfg Config, r *Result) {
		account(res, cfg, r)
		for _, v := range r.Vios {
			if pl.Mine(v.Sig) {
				res.Violation(v.Sig, v.What, Witness{mode, cfg, r.Choices, r.Trace})
			} else {
				res.Counters["signal_of_other_property:"+v.Sig]++
			}
		}
		if len(r.Vios) > 0 {
			finish()
		}
	}
	synctest.Test(t, func(t *testing.T) {
		switch part {
		case "random":
			n := pl.NRandom(run)
			for e := idx; e < n; e += total {
				rng := rand.New(rand.NewSource(run.Seed()*1_000_003 + int64(e)))
				cfg := GenConfig(rng, pl.Kind)
				var ch Chooser
				mode := "random"
				if e%3 == 2 {
					mode = "pct"
					ch = NewPCT(rng, 1+rng.Intn(3), 40, 0.12)
				} else {
					ch = &RandomChooser{Rng: rng, POpt: 0.15}
				}
				r := Run(cfg, ch)
				judge(mode, cfg, r)
				if e < 2 {
					res.Samples = append(res.Samples, Witness{mode, cfg, nil, r.Trace})
				}
			}
		case "dfs":
			cfgs := SmallConfigs(pl.Kind)
			budget := pl.DFSBudget(run)
			for ci := idx; ci < len(cfgs); ci += total {
				cfg := cfgs[ci]
				var prefix []int
				n := 0
				exhausted := false
				for n < budget {
					ch := &ReplayChooser{Prefix: prefix}
					r := Run(cfg, ch)
					n++
					judge("dfs", cfg, r)
					prefix = NextDFS(r.Choices, ch.Ns)
					if prefix == nil {
						exhausted = true
						break
					}
				}
				res.Counters["dfs_configs"]++
				if exhausted {
					res.Counters["dfs_configs_exhausted"]++
				}
			}
		}
	})
	shard.Emit(res)
}

func account(res *shard.Result, cfg Config, r *Result) {
	res.Evals++
	res.Hash(HashExec(cfg, r.Trace))
	res.Counters["scheduler_steps"] += int64(r.Steps)
	for k, v := range r.Stats {
		res.Counters[k] += int64(v)
	}
	if int64(r.Steps) > res.Maxes["max_steps"] {
		res.Maxes["max_steps"] = int64(r.Steps)
	}
}

// Replay re-runs a recorded controlled execution from its choice list.
func Replay(t *testing.T, run *report.Run, path string, mine func(string) bool) {
	b, err := os.ReadFile(path)
	if err != nil {
		run.Inconclusive("cannot read replay file: " + err.Error())
		return
	}
	var doc struct {
		Witness Witness `json:"witness"`
	}
	if err := json.Unmarshal(b, &doc); err != nil || len(doc.Witness.Config.Workers) == 0 {
		run.Inconclusive("cannot parse replay file (free-running witnesses are re-run by seed through the normal check)")
		return
	}
	run.Eval(1)
	run.DistinctAdd(2)
	run.Sample(doc.Witness)
	synctest.Test(t, func(t *testing.T) {
		r := Run(doc.Witness.Config, &ReplayChooser{Prefix: doc.Witness.Choices})
		if len(r.Vios) > 0 {
			for _, v := range r.Vios {
				if mine(v.Sig) {
					run.Violation(v.Sig, v.What, Witness{"replay", doc.Witness.Config, r.Choices, r.Trace})
				}
			}
			run.Finish(t)
			os.Exit(report.ExitCode(1))
		}
	})
	fmt.Println("REPLAY: no violation on this tree")
}
