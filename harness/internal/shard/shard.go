// Package shard runs parts of a check in child processes of the same test binary (one synctest
// bubble at a time per process; a fatal runtime error ends one shard only) and hands their
// observations back to the parent's report.
package shard

import (
	"bufio"
	"bytes"
	"encoding/binary"
	"encoding/json"
	"fmt"
	"os"
	"os/exec"
	"runtime"
	"strconv"
	"strings"
	"sync"
	"syscall"
	"time"

	"verifharness/internal/report"
)

// Vio is a violation found by a child.
type Vio struct {
	Sig     string          `json:"sig"`
	What    string          `json:"what"`
	Witness json.RawMessage `json:"witness"`
}

// Result is what one child reports.
type Result struct {
	Evals    int64            `json:"evals"`
	Classes  []string         `json:"classes"`  // distinct non-trivial case classes seen (strings; the parent unions them)
	Counters map[string]int64 `json:"counters"` // summed by the parent
	Maxes    map[string]int64 `json:"maxes"`    // maxed by the parent
	Vios     []Vio            `json:"vios"`
	Samples  []any            `json:"samples"`
	Inconcl  []string         `json:"inconclusive"`
	HashFile string           `json:"hash_file"` // optional: file of little-endian uint64 hashes of distinct cases (unioned by the parent, then removed)
	hashes   map[uint64]struct{}
}

// Hash registers the hash of a distinct non-trivial case; the set is handed to the parent through a file.
func (r *Result) Hash(h uint64) {
	if r.hashes == nil {
		r.hashes = map[uint64]struct{}{}
	}
	r.hashes[h] = struct{}{}
}

const marker = "SHARD-RESULT "

// Child returns (index, total, part, true) when the process is a shard child.
func Child() (idx, total int, part string, ok bool) {
	v := os.Getenv("VERIF_CHILD")
	if v == "" {
		return 0, 0, "", false
	}
	f := strings.SplitN(v, "/", 3)
	if len(f) != 3 {
		return 0, 0, "", false
	}
	idx, _ = strconv.Atoi(f[0])
	total, _ = strconv.Atoi(f[1])
	return idx, total, f[2], true
}

// Emit prints the child's result for the parent.
func Emit(r *Result) {
	if len(r.hashes) > 0 {
		if f, err := os.CreateTemp("", "verif-hashes-*.bin"); err == nil {
			buf := make([]byte, 0, 8*len(r.hashes))
			for h := range r.hashes {
				buf = binary.LittleEndian.AppendUint64(buf, h)
			}
			_, _ = f.Write(buf)
			_ = f.Close()
			r.HashFile = f.Name()
		}
	}
	b, err := json.Marshal(r)
	if err != nil {
		fmt.Printf("SHARD-ERROR %v\n", err)
		return
	}
	fmt.Printf("%s%s\n", marker, b)
}

// NewResult returns an empty result with helpers.
func NewResult() *Result {
	return &Result{Counters: map[string]int64{}, Maxes: map[string]int64{}}
}

func (r *Result) Violation(sig, what string, witness any) {
	for _, v := range r.Vios { // one witness per signature is enough
		if v.Sig == sig {
			r.Counters["violations_"+sig]++
			return
		}
	}
	b, err := json.Marshal(witness)
	if err != nil {
		b, _ = json.Marshal(fmt.Sprint(witness))
	}
	r.Vios = append(r.Vios, Vio{Sig: sig, What: what, Witness: b})
}

// Run starts n children of the running test binary executing test function childTest with
// VERIF_CHILD=<i>/<n>/<part> and merges their results into run. classes receives the union of the
// children's class strings. A child that dies without a result is a violation (crash) whose log is kept.
func Run(run *report.Run, childTest, part string, n int, timeout time.Duration, extraEnv ...string) map[string]struct{} {
	classes := map[string]struct{}{}
	var mu sync.Mutex
	var wg sync.WaitGroup
	for i := 0; i < n; i++ {
		wg.Add(1)
		go func(i int) {
			defer wg.Done()
			cmd := exec.Command(os.Args[0], "-test.run", "^"+childTest+"$", "-test.count", "1", "-test.timeout", fmt.Sprintf("%ds", int(timeout.Seconds())))
			// a child must not outlive its parent (a parent killed by the driver's watchdog would leave spinning
			// orphans). The death signal is tied to the OS thread that forks: this goroutine keeps its thread until
			// the child is done.
			runtime.LockOSThread()
			cmd.SysProcAttr = &syscall.SysProcAttr{Pdeathsig: syscall.SIGKILL}
			cmd.Env = append(os.Environ(), fmt.Sprintf("VERIF_CHILD=%d/%d/%s", i, n, part))
			cmd.Env = append(cmd.Env, extraEnv...)
			var outb bytes.Buffer
			cmd.Stdout = &outb
			cmd.Stderr = &outb
			err := cmd.Run()
			var res *Result
			sc := bufio.NewScanner(bytes.NewReader(outb.Bytes()))
			sc.Buffer(make([]byte, 1<<20), 1<<28)
			for sc.Scan() {
				line := sc.Text()
				if strings.HasPrefix(line, marker) {
					var r Result
					if json.Unmarshal([]byte(line[len(marker):]), &r) == nil {
						res = &r
					}
				}
			}
			mu.Lock()
			defer mu.Unlock()
			if res == nil {
				vd := os.Getenv("VERIF_DIR")
				if vd == "" {
					vd = "/verif"
				}
				logPath := fmt.Sprintf("%s/replays/%s-%s-shard%d-crash.log", vd, run.ID, part, i)
				_ = os.MkdirAll(vd+"/replays", 0o755)
				_ = os.WriteFile(logPath, outb.Bytes(), 0o644)
				kind := crashKind(outb.String())
				if kind == "watchdog" {
					run.Inconclusive(fmt.Sprintf("shard %d of %s hit the watchdog (%v); log %s", i, part, err, logPath))
				} else {
					run.Violation("crash/"+part+"/"+kind, fmt.Sprintf("shard %d of %s ended without a result (%v); log %s", i, part, err, logPath), map[string]any{"log": logPath})
				}
				return
			}
			run.Eval(int(res.Evals))
			if res.HashFile != "" {
				if b, err := os.ReadFile(res.HashFile); err == nil {
					for i := 0; i+8 <= len(b); i += 8 {
						run.Distinct(binary.LittleEndian.Uint64(b[i:]))
					}
				}
				_ = os.Remove(res.HashFile)
			}
			for _, c := range res.Classes {
				classes[c] = struct{}{}
			}
			for k, v := range res.Counters {
				run.Add(k, v)
			}
			for k, v := range res.Maxes {
				run.Max(k, v)
			}
			for _, s := range res.Samples {
				run.Sample(s)
			}
			for _, m := range res.Inconcl {
				run.Inconclusive(m)
			}
			for _, v := range res.Vios {
				var w any
				_ = json.Unmarshal(v.Witness, &w)
				run.Violation(v.Sig, v.What, w)
			}
		}(i)
	}
	wg.Wait()
	return classes
}

func crashKind(out string) string {
	switch {
	case strings.Contains(out, "WARNING: DATA RACE"):
		return "data-race"
	case strings.Contains(out, "fatal error: checkptr"):
		return "checkptr"
	case strings.Contains(out, "panic: test timed out"):
		return "watchdog"
	case strings.Contains(out, "fatal error: "):
		i := strings.Index(out, "fatal error: ")
		s := out[i+13:]
		if j := strings.IndexByte(s, '\n'); j > 0 {
			s = s[:j]
		}
		return "fatal:" + strings.ReplaceAll(strings.TrimSpace(s), " ", "_")
	case strings.Contains(out, "panic: "):
		i := strings.Index(out, "panic: ")
		s := out[i+7:]
		if j := strings.IndexByte(s, '\n'); j > 0 {
			s = s[:j]
		}
		if len(s) > 50 {
			s = s[:50]
		}
		return "panic:" + strings.ReplaceAll(strings.TrimSpace(s), " ", "_")
	}
	return "unknown"
}
