// Package kvmodel is the executable sequential contract of kvs.Storage (with a logical clock) and the
// step-by-step comparator used by C03 (contract) and C06 (expiry). Versions are opaque: the model
// checks relations between them, never their text.
package kvmodel

import (
	"bytes"
	"context"
	"errors"
	"fmt"
	"sort"
	"strings"
	"time"

	gerrors "github.com/acquirecloud/golibs/errors"
	"github.com/acquirecloud/golibs/kvs"
)

// Unit is the logical clock unit on the real clock / miniredis: expirations are placed at half units, the
// clock moves in whole units; an hour keeps the milliseconds of real time that pass during a sequence
// irrelevant. BubbleUnit is the unit under synctest virtual time, where no real time exists: a second, so
// that thousands of sequences advancing thousands of units each stay far below the int64 nanosecond range
// of the bubble's clock (an overflow there crashes the runtime with "bad g->status in ready").
const (
	Unit       = time.Hour
	BubbleUnit = time.Second
)

type Op struct {
	K    string   `json:"k"`              // Create Get GetMany Put PutMany Cas Delete List Wait Advance
	Key  string   `json:"key,omitempty"`  // single-key ops
	Keys []string `json:"keys,omitempty"` // GetMany / PutMany
	Val  int      `json:"val,omitempty"`  // index into Values
	Exp  int      `json:"exp,omitempty"`  // 0 none; k>0: now+(k-½) units; k<0: now-(|k|-½) units (already past)
	Exps []int    `json:"exps,omitempty"` // PutMany: per-item expiry (overrides Exp when present)
	Ver  string   `json:"ver,omitempty"`  // Cas/Wait version selector: cur stale bogus mine ; Put/PutMany/Create: caller-supplied Version field selector ("", cur, mine)
	Pat  string   `json:"pat,omitempty"`  // List
	N    int      `json:"n,omitempty"`    // Advance units
}

func (o Op) String() string {
	switch o.K {
	case "Create", "Put":
		return fmt.Sprintf("%s(%s,v%d,e%d,ver=%s)", o.K, o.Key, o.Val, o.Exp, o.Ver)
	case "Cas":
		return fmt.Sprintf("Cas(%s,v%d,e%d,%s)", o.Key, o.Val, o.Exp, o.Ver)
	case "PutMany":
		if o.Exps != nil {
			return fmt.Sprintf("PutMany(%v,v%d,e%v,ver=%s)", o.Keys, o.Val, o.Exps, o.Ver)
		}
		return fmt.Sprintf("PutMany(%v,v%d,e%d,ver=%s)", o.Keys, o.Val, o.Exp, o.Ver)
	case "GetMany":
		return fmt.Sprintf("GetMany(%v)", o.Keys)
	case "Get", "Delete":
		return fmt.Sprintf("%s(%s)", o.K, o.Key)
	case "Wait":
		return fmt.Sprintf("Wait(%s,%s)", o.Key, o.Ver)
	case "List":
		return fmt.Sprintf("List(%s)", o.Pat)
	case "Advance":
		return fmt.Sprintf("Advance(%d)", o.N)
	}
	return o.K
}

var Values = [][]byte{nil, {}, []byte("x"), []byte("y")}

// Backend is one storage under test together with its clock.
type Backend struct {
	Name string
	S    kvs.Storage
	// Unit of this backend's clock
	Unit time.Duration
	// Now returns the backend's current time (what the code under test will see / what TTLs are relative to).
	Now func() time.Time
	// Advance moves the backend's clock forward by n units.
	Advance func(n int)
	// RunWait runs a WaitForVersionChange that the model expects to return at once; it reports the
	// result and whether the call returned (false = it is parked although it must not be).
	RunWait func(key, ver string) (err error, returned bool)
	// Tick (optional) lets a few milliseconds of the backend's clock pass: called after writes of records whose
	// expiry already lies in the past (on a real Redis server such a key lives for 1 ms; miniredis has no clock
	// of its own).
	Tick func()
	// StoredTTL (optional, Redis) reports what the server holds for key: presence and remaining time to live
	// (0 = no expiry).
	StoredTTL func(key string) (ttl time.Duration, present bool)
}

// Never1 and Never2 are expiry selectors for instants far beyond any clock movement of a sequence: the year 2300
// and the last second of the year 9999 ("never" sentinels of applications; both lie beyond the int64 nanosecond
// range that ends in 2262).
const (
	Never1 = 1 << 20
	Never2 = 1<<20 + 1
	// ZeroTime: the record carries ExpiresAt = &time.Time{} (a pointer to the zero time, long past)
	ZeroTime = 1<<20 + 2
)

// PastExp says whether an expiry selector denotes an instant that has already passed when the record is written.
func PastExp(e int) bool { return e < 0 || e == ZeroTime }

type mrec struct {
	val      []byte
	ver      string
	verKnown bool
	hasExp   bool
	expHalf  int64     // logical expiry in half units
	expAt    time.Time // the instant that was handed to the backend
	stale    []string  // superseded versions of this key
	callerV  string    // Version field the caller supplied with the last write
	lastW    string    // op kind of the last write
}

type Model struct {
	be        *Backend
	recs      map[string]*mrec
	clockHalf int64
	seen      map[string]bool // every version ever observed / supplied
	mineN     int
	history   map[string][]string // per key: all versions ever known (for stale selectors when key absent)
	// the caller's expiry variables: writes that carry the same logical expiry share ONE *time.Time (as a caller
	// does who computes the instant once); the store must neither change it nor depend on its identity
	ats map[[2]int64]*callerTime
}

type callerTime struct {
	p    *time.Time
	orig time.Time
}

type Vio struct {
	Sig  string
	What string
}

func New(be *Backend) *Model {
	return &Model{be: be, recs: map[string]*mrec{}, seen: map[string]bool{}, history: map[string][]string{}}
}

func (m *Model) present(k string) *mrec {
	r, ok := m.recs[k]
	if !ok {
		return nil
	}
	if r.hasExp && m.clockHalf >= r.expHalf {
		return nil
	}
	return r
}

// Expired reports whether key is physically in the model but logically expired.
func (m *Model) Expired(k string) bool {
	_, ok := m.recs[k]
	return ok && m.present(k) == nil
}

func (m *Model) PresentKeys() []string {
	var res []string
	for k := range m.recs {
		if m.present(k) != nil {
			res = append(res, k)
		}
	}
	sort.Strings(res)
	return res
}

// StateKey is a canonical description of the logical state (for distinct-state counting).
func (m *Model) StateKey() string {
	var sb strings.Builder
	keys := make([]string, 0, len(m.recs))
	for k := range m.recs {
		keys = append(keys, k)
	}
	sort.Strings(keys)
	for _, k := range keys {
		r := m.recs[k]
		st := "P"
		if m.present(k) == nil {
			st = "X"
		}
		e := "-"
		if r.hasExp {
			e = fmt.Sprint(r.expHalf - m.clockHalf)
			if r.expHalf == 1<<60 {
				e = "never"
			}
		}
		fmt.Fprintf(&sb, "%s:%s:%q:%s:%s;", k, st, r.val, e, r.lastW)
	}
	return sb.String()
}

func (m *Model) expiry(exp int) (has bool, half int64, at *time.Time) {
	has, half, at = m.expiryFresh(exp)
	if at == nil {
		return
	}
	if m.ats == nil {
		m.ats = map[[2]int64]*callerTime{}
	}
	k := [2]int64{int64(exp), m.clockHalf}
	if c, ok := m.ats[k]; ok {
		return has, half, c.p
	}
	m.ats[k] = &callerTime{p: at, orig: *at}
	return
}

// callerTimesIntact reports a caller's expiry variable that no longer holds the instant the caller put there.
func (m *Model) callerTimesIntact() *Vio {
	for k, c := range m.ats {
		if !c.p.Equal(c.orig) {
			return &Vio{m.be.Name + "/caller-expiry-modified", fmt.Sprintf("the time.Time a caller handed over as ExpiresAt (selector %d) was %v and is %v now: the store wrote into the caller's variable (other records written with the same pointer change with it)", k[0], c.orig, *c.p)}
		}
	}
	return nil
}

func (m *Model) expiryFresh(exp int) (has bool, half int64, at *time.Time) {
	if exp == 0 {
		return false, 0, nil
	}
	if exp == ZeroTime {
		return true, -(1 << 60), &time.Time{}
	}
	if exp == Never1 || exp == Never2 {
		t := time.Date(2300, 1, 1, 0, 0, 0, 0, time.UTC)
		if exp == Never2 {
			t = time.Date(9999, 12, 31, 23, 59, 59, 0, time.UTC)
		}
		return true, 1 << 60, &t
	}
	var h int64
	if exp > 0 {
		h = m.clockHalf + 2*int64(exp) - 1
	} else {
		h = m.clockHalf - (2*int64(-exp) - 1)
	}
	u := m.be.Unit
	if u == 0 {
		u = Unit
	}
	t := m.be.Now().Add(time.Duration(h-m.clockHalf) * (u / 2))
	return true, h, &t
}

func (m *Model) resolveVer(key, sel string) (string, bool) {
	r := m.present(key)
	switch sel {
	case "cur":
		if r != nil && r.verKnown {
			return r.ver, true
		}
		if rr, ok := m.recs[key]; ok && rr.verKnown { // expired record: its last version
			return rr.ver, true
		}
		return "", false
	case "stale":
		if rr, ok := m.recs[key]; ok && len(rr.stale) > 0 {
			return rr.stale[len(rr.stale)-1], true
		}
		if h := m.history[key]; len(h) > 0 {
			if r == nil || !r.verKnown || h[0] != r.ver {
				return h[0], true
			}
		}
		return "", false
	case "mine":
		if rr, ok := m.recs[key]; ok && rr.callerV != "" {
			return rr.callerV, true
		}
		return "mine-unused", true
	case "bogus":
		return "no-such-version", true
	case "":
		return "", true
	}
	return "", false
}

// Applicable says whether the op can be generated in the current model state (version selectors
// that cannot be resolved are skipped by generators).
func (m *Model) Applicable(o Op) bool {
	switch o.K {
	case "Cas", "Wait":
		_, ok := m.resolveVer(o.Key, o.Ver)
		if !ok {
			return false
		}
		if o.K == "Wait" {
			// only waits that the contract says return immediately are generated here
			r := m.present(o.Key)
			if r != nil {
				v, _ := m.resolveVer(o.Key, o.Ver)
				if !r.verKnown || v == r.ver {
					return false
				}
			}
		}
		if o.K == "Cas" {
			r := m.present(o.Key)
			if r != nil && !r.verKnown && o.Ver == "cur" {
				return false
			}
		}
	case "Put", "PutMany", "Create":
		if o.Ver == "cur" {
			keys := o.Keys
			if o.K != "PutMany" {
				keys = []string{o.Key}
			}
			for _, k := range keys {
				if _, ok := m.resolveVer(k, "cur"); ok {
					return true
				}
			}
			return false
		}
	}
	return true
}

func (m *Model) noteVersion(key, v string) {
	m.seen[v] = true
	m.history[key] = append(m.history[key], v)
}

func (m *Model) write(key string, val []byte, hasExp bool, half int64, at *time.Time, ver string, known bool, callerV, kind string) {
	old := m.recs[key]
	nr := &mrec{val: val, ver: ver, verKnown: known, hasExp: hasExp, expHalf: half, callerV: callerV, lastW: kind}
	if at != nil {
		nr.expAt = *at
	}
	if old != nil {
		nr.stale = old.stale
		if old.verKnown {
			nr.stale = append(append([]string(nil), old.stale...), old.ver)
		}
	}
	m.recs[key] = nr
	if known {
		m.noteVersion(key, ver)
	}
}

func (m *Model) drop(key string) {
	delete(m.recs, key)
}

func errClass(err error) string {
	switch {
	case err == nil:
		return "nil"
	case errors.Is(err, gerrors.ErrExist):
		return "ErrExist"
	case errors.Is(err, gerrors.ErrNotExist):
		return "ErrNotExist"
	case errors.Is(err, gerrors.ErrConflict):
		return "ErrConflict"
	case errors.Is(err, context.Canceled), errors.Is(err, context.DeadlineExceeded):
		return "ctx"
	}
	return "other(" + err.Error() + ")"
}

// freshVersion checks a version returned by a successful write.
func (m *Model) freshVersion(be, op, key, v, callerV string) *Vio {
	if v == "" {
		return &Vio{be + "/" + op + "/empty-version", fmt.Sprintf("%s(%s) succeeded with an empty version", op, key)}
	}
	if v == callerV && callerV != "" {
		return &Vio{be + "/" + op + "/version-is-callers", fmt.Sprintf("%s(%s) stored the caller-supplied version %q instead of a new one", op, key, v)}
	}
	if m.seen[v] {
		return &Vio{be + "/" + op + "/version-not-fresh", fmt.Sprintf("%s(%s) produced version %q that was handed out / seen before", op, key, v)}
	}
	return nil
}

// bind is called when a read reports version v for a present key.
func (m *Model) bind(be, reader, key string, r *mrec, v string) *Vio {
	if r.verKnown {
		if v != r.ver {
			return &Vio{be + "/" + reader + "/wrong-version", fmt.Sprintf("%s(%s) reports version %q, the last write (%s) produced %q", reader, key, v, r.lastW, r.ver)}
		}
		return nil
	}
	// version of a PutMany item: first observation; must be fresh
	if vio := m.freshVersion(be, r.lastW, key, v, r.callerV); vio != nil {
		vio.What += " (observed through " + reader + ")"
		return vio
	}
	r.ver, r.verKnown = v, true
	m.noteVersion(key, v)
	return nil
}

func (m *Model) checkRecord(be, reader, key string, r *mrec, got kvs.Record) *Vio {
	if got.Key != key {
		return &Vio{be + "/" + reader + "/wrong-key", fmt.Sprintf("%s(%s) returned a record with key %q", reader, key, got.Key)}
	}
	if !bytes.Equal(got.Value, r.val) {
		return &Vio{be + "/" + reader + "/wrong-value", fmt.Sprintf("%s(%s) returned value %q, last written %q", reader, key, got.Value, r.val)}
	}
	if r.hasExp {
		if got.ExpiresAt == nil || !got.ExpiresAt.Equal(r.expAt) {
			return &Vio{be + "/" + reader + "/wrong-expiry", fmt.Sprintf("%s(%s) returned expiry %v, last written %v", reader, key, got.ExpiresAt, r.expAt)}
		}
	} else if got.ExpiresAt != nil {
		return &Vio{be + "/" + reader + "/wrong-expiry", fmt.Sprintf("%s(%s) returned expiry %v, the record was written without one", reader, key, got.ExpiresAt)}
	}
	return m.bind(be, reader, key, r, got.Version)
}

// Step applies o to the backend and to the model and returns the first divergence. Calls run under
// recover; a panic is a divergence.
func (m *Model) Step(o Op) (vio *Vio) {
	vio = m.step(o)
	if vio != nil {
		return vio
	}
	if v := m.callerTimesIntact(); v != nil {
		v.What = fmt.Sprintf("after %s: %s", o, v.What)
		return v
	}
	if m.be.Tick != nil {
		past := PastExp(o.Exp)
		for _, e := range o.Exps {
			past = past || PastExp(e)
		}
		if past && (o.K == "Put" || o.K == "PutMany" || o.K == "Cas" || o.K == "Create") {
			m.be.Tick()
		}
	}
	return m.checkStored(o)
}

// checkStored compares, for every key the operation wrote, what the server holds with what was given: the key is
// there and it has a time to live iff the record was given an expiry, of about the given length.
func (m *Model) checkStored(o Op) *Vio {
	if m.be.StoredTTL == nil {
		return nil
	}
	switch o.K {
	case "Put", "PutMany", "Cas", "Create":
	default:
		return nil
	}
	keys := o.Keys
	if o.Key != "" {
		keys = []string{o.Key}
	}
	u := m.be.Unit
	if u == 0 {
		u = Unit
	}
	for _, k := range keys {
		r := m.present(k)
		if r == nil {
			continue
		}
		ttl, ok := m.be.StoredTTL(k)
		if !ok {
			return &Vio{m.be.Name + "/" + o.K + "/stored/absent", fmt.Sprintf("after %s the key %q is present by contract but the server does not hold it", o, k)}
		}
		if !r.hasExp {
			if ttl != 0 {
				return &Vio{m.be.Name + "/" + o.K + "/stored/ttl-without-expiry", fmt.Sprintf("after %s the record of %q was last written (%s) without an expiry but the server holds it with a time to live of %v", o, k, r.lastW, ttl)}
			}
			continue
		}
		if ttl == 0 {
			return &Vio{m.be.Name + "/" + o.K + "/stored/expiry-without-ttl", fmt.Sprintf("after %s the record of %q was last written (%s) with an expiry but the server holds it without a time to live", o, k, r.lastW)}
		}
		if r.expHalf == 1<<60 {
			if ttl < 200*365*24*time.Hour {
				return &Vio{m.be.Name + "/" + o.K + "/stored/ttl-differs", fmt.Sprintf("after %s the record of %q was last written (%s) with an expiry centuries away but the server's time to live is %v", o, k, r.lastW, ttl)}
			}
			continue
		}
		want := time.Duration(r.expHalf-m.clockHalf) * (u / 2)
		if d := ttl - want; d > u/4 || d < -u/4 {
			return &Vio{m.be.Name + "/" + o.K + "/stored/ttl-differs", fmt.Sprintf("after %s the record of %q was last written (%s) with an expiry %v ahead but the server's time to live is %v", o, k, r.lastW, want, ttl)}
		}
	}
	return nil
}

func (m *Model) step(o Op) (vio *Vio) {
	be := m.be.Name
	ctx := context.Background()
	expiredTouch := ""
	keysOf := o.Keys
	if o.Key != "" {
		keysOf = []string{o.Key}
	}
	for _, k := range keysOf {
		if m.Expired(k) {
			expiredTouch = "expired/"
		}
	}
	pfx := be + "/" + expiredTouch
	defer func() {
		if p := recover(); p != nil {
			vio = &Vio{pfx + o.K + "/panic", fmt.Sprintf("%s panicked: %v", o, p)}
		}
	}()
	wrongErr := func(got error, want string) *Vio {
		return &Vio{pfx + o.K + "/error-class:" + short(errClass(got)) + "-want-" + want, fmt.Sprintf("%s returned %s, the contract prescribes %s", o, errClass(got), want)}
	}
	switch o.K {
	case "Advance":
		m.be.Advance(o.N)
		m.clockHalf += 2 * int64(o.N)
		return nil

	case "Create":
		has, half, at := m.expiry(o.Exp)
		callerV, _ := m.resolveVer(o.Key, o.Ver)
		ver, err := m.be.S.Create(ctx, kvs.Record{Key: o.Key, Value: Values[o.Val], Version: callerV, ExpiresAt: at})
		if callerV != "" {
			m.seen[callerV] = true
		}
		if r := m.present(o.Key); r != nil {
			if errClass(err) != "ErrExist" {
				return wrongErr(err, "ErrExist")
			}
			if ver == "" && !r.verKnown {
				return &Vio{pfx + "Create/exist-version", fmt.Sprintf("%s on a present key reports version %q with ErrExist, the contract prescribes the stored version", o, ver)}
			}
			if r.verKnown && ver != r.ver {
				return &Vio{pfx + "Create/exist-version", fmt.Sprintf("%s on a present key reports version %q with ErrExist, stored version is %q", o, ver, r.ver)}
			}
			if !r.verKnown {
				if v := m.bind(pfx[:len(pfx)-1], "Create", o.Key, r, ver); v != nil {
					return v
				}
			}
			return nil
		}
		if err != nil {
			return wrongErr(err, "nil")
		}
		if v := m.freshVersion(pfx[:len(pfx)-1], "Create", o.Key, ver, callerV); v != nil {
			return v
		}
		m.drop(o.Key)
		m.write(o.Key, Values[o.Val], has, half, at, ver, true, callerV, "Create")
		return nil

	case "Get":
		got, err := m.be.S.Get(ctx, o.Key)
		r := m.present(o.Key)
		if r == nil {
			if errClass(err) != "ErrNotExist" {
				return wrongErr(err, "ErrNotExist")
			}
			return nil
		}
		if err != nil {
			return wrongErr(err, "nil")
		}
		return m.checkRecord(pfx[:len(pfx)-1], "Get", o.Key, r, got)

	case "GetMany":
		got, err := m.be.S.GetMany(ctx, o.Keys...)
		if err != nil {
			return wrongErr(err, "nil")
		}
		var found []*kvs.Record
		for _, g := range got {
			if g != nil {
				found = append(found, g)
			}
		}
		var want []string
		for _, k := range o.Keys {
			if m.present(k) != nil {
				want = append(want, k)
			}
		}
		if len(found) != len(want) {
			return &Vio{pfx + "GetMany/record-count", fmt.Sprintf("%s returned %d records, %d of the keys are present (%v)", o, len(found), len(want), want)}
		}
		for i, g := range found {
			if v := m.checkRecord(pfx[:len(pfx)-1], "GetMany", want[i], m.present(want[i]), *g); v != nil {
				return v
			}
		}
		if len(got) == len(o.Keys) {
			for i, g := range got {
				if g != nil && g.Key != o.Keys[i] {
					return &Vio{pfx + "GetMany/misaligned", fmt.Sprintf("%s: slot %d holds key %q", o, i, g.Key)}
				}
			}
		}
		return nil

	case "Put":
		has, half, at := m.expiry(o.Exp)
		callerV, _ := m.resolveVer(o.Key, o.Ver)
		got, err := m.be.S.Put(ctx, kvs.Record{Key: o.Key, Value: Values[o.Val], Version: callerV, ExpiresAt: at})
		if callerV != "" {
			m.seen[callerV] = true
		}
		if err != nil {
			return wrongErr(err, "nil")
		}
		if v := m.freshVersion(pfx[:len(pfx)-1], "Put", o.Key, got.Version, callerV); v != nil {
			return v
		}
		if got.Key != o.Key || !bytes.Equal(got.Value, Values[o.Val]) {
			return &Vio{pfx + "Put/returned-record", fmt.Sprintf("%s returned record {%q,%q}", o, got.Key, got.Value)}
		}
		m.write(o.Key, Values[o.Val], has, half, at, got.Version, true, callerV, "Put")
		return nil

	case "PutMany":
		recs := make([]kvs.Record, len(o.Keys))
		callers := make([]string, len(o.Keys))
		type ex struct {
			has  bool
			half int64
			at   *time.Time
		}
		exs := make([]ex, len(o.Keys))
		for i, k := range o.Keys {
			cv, ok := m.resolveVer(k, o.Ver)
			if !ok {
				cv = ""
			}
			callers[i] = cv
			e := o.Exp
			if i < len(o.Exps) {
				e = o.Exps[i]
			}
			exs[i].has, exs[i].half, exs[i].at = m.expiry(e)
			// value differs per position so that "last one wins" is observable for repeated keys
			recs[i] = kvs.Record{Key: k, Value: Values[(o.Val+i)%len(Values)], Version: cv, ExpiresAt: exs[i].at}
		}
		err := m.be.S.PutMany(ctx, recs)
		for _, cv := range callers {
			if cv != "" {
				m.seen[cv] = true
			}
		}
		if err != nil {
			return wrongErr(err, "nil")
		}
		for i, k := range o.Keys {
			m.write(k, recs[i].Value, exs[i].has, exs[i].half, exs[i].at, "", false, callers[i], "PutMany")
		}
		return nil

	case "Cas":
		has, half, at := m.expiry(o.Exp)
		ver, _ := m.resolveVer(o.Key, o.Ver)
		got, err := m.be.S.CasByVersion(ctx, kvs.Record{Key: o.Key, Value: Values[o.Val], Version: ver, ExpiresAt: at})
		r := m.present(o.Key)
		if r == nil {
			if errClass(err) != "ErrNotExist" {
				return wrongErr(err, "ErrNotExist")
			}
			return nil
		}
		if !r.verKnown {
			// version of a PutMany item not observed yet: the only thing the caller may not have is that version
			switch errClass(err) {
			case "ErrConflict":
				return nil
			case "nil":
				return &Vio{pfx + "Cas/succeeded-with-foreign-version", fmt.Sprintf("%s succeeded with version %q although the record was last written by PutMany and its version was never handed out", o, ver)}
			}
			return wrongErr(err, "ErrConflict")
		}
		if ver != r.ver {
			if errClass(err) != "ErrConflict" {
				return wrongErr(err, "ErrConflict")
			}
			return nil
		}
		if err != nil {
			return wrongErr(err, "nil")
		}
		if v := m.freshVersion(pfx[:len(pfx)-1], "Cas", o.Key, got.Version, ver); v != nil {
			return v
		}
		if got.Key != o.Key || !bytes.Equal(got.Value, Values[o.Val]) {
			return &Vio{pfx + "Cas/returned-record", fmt.Sprintf("%s returned record {%q,%q}", o, got.Key, got.Value)}
		}
		m.write(o.Key, Values[o.Val], has, half, at, got.Version, true, "", "Cas")
		return nil

	case "Delete":
		err := m.be.S.Delete(ctx, o.Key)
		if m.present(o.Key) == nil {
			if errClass(err) != "ErrNotExist" {
				return wrongErr(err, "ErrNotExist")
			}
			m.drop(o.Key)
			return nil
		}
		if err != nil {
			return wrongErr(err, "nil")
		}
		m.drop(o.Key)
		return nil

	case "List":
		it, err := m.be.S.ListKeys(ctx, o.Pat)
		if err != nil {
			return wrongErr(err, "nil")
		}
		// a second listing is opened (and drained first) before the first one is read: iterators are independent
		// of each other (nothing is written in between, so both have one well-defined content)
		it2, err2 := m.be.S.ListKeys(ctx, "*")
		if err2 != nil {
			return wrongErr(err2, "nil")
		}
		all := map[string]bool{}
		for n2 := 0; it2.HasNext(); n2++ {
			k, ok := it2.Next()
			if !ok || n2 > 10000 {
				break
			}
			all[k] = true
		}
		_ = it2.Close()
		for _, k := range m.PresentKeys() {
			if !all[k] {
				return &Vio{be + "/List/missing-key", fmt.Sprintf("%s: a listing of \"*\" opened right after it misses the present key %q (got %v)", o, k, all)}
			}
		}
		gotSet := map[string]bool{}
		n := 0
		for it.HasNext() {
			k, ok := it.Next()
			if !ok {
				break
			}
			gotSet[k] = true
			if n++; n > 10000 {
				return &Vio{pfx + "List/endless", fmt.Sprintf("%s: iterator does not end", o)}
			}
		}
		_ = it.Close()
		exp := ""
		var missing, extra []string
		// the empty key against patterns with '?': the glob library of the in-memory backend lets '?' match nothing
		// at all, Redis does not - not judged
		skip := func(k string) bool { return k == "" && strings.Contains(o.Pat, "?") }
		for _, k := range m.PresentKeys() {
			if Match(o.Pat, k) && !gotSet[k] && !skip(k) {
				missing = append(missing, k)
			}
		}
		for k := range gotSet {
			if skip(k) {
				continue
			}
			if m.present(k) == nil || !Match(o.Pat, k) {
				extra = append(extra, k)
				if m.Expired(k) {
					exp = "expired/"
				}
			}
		}
		sort.Strings(extra)
		if len(missing) > 0 {
			return &Vio{be + "/List/missing-key", fmt.Sprintf("%s misses present matching keys %v", o, missing)}
		}
		if len(extra) > 0 {
			return &Vio{be + "/" + exp + "List/extra-key", fmt.Sprintf("%s lists %v which are absent, expired or do not match", o, extra)}
		}
		return nil

	case "Wait":
		ver, _ := m.resolveVer(o.Key, o.Ver)
		err, returned := m.be.RunWait(o.Key, ver)
		if errors.Is(err, ErrWatchdog) {
			return &Vio{"inconclusive/" + be + "/Wait", fmt.Sprintf("%s: harness watchdog (120 s) - neither returned nor seen parked", o)}
		}
		want := "ErrNotExist"
		if m.present(o.Key) != nil {
			want = "nil"
		}
		if !returned {
			return &Vio{pfx + "Wait/parked-want-" + want, fmt.Sprintf("%s does not return although the contract prescribes %s at once", o, want)}
		}
		if errClass(err) != want {
			return wrongErr(err, want)
		}
		return nil
	}
	return &Vio{"harness/unknown-op", o.K}
}

func short(s string) string {
	if i := strings.IndexByte(s, '('); i > 0 {
		rest := s[i+1:]
		// keep a stable prefix of the foreign error text
		rest = strings.TrimSuffix(rest, ")")
		if len(rest) > 28 {
			rest = rest[:28]
		}
		rest = strings.Map(func(r rune) rune {
			if r == ' ' || r == ':' {
				return '_'
			}
			return r
		}, rest)
		return "other:" + rest
	}
	return s
}

// Match implements the glob subset used by the generators: literals, '*', '?', and one-character
// classes like [ab]. ('*' and '?' also match '/': neither backend is given separators.)
func Match(pat, s string) bool {
	if pat == "" {
		return s == ""
	}
	switch pat[0] {
	case '*':
		for i := 0; i <= len(s); i++ {
			if Match(pat[1:], s[i:]) {
				return true
			}
		}
		return false
	case '?':
		return len(s) > 0 && Match(pat[1:], s[1:])
	case '[':
		end := strings.IndexByte(pat, ']')
		if end < 0 || len(s) == 0 {
			return false
		}
		if !strings.ContainsRune(pat[1:end], rune(s[0])) {
			return false
		}
		return Match(pat[end+1:], s[1:])
	}
	return len(s) > 0 && s[0] == pat[0] && Match(pat[1:], s[1:])
}
