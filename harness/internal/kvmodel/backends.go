package kvmodel

import (
	"context"
	"errors"
	"sync/atomic"
	"testing/synctest"
	"time"

	"github.com/acquirecloud/golibs/kvs"
	"github.com/acquirecloud/golibs/kvs/inmem"
	gredis "github.com/acquirecloud/golibs/kvs/redis"
	"github.com/alicebob/miniredis/v2"
	"github.com/alicebob/miniredis/v2/server"
	"github.com/go-redis/redis/v8"
)

// InmemBubble returns a fresh in-memory store driven by the virtual clock of the calling synctest bubble.
func InmemBubble() *Backend {
	s := inmem.New()
	return &Backend{
		Name:    "inmem",
		S:       s,
		Now:     time.Now,
		Unit:    BubbleUnit,
		Advance: func(n int) { time.Sleep(time.Duration(n) * BubbleUnit) },
		RunWait: func(key, ver string) (error, bool) {
			ctx, cancel := context.WithCancel(context.Background())
			defer cancel()
			ch := make(chan error, 1)
			go func() { ch <- s.WaitForVersionChange(ctx, key, ver) }()
			synctest.Wait()
			select {
			case err := <-ch:
				return err, true
			default:
			}
			cancel()
			synctest.Wait()
			<-ch
			return nil, false
		},
	}
}

// ErrWatchdog is returned by RunWait when neither "returned" nor "parked" could be established (inconclusive).
var ErrWatchdog = errors.New("harness watchdog: the wait neither returned nor was seen parked")

// InmemPlain returns a fresh in-memory store on the real clock (no Advance).
func InmemPlain() *Backend {
	s := inmem.New()
	return &Backend{
		Name:    "inmem",
		S:       s,
		Unit:    Unit,
		Now:     time.Now,
		Advance: func(n int) { panic("no clock control on the plain in-memory backend") },
		RunWait: func(key, ver string) (error, bool) {
			// the model only issues waits that must return at once; "parked" is decided logically: the
			// waiter table (hook) shows the waiter registered. No deadline decides.
			ctx, cancel := context.WithCancel(context.Background())
			defer cancel()
			ch := make(chan error, 1)
			go func() { ch <- s.WaitForVersionChange(ctx, key, ver) }()
			t0 := time.Now()
			for {
				select {
				case err := <-ch:
					return err, true
				case <-time.After(200 * time.Microsecond):
				}
				if inmem.VerifWaiters(s)[key] > 0 {
					cancel()
					<-ch
					return nil, false
				}
				if time.Since(t0) > 120*time.Second {
					cancel()
					<-ch
					return ErrWatchdog, true
				}
			}
		},
	}
}

// RedisServer is one miniredis instance with a client of the backend under test.
type RedisServer struct {
	MR   *miniredis.Miniredis
	S    kvs.Storage
	Gets atomic.Int64 // GET commands that reached the server (default pre-hook)
}

// InstallDefaultHook (re)installs the pre-hook that counts GET commands.
func (rs *RedisServer) InstallDefaultHook() {
	rs.MR.Server().SetPreHook(func(_ *server.Peer, cmd string, _ ...string) bool {
		if cmd == "GET" {
			rs.Gets.Add(1)
		}
		return false
	})
}

func NewRedisServer() (*RedisServer, error) {
	mr, err := miniredis.Run()
	if err != nil {
		return nil, err
	}
	s := gredis.New(&redis.Options{Addr: mr.Addr()})
	rs := &RedisServer{MR: mr, S: s}
	rs.InstallDefaultHook()
	return rs, nil
}

func (rs *RedisServer) Close() {
	if c, ok := rs.S.(interface{ Close() error }); ok {
		_ = c.Close()
	}
	rs.MR.Close()
}

// Backend returns a Backend view after flushing the server (miniredis never expires keys on its
// own; its clock is the sum of the FastForward calls, which is what Advance does).
func (rs *RedisServer) Backend() *Backend {
	rs.MR.FlushAll()
	return &Backend{
		Name:    "redis",
		S:       rs.S,
		Now:     time.Now,
		Unit:    Unit,
		Advance: func(n int) { rs.MR.FastForward(time.Duration(n) * Unit) },
		Tick:    func() { rs.MR.FastForward(5 * time.Millisecond) },
		StoredTTL: func(key string) (time.Duration, bool) {
			for len(key) > 0 && key[0] == '/' { // the backend's key mapping: leading slashes dropped, "/kvs/" prefix
				key = key[1:]
			}
			k := "/kvs/" + key
			if !rs.MR.Exists(k) {
				return 0, false
			}
			return rs.MR.TTL(k), true
		},
		RunWait: func(key, ver string) (error, bool) {
			// the backend polls: "parked" = three polls reached the server after the call started and it has
			// still not returned (logical steps, counted by the pre-hook). No deadline decides.
			ctx, cancel := context.WithCancel(context.Background())
			defer cancel()
			start := rs.Gets.Load()
			ch := make(chan error, 1)
			go func() { ch <- rs.S.WaitForVersionChange(ctx, key, ver) }()
			t0 := time.Now()
			for {
				select {
				case err := <-ch:
					return err, true
				case <-time.After(500 * time.Microsecond):
				}
				if rs.Gets.Load()-start >= 3 {
					select { // the reply of the last poll may be on its way
					case err := <-ch:
						return err, true
					case <-time.After(50 * time.Millisecond):
					}
					if rs.Gets.Load()-start >= 4 {
						cancel()
						<-ch
						return nil, false
					}
				}
				if time.Since(t0) > 120*time.Second {
					cancel()
					<-ch
					return ErrWatchdog, true
				}
			}
		},
	}
}
