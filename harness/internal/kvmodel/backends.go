package kvmodel

import (
	"context"
	"testing/synctest"
	"time"

	"github.com/acquirecloud/golibs/kvs"
	"github.com/acquirecloud/golibs/kvs/inmem"
	gredis "github.com/acquirecloud/golibs/kvs/redis"
	"github.com/alicebob/miniredis/v2"
	"github.com/go-redis/redis/v8"
)

// InmemBubble returns a fresh in-memory store driven by the virtual clock of the calling synctest bubble.
func InmemBubble() *Backend {
	s := inmem.New()
	return &Backend{
		Name:    "inmem",
		S:       s,
		Now:     time.Now,
		Advance: func(n int) { time.Sleep(time.Duration(n) * Unit) },
		RunWait: func(key, ver string) (error, bool) {
			ctx, cancel := context.WithCancel(context.Background())
			defer cancel()
			ch := make(chan error, 1)
			go func() { ch <- s.WaitForVersionChange(ctx, key, ver) }()
			synctest.Wait()
			select {
			case err := <-ch:
				return err, true
			default:
			}
			cancel()
			synctest.Wait()
			<-ch
			return nil, false
		},
	}
}

// InmemPlain returns a fresh in-memory store on the real clock (no Advance).
func InmemPlain() *Backend {
	s := inmem.New()
	return &Backend{
		Name:    "inmem",
		S:       s,
		Now:     time.Now,
		Advance: func(n int) { panic("no clock control on the plain in-memory backend") },
		RunWait: realWait(s),
	}
}

func realWait(s kvs.Storage) func(key, ver string) (error, bool) {
	return func(key, ver string) (error, bool) {
		// The model only issues waits that must return at once; the deadline is a watchdog whose
		// firing means "parked" (healthy: microseconds; broken: never).
		ctx, cancel := context.WithTimeout(context.Background(), 5*time.Second)
		defer cancel()
		err := s.WaitForVersionChange(ctx, key, ver)
		if err != nil && ctx.Err() != nil {
			return nil, false
		}
		return err, true
	}
}

// RedisServer is one miniredis instance with a client of the backend under test.
type RedisServer struct {
	MR *miniredis.Miniredis
	S  kvs.Storage
}

func NewRedisServer() (*RedisServer, error) {
	mr, err := miniredis.Run()
	if err != nil {
		return nil, err
	}
	s := gredis.New(&redis.Options{Addr: mr.Addr()})
	return &RedisServer{MR: mr, S: s}, nil
}

func (rs *RedisServer) Close() {
	if c, ok := rs.S.(interface{ Close() error }); ok {
		_ = c.Close()
	}
	rs.MR.Close()
}

// Backend returns a Backend view after flushing the server (miniredis never expires keys on its
// own; its clock is the sum of the FastForward calls, which is what Advance does).
func (rs *RedisServer) Backend() *Backend {
	rs.MR.FlushAll()
	return &Backend{
		Name:    "redis",
		S:       rs.S,
		Now:     time.Now,
		Advance: func(n int) { rs.MR.FastForward(time.Duration(n) * Unit) },
		RunWait: realWait(rs.S),
	}
}
