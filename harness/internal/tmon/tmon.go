// Package tmon is the per-future monitor and the drain detector for the timeout package (C12, C13).
// Real clock; verdicts use one-sided bounds (never early), logical state read through verif hooks
// (pending / workers under the package lock) and, for lateness, a bound guarded by a stall canary.
package tmon

import (
	"fmt"
	"runtime"
	"strings"
	"sync"
	"sync/atomic"
	"time"

	"github.com/acquirecloud/golibs/timeout"
)

type Fut struct {
	ID      int
	D       time.Duration // delay given to Call
	Before  time.Duration // monotonic time just before Call
	After   time.Duration // monotonic time just after Call returned
	Block   time.Duration // how long the callback blocks
	Far     bool          // far-future: always cancelled by the workload, never expected to start
	started atomic.Int32
	startAt atomic.Int64

	mu        sync.Mutex
	cancelRet []time.Duration // return times of Cancel calls
	f         timeout.Future
}

func (f *Fut) Started() int           { return int(f.started.Load()) }
func (f *Fut) StartAt() time.Duration { return time.Duration(f.startAt.Load()) }
func (f *Fut) Due() time.Duration     { return f.Before + f.D }
func (f *Fut) Cancels() []time.Duration {
	f.mu.Lock()
	defer f.mu.Unlock()
	return append([]time.Duration(nil), f.cancelRet...)
}

type Mon struct {
	Base time.Time
	mu   sync.Mutex
	futs []*Fut
	// OnStart is called inside every callback (after the start has been recorded)
	OnStart func(f *Fut)
}

func New() *Mon { return &Mon{Base: time.Now()} }

func (m *Mon) Now() time.Duration { return time.Since(m.Base) }

// Call schedules a monitored function.
func (m *Mon) Call(d, block time.Duration, far bool) *Fut {
	fu := &Fut{D: d, Block: block, Far: far}
	m.mu.Lock()
	fu.ID = len(m.futs)
	m.futs = append(m.futs, fu)
	m.mu.Unlock()
	fu.Before = m.Now()
	fu.f = timeout.Call(func() {
		at := m.Now()
		if fu.started.Add(1) == 1 {
			fu.startAt.Store(int64(at))
		}
		if m.OnStart != nil {
			m.OnStart(fu)
		}
		if fu.Block > 0 {
			time.Sleep(fu.Block)
		}
	}, d)
	fu.After = m.Now()
	return fu
}

// Cancel cancels a monitored future and records when Cancel returned.
func (m *Mon) Cancel(fu *Fut) {
	fu.f.Cancel()
	at := m.Now()
	fu.mu.Lock()
	fu.cancelRet = append(fu.cancelRet, at)
	fu.mu.Unlock()
}

func (m *Mon) Futures() []*Fut {
	m.mu.Lock()
	defer m.mu.Unlock()
	return append([]*Fut(nil), m.futs...)
}

// Drain waits for the final state of the package: nothing pending and no worker left. From then on
// nothing can start any more, so "not started" is final. The watchdog only yields "inconclusive".
// It returns (final, lostWork): lostWork is the logical state pending>0 with no worker, which is final too.
func Drain(watchdog time.Duration) (final bool, lost string) {
	// the watchdog measures the time without any change of (workers, pending): a starved process that
	// still makes progress is waited for, only a state that does not move at all is given up on
	lastW, lastP := -1, -1
	deadline := time.Now().Add(watchdog)
	for {
		w, p := timeout.VerifState()
		if p > 0 && w == 0 {
			// the state is read under the package lock, so it is exact
			return true, fmt.Sprintf("%d futures pending and no worker alive", p)
		}
		if p == 0 && w == 0 {
			return true, ""
		}
		if w != lastW || p != lastP {
			lastW, lastP = w, p
			deadline = time.Now().Add(watchdog)
		}
		if time.Now().After(deadline) {
			if p == 0 {
				return false, fmt.Sprintf("NO-WIND-DOWN workers=%d pending=0 when the watchdog fired", w)
			}
			return false, fmt.Sprintf("workers=%d pending=%d unchanged for %v when the watchdog fired", w, p, watchdog)
		}
		time.Sleep(2 * time.Millisecond)
	}
}

// Census counts goroutines that are inside the package's watcher function.
func Census() int {
	buf := make([]byte, 1<<20)
	for {
		n := runtime.Stack(buf, true)
		if n < len(buf) {
			buf = buf[:n]
			break
		}
		buf = make([]byte, 2*len(buf))
	}
	return strings.Count(string(buf), "timeout.(*callControl).watcher(")
}

type Finding struct {
	Sig, What string
	TimeBound bool // rests on a two-sided time bound
	Fut       map[string]any
}

func desc(f *Fut) map[string]any {
	return map[string]any{"id": f.ID, "delay": f.D.String(), "called_at": f.Before.String(), "due": f.Due().String(),
		"started": f.Started(), "start_at": f.StartAt().String(), "cancel_returns": fmt.Sprint(f.Cancels()), "blocks": f.Block.String(), "far": f.Far}
}

// Judge evaluates every future after the final state has been reached. lateBound <= 0 disables the
// lateness verdict. It returns the findings and the worst lateness seen.
func (m *Mon) Judge(lateBound time.Duration) ([]Finding, time.Duration) {
	var out []Finding
	var worst time.Duration
	for _, f := range m.Futures() {
		n := f.Started()
		cancels := f.Cancels()
		if n > 1 {
			out = append(out, Finding{"timer/started-twice", fmt.Sprintf("future %d (delay %v) was started %d times", f.ID, f.D, n), false, desc(f)})
		}
		if n >= 1 && f.StartAt() < f.Due() {
			out = append(out, Finding{"timer/started-early", fmt.Sprintf("future %d: Call(f, %v) was made at %v, the function started at %v, %v early", f.ID, f.D, f.Before, f.StartAt(), f.Due()-f.StartAt()), false, desc(f)})
		}
		cancelledBeforeDue := false
		for _, c := range cancels {
			if c < f.Due() {
				cancelledBeforeDue = true
			}
		}
		if cancelledBeforeDue && n > 0 {
			out = append(out, Finding{"timer/started-after-cancel", fmt.Sprintf("future %d (due %v) was started at %v although a Cancel had returned at %v, before it was due", f.ID, f.Due(), f.StartAt(), cancels[0]), false, desc(f)})
		}
		if len(cancels) == 0 && n == 0 {
			out = append(out, Finding{"timer/never-started", fmt.Sprintf("future %d (delay %v, called at %v) was never cancelled and was never started although the package reached its final state", f.ID, f.D, f.Before), false, desc(f)})
		}
		if n >= 1 {
			late := f.StartAt() - f.Due()
			if f.D < 0 {
				late = f.StartAt() - f.Before
			}
			if late > worst {
				worst = late
			}
			if lateBound > 0 && late > lateBound {
				out = append(out, Finding{"timer/late", fmt.Sprintf("future %d (delay %v) was due at %v and started %v late (bound %v)", f.ID, f.D, f.Due(), late, lateBound), true, desc(f)})
			}
		}
	}
	return out, worst
}

// Canary measures scheduling stalls.
type Canary struct {
	worst atomic.Int64
	stop  chan struct{}
}

func StartCanary() *Canary {
	c := &Canary{stop: make(chan struct{})}
	go func() {
		for {
			select {
			case <-c.stop:
				return
			default:
			}
			t := time.Now()
			time.Sleep(2 * time.Millisecond)
			over := int64(time.Since(t) - 2*time.Millisecond)
			for {
				w := c.worst.Load()
				if over <= w || c.worst.CompareAndSwap(w, over) {
					break
				}
			}
		}
	}()
	return c
}

func (c *Canary) Stop() time.Duration { close(c.stop); return time.Duration(c.worst.Load()) }

// GoexitScenario (real clock, the package's own initial state, idle timeout 50 ms; run it in a process of its own):
// callbacks that end the goroutine they run on (runtime.Goexit(), which is what t.FailNow() does in a test
// callback). Whatever a callback does to its own goroutine, the other scheduled functions are not cancelled and
// have to be started (F15), each at most once, and the package still winds down to no worker. variant 0..2 selects
// the pause after the first such callback and which third of the burst ends its goroutine.
func GoexitScenario(idx int) (sig, what string, phase, evals int) {
	timeout.VerifSetIdle(50 * time.Millisecond)
	waitFor := func(cond func() bool, d time.Duration) bool {
		dl := time.Now().Add(d)
		for !cond() {
			if time.Now().After(dl) {
				return false
			}
			time.Sleep(200 * time.Microsecond)
		}
		return true
	}
	// phase 1: one future whose callback ends its goroutine (the only worker), then a plain one
	var first, second atomic.Int32
	timeout.Call(func() { first.Add(1); runtime.Goexit() }, time.Millisecond)
	if !waitFor(func() bool { return first.Load() > 0 }, 20*time.Second) {
		return "timer/never-started", "a single future 1 ms ahead was not started within 20 s", 1, evals
	}
	time.Sleep(time.Duration(idx%3) * 40 * time.Millisecond) // 0: at once, 1/2: around and after the idle timeout
	timeout.Call(func() { second.Add(1) }, time.Millisecond)
	evals += 2
	if !waitFor(func() bool { return second.Load() > 0 }, 20*time.Second) {
		w, p := timeout.VerifState()
		return "timer/never-started-after-callback-ended-its-goroutine", fmt.Sprintf("a callback called runtime.Goexit(); a future scheduled %d ms later (1 ms ahead, not cancelled) was not started within 20 s; the package says workers=%d pending=%d", (idx%3)*40, w, p), 1, evals
	}
	// phase 2: a burst larger than the pool, every third callback ends its goroutine
	const n = 60
	var counts [n]atomic.Int32
	for i := 0; i < n; i++ {
		i := i
		timeout.Call(func() {
			counts[i].Add(1)
			if i%3 == idx%3 {
				runtime.Goexit()
			}
		}, time.Duration(1+i%4)*time.Millisecond)
	}
	evals += n
	all := func() bool {
		for i := range counts {
			if counts[i].Load() == 0 {
				return false
			}
		}
		return true
	}
	if !waitFor(all, 20*time.Second) {
		missing := 0
		for i := range counts {
			if counts[i].Load() == 0 {
				missing++
			}
		}
		w, p := timeout.VerifState()
		return "timer/never-started-after-callback-ended-its-goroutine", fmt.Sprintf("burst of %d futures, every third callback calls runtime.Goexit(): %d of them were not started within 20 s (workers=%d pending=%d)", n, missing, w, p), 2, evals
	}
	time.Sleep(300 * time.Millisecond)
	if first.Load() > 1 || second.Load() > 1 {
		return "timer/started-twice", fmt.Sprintf("a callback that ended its goroutine was started %d times, the one after it %d times", first.Load(), second.Load()), 1, evals
	}
	for i := range counts {
		if c := counts[i].Load(); c > 1 {
			return "timer/started-twice", fmt.Sprintf("future %d of the burst (its callback ends its goroutine: %v) was started %d times", i, i%3 == idx%3, c), 2, evals
		}
	}
	// phase 3: nothing pending: no worker stays (12 idle periods + 2 s; healthy: 2 idle periods)
	if !waitFor(func() bool { w, p := timeout.VerifState(); return w == 0 && p == 0 }, 12*50*time.Millisecond+2*time.Second) {
		w, p := timeout.VerifState()
		if w < 0 || p == 0 {
			return "timer/no-wind-down", fmt.Sprintf("after callbacks that ended their goroutines and with nothing pending the package says workers=%d pending=%d", w, p), 3, evals
		}
	}
	var third atomic.Int32
	timeout.Call(func() { third.Add(1) }, time.Millisecond)
	evals++
	if !waitFor(func() bool { return third.Load() > 0 }, 20*time.Second) {
		return "timer/no-restart-after-wind-down", "after the wind-down that followed goroutine-ending callbacks a new future was not started within 20 s", 3, evals
	}
	return "", "", 0, evals
}
