// Package locktap is a kvs.Storage wrapper for real-clock lock scenarios: it logs the calls of one
// provider and lets a scenario park individual calls at named gates ("Cas#2:before", "Cas#2:after",
// "Create#2:before", "Delete#1:before", …) — before a call is executed or after it was executed but before
// its answer is returned — and optionally answer a parked call with an injected error without executing it
// (request lost). With HonourCtx the wrapper refuses calls whose context is done, like a network backend.
package locktap

import (
	"context"
	"errors"
	"fmt"
	"sync"
	"time"

	"github.com/acquirecloud/golibs/container/iterable"
	"github.com/acquirecloud/golibs/kvs"
)

// ErrInjected is the error of a call that was answered without being executed.
var ErrInjected = errors.New("injected: storage unavailable")

// Gate parks one call.
type Gate struct {
	Arrived chan struct{} // closed when the call reaches the gate
	Release chan struct{} // close to let it go on
	Fail    bool          // before-gates: answer with ErrInjected instead of executing (request lost); after-gates: the call was executed but is answered with ErrInjected (reply lost)
}

// Ev is one logged call.
type Ev struct {
	Op   string        `json:"op"`
	N    int           `json:"n"` // ordinal of this op kind on this tap (1-based)
	Call time.Duration `json:"call"`
	Ret  time.Duration `json:"ret"`
	Err  string        `json:"err"`
}

type Tap struct {
	Inner     kvs.Storage
	HonourCtx bool
	Base      time.Time
	// CasSlowBefore / CasSlowAfter: every CasByVersion takes that long until it is executed / until its answer is
	// back; with HonourCtx a caller whose context ends meanwhile gets the context's error at once (the call was
	// not executed / was executed).
	CasSlowBefore, CasSlowAfter time.Duration

	mu     sync.Mutex
	counts map[string]int
	gates  map[string]*Gate
	log    []Ev
}

func New(inner kvs.Storage) *Tap {
	return &Tap{Inner: inner, Base: time.Now(), counts: map[string]int{}, gates: map[string]*Gate{}}
}

// Gate installs (or returns) the gate with the given name, e.g. "Cas#1:before".
func (t *Tap) Gate(name string) *Gate {
	t.mu.Lock()
	defer t.mu.Unlock()
	g, ok := t.gates[name]
	if !ok {
		g = &Gate{Arrived: make(chan struct{}), Release: make(chan struct{})}
		t.gates[name] = g
	}
	return g
}

func (t *Tap) Events() []Ev { t.mu.Lock(); defer t.mu.Unlock(); return append([]Ev(nil), t.log...) }

// Count returns how many calls of the kind have arrived so far.
func (t *Tap) Count(op string) int { t.mu.Lock(); defer t.mu.Unlock(); return t.counts[op] }

func (t *Tap) enter(op string) (n int, before, after *Gate) {
	t.mu.Lock()
	t.counts[op]++
	n = t.counts[op]
	before = t.gates[fmt.Sprintf("%s#%d:before", op, n)]
	after = t.gates[fmt.Sprintf("%s#%d:after", op, n)]
	t.mu.Unlock()
	return
}

func (t *Tap) record(op string, n int, call time.Duration, err error) {
	e := "nil"
	if err != nil {
		e = err.Error()
	}
	t.mu.Lock()
	t.log = append(t.log, Ev{Op: op, N: n, Call: call, Ret: time.Since(t.Base), Err: e})
	t.mu.Unlock()
}

func (t *Tap) nap(ctx context.Context, d time.Duration) {
	if !t.HonourCtx {
		time.Sleep(d)
		return
	}
	select {
	case <-time.After(d):
	case <-ctx.Done():
	}
}

func park(g *Gate) {
	if g != nil {
		select {
		case <-g.Arrived: // a gate that is met more than once (never the case for "#n" gates) parks every time
		default:
			close(g.Arrived)
		}
		<-g.Release
	}
}

func (t *Tap) Create(ctx context.Context, r kvs.Record) (string, error) {
	call := time.Since(t.Base)
	n, before, after := t.enter("Create")
	park(before)
	if before != nil && before.Fail {
		t.record("Create", n, call, ErrInjected)
		return "", ErrInjected
	}
	if t.HonourCtx && ctx.Err() != nil {
		t.record("Create", n, call, ctx.Err())
		return "", ctx.Err()
	}
	v, err := t.Inner.Create(ctx, r)
	park(after)
	t.record("Create", n, call, err)
	return v, err
}

func (t *Tap) CasByVersion(ctx context.Context, r kvs.Record) (kvs.Record, error) {
	call := time.Since(t.Base)
	n, before, after := t.enter("Cas")
	park(before)
	if before != nil && before.Fail {
		t.record("Cas", n, call, ErrInjected)
		return kvs.Record{}, ErrInjected
	}
	if t.CasSlowBefore > 0 {
		t.nap(ctx, t.CasSlowBefore)
	}
	if t.HonourCtx && ctx.Err() != nil {
		t.record("Cas", n, call, ctx.Err())
		return kvs.Record{}, ctx.Err()
	}
	res, err := t.Inner.CasByVersion(ctx, r)
	if t.CasSlowAfter > 0 {
		t.nap(ctx, t.CasSlowAfter)
		if t.HonourCtx && ctx.Err() != nil {
			t.record("Cas", n, call, ctx.Err())
			return kvs.Record{}, ctx.Err()
		}
	}
	park(after)
	t.record("Cas", n, call, err)
	return res, err
}

func (t *Tap) Delete(ctx context.Context, key string) error {
	call := time.Since(t.Base)
	n, before, after := t.enter("Delete")
	park(before)
	if before != nil && before.Fail {
		t.record("Delete", n, call, ErrInjected)
		return ErrInjected
	}
	if t.HonourCtx && ctx.Err() != nil {
		t.record("Delete", n, call, ctx.Err())
		return ctx.Err()
	}
	err := t.Inner.Delete(ctx, key)
	park(after)
	if after != nil && after.Fail {
		t.record("Delete", n, call, ErrInjected)
		return ErrInjected
	}
	t.record("Delete", n, call, err)
	return err
}

func (t *Tap) WaitForVersionChange(ctx context.Context, key, ver string) error {
	return t.Inner.WaitForVersionChange(ctx, key, ver)
}
func (t *Tap) Get(ctx context.Context, key string) (kvs.Record, error) {
	call := time.Since(t.Base)
	n, _, _ := t.enter("Get")
	r, err := t.Inner.Get(ctx, key)
	t.record("Get", n, call, err)
	return r, err
}
func (t *Tap) GetMany(ctx context.Context, keys ...string) ([]*kvs.Record, error) {
	return t.Inner.GetMany(ctx, keys...)
}
func (t *Tap) Put(ctx context.Context, r kvs.Record) (kvs.Record, error) {
	call := time.Since(t.Base)
	n, _, _ := t.enter("Put")
	res, err := t.Inner.Put(ctx, r)
	t.record("Put", n, call, err)
	return res, err
}
func (t *Tap) PutMany(ctx context.Context, rs []kvs.Record) error { return t.Inner.PutMany(ctx, rs) }
func (t *Tap) ListKeys(ctx context.Context, p string) (iterable.Iterator[string], error) {
	return t.Inner.ListKeys(ctx, p)
}

// Arrived reports whether the gate's call has arrived within d.
func Arrived(g *Gate, d time.Duration) bool {
	select {
	case <-g.Arrived:
		return true
	case <-time.After(d):
		return false
	}
}
