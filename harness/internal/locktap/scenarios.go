package locktap

import (
	"context"
	"fmt"
	"sync/atomic"

	"github.com/acquirecloud/golibs/kvs"
	"time"

	dist "github.com/acquirecloud/golibs/kvs/distlock"
	"github.com/acquirecloud/golibs/kvs/inmem"
	"github.com/acquirecloud/golibs/timeout"
)

// Outcome of a scenario: Sig == "" means nothing was observed. TimeBound verdicts rest on a two-sided time
// bound and are to be guarded by the Stall the scenario measured itself (a 2 ms sleeper's worst overshoot).
type Outcome struct {
	Sig, What string
	TimeBound bool
	Stall     time.Duration
	Skipped   string // the scenario could not be set up (e.g. the renewal never came): neither held nor violated
}

func canary() (stop func() time.Duration) {
	var worst atomic.Int64
	done := make(chan struct{})
	go func() {
		for {
			select {
			case <-done:
				return
			default:
			}
			t := time.Now()
			time.Sleep(2 * time.Millisecond)
			if o := int64(time.Since(t) - 2*time.Millisecond); o > worst.Load() {
				worst.Store(o)
			}
		}
	}()
	return func() time.Duration { close(done); return time.Duration(worst.Load()) }
}

// UnlockVsFailedRenewal: holder A's k-th renewal is in flight when A unlocks; the renewal is then answered
// with an error without having been executed (request lost), while A's own Delete is still on its way. Then
// B (another provider) acquires. Whatever A's renewal routine does with that error, B holds now: a third
// Locker spinning TryLock for two leases must never get the lock.
func UnlockVsFailedRenewal(L time.Duration, k int) (out Outcome) {
	stop := canary()
	defer func() { out.Stall = stop() }()
	inner := inmem.New()
	tA := New(inner)
	pa := dist.NewKvsLockProvider(tA, "/lt/")
	pb := dist.NewKvsLockProvider(inner, "/lt/")
	pc := dist.NewKvsLockProvider(inner, "/lt/")
	for _, p := range []dist.LockProvider{pa, pb, pc} {
		dist.VerifSetLeaseTTL(p, L)
		defer p.Shutdown()
	}
	la, lb, lc := pa.NewLocker("x"), pb.NewLocker("x"), pc.NewLocker("x")
	gCas := tA.Gate(fmt.Sprintf("Cas#%d:before", k))
	gCas.Fail = true
	gD1 := tA.Gate("Delete#1:before")
	gD2 := tA.Gate("Delete#2:before")
	la.Lock()
	if !Arrived(gCas, time.Duration(k+2)*L+10*time.Second) {
		close(gCas.Release)
		close(gD1.Release)
		close(gD2.Release)
		la.Unlock()
		return Outcome{Skipped: "renewal did not come"}
	}
	unlocked := make(chan struct{})
	go func() { la.Unlock(); close(unlocked) }()
	if !Arrived(gD1, 10*time.Second) {
		close(gCas.Release)
		close(gD1.Release)
		close(gD2.Release)
		<-unlocked
		return Outcome{Skipped: "Unlock did not reach its Delete"}
	}
	close(gCas.Release)                         // the renewal fails (request lost); the Locker is not locked any more
	extra := Arrived(gD2, 200*time.Millisecond) // does the renewal routine come with a Delete of its own?
	close(gD1.Release)                          // Unlock's Delete is executed
	<-unlocked
	lb.Lock() // B holds
	close(gD2.Release)
	deadline := time.Now().Add(2 * L)
	for time.Now().Before(deadline) {
		if lc.TryLock(context.Background()) {
			out.Sig = "two-holders-after-failed-renewal-vs-unlock"
			out.What = fmt.Sprintf("lease %v: holder A's renewal %d failed (request lost) while A was unlocking; B acquired afterwards and holds, yet a third caller's TryLock succeeded (A's renewal routine issued a Delete of its own: %v)", L, k, extra)
			out.TimeBound = true
			lc.Unlock()
			break
		}
		time.Sleep(L / 10)
	}
	lb.Unlock()
	return out
}

// HandOffVsInflightRenewal: holder A's k-th renewal request is in flight (not yet executed) when A unlocks and
// the next caller on the SAME Locker has taken over locally but has not created its record yet; then the stale
// renewal reaches the storage (finds nothing). The next caller must get the lock right away.
func HandOffVsInflightRenewal(L time.Duration, k int) (out Outcome) {
	stop := canary()
	defer func() { out.Stall = stop() }()
	inner := inmem.New()
	tA := New(inner)
	pa := dist.NewKvsLockProvider(tA, "/lt/")
	dist.VerifSetLeaseTTL(pa, L)
	defer pa.Shutdown()
	la := pa.NewLocker("x")
	gCas := tA.Gate(fmt.Sprintf("Cas#%d:before", k))
	gCreate2 := tA.Gate("Create#2:before")
	la.Lock()
	if !Arrived(gCas, time.Duration(k+2)*L+10*time.Second) {
		close(gCas.Release)
		close(gCreate2.Release)
		la.Unlock()
		return Outcome{Skipped: "renewal did not come"}
	}
	la.Unlock() // the record is deleted; the stale renewal request is still on its way
	got := make(chan struct{})
	go func() { la.Lock(); close(got) }()
	if !Arrived(gCreate2, 10*time.Second) {
		close(gCas.Release)
		close(gCreate2.Release)
		<-got
		la.Unlock()
		return Outcome{Skipped: "second tenure did not reach its Create"}
	}
	close(gCas.Release) // the stale renewal is executed now: the record does not exist
	time.Sleep(30 * time.Millisecond)
	close(gCreate2.Release)
	select {
	case <-got:
		la.Unlock()
	case <-time.After(L + 5*time.Second):
		out.Sig = "hand-off-blocked-by-stale-renewal"
		out.What = fmt.Sprintf("lease %v: the previous holder's renewal %d reached the storage after its Unlock while the next caller of the same Locker was about to create its record; %v later that caller still has not acquired (record in the store: %v)", L, k, L+5*time.Second, func() bool { _, err := inner.Get(context.Background(), "/lt/x"); return err == nil }())
		out.TimeBound = true
		// let the blocked caller go
		for i := 0; i < 200; i++ {
			_ = inner.Delete(context.Background(), "/lt/x")
			select {
			case <-got:
				la.Unlock()
				return out
			case <-time.After(50 * time.Millisecond):
			}
		}
	}
	return out
}

// StaleRenewalAfterReacquire: holder A's k-th renewal request is in flight when A unlocks; the SAME Locker
// is acquired again (second tenure, new record); only then the stale renewal of the first tenure reaches the
// storage (version conflict). When the second tenure unlocks, the lock must be released completely: no
// record in the store, another provider's TryLock succeeds. Decided on logical steps (the events of the tap),
// no time bound.
func StaleRenewalAfterReacquire(L time.Duration, k int) (out Outcome) {
	inner := inmem.New()
	tA := New(inner)
	pa := dist.NewKvsLockProvider(tA, "/lt/")
	pb := dist.NewKvsLockProvider(inner, "/lt/")
	for _, p := range []dist.LockProvider{pa, pb} {
		dist.VerifSetLeaseTTL(p, L)
		defer p.Shutdown()
	}
	la, lb := pa.NewLocker("x"), pb.NewLocker("x")
	gCas := tA.Gate(fmt.Sprintf("Cas#%d:before", k))
	la.Lock()
	if !Arrived(gCas, time.Duration(k+2)*L+10*time.Second) {
		close(gCas.Release)
		la.Unlock()
		return Outcome{Skipped: "renewal did not come"}
	}
	la.Unlock()
	la.Lock() // second tenure of the same Locker
	close(gCas.Release)
	// the stale renewal is answered (conflict): wait until the tap has logged it
	t0 := time.Now()
	for done := false; !done; {
		for _, e := range tA.Events() {
			if e.Op == "Cas" && e.N == k {
				done = true
			}
		}
		if !done {
			if time.Since(t0) > 30*time.Second {
				la.Unlock()
				return Outcome{Skipped: "the stale renewal was not answered"}
			}
			time.Sleep(time.Millisecond)
		}
	}
	time.Sleep(5 * time.Millisecond) // let the renewal routine digest the answer
	la.Unlock()
	if _, err := inner.Get(context.Background(), "/lt/x"); err == nil {
		out.Sig = "residue/record"
		out.What = fmt.Sprintf("lease %v: renewal %d of the first tenure reached the storage (version conflict) during the second tenure of the same Locker; after the second tenure's Unlock the lock record is still in the store", L, k)
	} else if !lb.TryLock(context.Background()) {
		out.Sig = "residue/trylock-false"
		out.What = fmt.Sprintf("lease %v: after a stale renewal during the second tenure and its Unlock, another provider's TryLock fails", L)
	} else {
		lb.Unlock()
	}
	return out
}

// SiblingAttemptVsHolder: G1 holds through Locker X; other goroutines try X.TryLock and X.LockWithCtx with
// cancelled / short-lived contexts (all fail: X is held). G1 stays in for 2.5 leases. A Locker of another
// provider spinning TryLock must never get the lock meanwhile.
func SiblingAttemptVsHolder(L time.Duration) (out Outcome) {
	stop := canary()
	defer func() { out.Stall = stop() }()
	inner := inmem.New()
	pa := dist.NewKvsLockProvider(inner, "/lt/")
	pb := dist.NewKvsLockProvider(inner, "/lt/")
	for _, p := range []dist.LockProvider{pa, pb} {
		dist.VerifSetLeaseTTL(p, L)
		defer p.Shutdown()
	}
	la, lb := pa.NewLocker("x"), pb.NewLocker("x")
	la.Lock()
	sib := make(chan string, 3)
	go func() {
		if la.TryLock(context.Background()) {
			sib <- "TryLock on the held Locker succeeded"
			return
		}
		sib <- ""
	}()
	go func() {
		ctx, cancel := context.WithCancel(context.Background())
		cancel()
		if err := la.LockWithCtx(ctx); err == nil {
			sib <- "LockWithCtx with a cancelled context on the held Locker succeeded"
			return
		}
		sib <- ""
	}()
	go func() {
		ctx, cancel := context.WithTimeout(context.Background(), L/10)
		defer cancel()
		if err := la.LockWithCtx(ctx); err == nil {
			sib <- "LockWithCtx on the held Locker succeeded"
			return
		}
		sib <- ""
	}()
	for i := 0; i < 3; i++ {
		if s := <-sib; s != "" {
			out.Sig, out.What = "two-holders", s
			return out
		}
	}
	deadline := time.Now().Add(5 * L / 2)
	for time.Now().Before(deadline) {
		if lb.TryLock(context.Background()) {
			out.Sig = "two-holders-after-sibling-attempt"
			out.What = fmt.Sprintf("lease %v: while G1 held through a Locker, failed attempts of other goroutines on the same Locker (TryLock, LockWithCtx with cancelled and short contexts) were made; %v into the tenure another provider's TryLock succeeded although G1 has not unlocked", L, time.Since(deadline.Add(-5*L/2)).Round(time.Millisecond))
			out.TimeBound = true
			lb.Unlock()
			break
		}
		time.Sleep(L / 10)
	}
	la.Unlock()
	return out
}

// SlowStorageTenure: A's storage answers every renewal slowly but well inside half a lease (before: until the
// request is executed, after: until the answer is back; a caller whose context ends meanwhile gets the context's
// error). A holds for 4 leases; a Locker of another provider spinning TryLock must never get the lock.
func SlowStorageTenure(L, before, after time.Duration) (out Outcome) {
	stop := canary()
	defer func() { out.Stall = stop() }()
	inner := inmem.New()
	tA := New(inner)
	tA.HonourCtx = true
	tA.CasSlowBefore, tA.CasSlowAfter = before, after
	pa := dist.NewKvsLockProvider(tA, "/lt/")
	pb := dist.NewKvsLockProvider(inner, "/lt/")
	for _, p := range []dist.LockProvider{pa, pb} {
		dist.VerifSetLeaseTTL(p, L)
		defer p.Shutdown()
	}
	la, lb := pa.NewLocker("x"), pb.NewLocker("x")
	la.Lock()
	t0 := time.Now()
	for time.Since(t0) < 4*L {
		if lb.TryLock(context.Background()) {
			out.Sig = "two-holders-on-slow-storage"
			out.What = fmt.Sprintf("lease %v: the holder's storage executes every renewal after %v and answers after another %v (well inside half a lease); %v into the tenure another provider's TryLock succeeded although the holder has not unlocked; storage calls of the holder: %v", L, before, after, time.Since(t0).Round(time.Millisecond), tA.Events())
			out.TimeBound = true
			lb.Unlock()
			break
		}
		time.Sleep(L / 10)
	}
	la.Unlock()
	return out
}

// ShutdownWhileHeld: the holder's provider is shut down while the lock is held (no new attempt may succeed, but
// the holder holds until it unlocks). The holder stays for 2.5 leases; a Locker of another provider spinning
// TryLock must never get the lock.
func ShutdownWhileHeld(L time.Duration) (out Outcome) {
	stop := canary()
	defer func() { out.Stall = stop() }()
	inner := inmem.New()
	pa := dist.NewKvsLockProvider(inner, "/lt/")
	pb := dist.NewKvsLockProvider(inner, "/lt/")
	dist.VerifSetLeaseTTL(pa, L)
	dist.VerifSetLeaseTTL(pb, L)
	defer pb.Shutdown()
	la, lb := pa.NewLocker("x"), pb.NewLocker("x")
	la.Lock()
	pa.Shutdown()
	t0 := time.Now()
	for time.Since(t0) < 5*L/2 {
		if lb.TryLock(context.Background()) {
			out.Sig = "two-holders-after-shutdown-of-the-holders-provider"
			out.What = fmt.Sprintf("lease %v: the holder's provider was shut down while the lock was held; %v later another provider's TryLock succeeded although the holder has not unlocked", L, time.Since(t0).Round(time.Millisecond))
			out.TimeBound = true
			lb.Unlock()
			break
		}
		time.Sleep(L / 10)
	}
	la.Unlock()
	return out
}

// FailedRenewalTenure: the holder's renewal requests number ks are lost (answered with an error, not executed).
// The holder stays until two leases after the last of them; a Locker of another provider spinning TryLock must
// never get the lock.
func FailedRenewalTenure(L time.Duration, ks []int) (out Outcome) {
	stop := canary()
	defer func() { out.Stall = stop() }()
	inner := inmem.New()
	tA := New(inner)
	pa := dist.NewKvsLockProvider(tA, "/lt/")
	pb := dist.NewKvsLockProvider(inner, "/lt/")
	for _, p := range []dist.LockProvider{pa, pb} {
		dist.VerifSetLeaseTTL(p, L)
		defer p.Shutdown()
	}
	last := 0
	for _, k := range ks {
		g := tA.Gate(fmt.Sprintf("Cas#%d:before", k))
		g.Fail = true
		close(g.Release)
		if k > last {
			last = k
		}
	}
	la, lb := pa.NewLocker("x"), pb.NewLocker("x")
	la.Lock()
	t0 := time.Now()
	hold := time.Duration(last/2+3) * L
	for time.Since(t0) < hold {
		if lb.TryLock(context.Background()) {
			out.Sig = "two-holders-after-lost-renewal-requests"
			out.What = fmt.Sprintf("lease %v: the holder's renewal requests %v were lost (error, not executed), all others were answered; %v into the tenure another provider's TryLock succeeded although the holder has not unlocked; storage calls of the holder: %v", L, ks, time.Since(t0).Round(time.Millisecond), tA.Events())
			out.TimeBound = true
			lb.Unlock()
			break
		}
		time.Sleep(L / 10)
	}
	la.Unlock()
	return out
}

// TenureBesideFarTimers (wants a process without other timer traffic): the process already has far timers pending -
// a lock of another name held with a 30 s lease (renewal due in 15 s) and a foreign timer 20 s ahead - when a
// lock with a short lease is taken and held for 3 leases; a Locker of another provider spinning TryLock on that
// name must never get it.
func TenureBesideFarTimers(L time.Duration) (out Outcome) {
	stop := canary()
	defer func() { out.Stall = stop() }()
	inner := inmem.New()
	pFar := dist.NewKvsLockProvider(inner, "/lt/")
	pa := dist.NewKvsLockProvider(inner, "/lt/")
	pb := dist.NewKvsLockProvider(inner, "/lt/")
	dist.VerifSetLeaseTTL(pFar, 30*time.Second)
	dist.VerifSetLeaseTTL(pa, L)
	dist.VerifSetLeaseTTL(pb, L)
	for _, p := range []dist.LockProvider{pFar, pa, pb} {
		defer p.Shutdown()
	}
	ly := pFar.NewLocker("y")
	ly.Lock()
	defer ly.Unlock()
	f := timeout.Call(func() {}, 20*time.Second)
	defer f.Cancel()
	time.Sleep(20 * time.Millisecond)
	la, lb := pa.NewLocker("x"), pb.NewLocker("x")
	la.Lock()
	t0 := time.Now()
	for time.Since(t0) < 3*L {
		if lb.TryLock(context.Background()) {
			out.Sig = "two-holders-beside-far-timers"
			out.What = fmt.Sprintf("lease %v: the process had far timers pending (another lock with a 30 s lease, a foreign timer 20 s ahead) when the lock was taken; %v into the tenure another provider's TryLock succeeded although the holder has not unlocked", L, time.Since(t0).Round(time.Millisecond))
			out.TimeBound = true
			lb.Unlock()
			break
		}
		time.Sleep(L / 10)
	}
	la.Unlock()
	return out
}

// UnlockFaultThenRelock: A's Unlock loses its Delete - the reply (executed, error reported) or the request (not
// executed, the record stays until its lease runs out). B (another provider) acquires and holds. Then A tries the
// same Locker again with a context of two leases: it must not get the lock while B holds it. Decided logically:
// "A acquired" is observed while B has not unlocked.
func UnlockFaultThenRelock(L time.Duration, replyLost bool) (out Outcome) {
	inner := inmem.New()
	tA := New(inner)
	pa := dist.NewKvsLockProvider(tA, "/lt/")
	pb := dist.NewKvsLockProvider(inner, "/lt/")
	for _, p := range []dist.LockProvider{pa, pb} {
		dist.VerifSetLeaseTTL(p, L)
		defer p.Shutdown()
	}
	name := "Delete#1:before"
	if replyLost {
		name = "Delete#1:after"
	}
	g := tA.Gate(name)
	g.Fail = true
	close(g.Release)
	la, lb := pa.NewLocker("x"), pb.NewLocker("x")
	la.Lock()
	la.Unlock() // the Delete is lost
	// B acquires at once (reply lost) or after the left-over record's lease ran out (request lost). Whether it
	// gets there at all is not this scenario's business (hand-off is C04's, the dying renewal C05's): bounded
	bctx, bcancel := context.WithTimeout(context.Background(), 3*L+5*time.Second)
	berr := lb.LockWithCtx(bctx)
	bcancel()
	if berr != nil {
		return Outcome{Skipped: "B could not acquire after A's lost Delete: " + berr.Error()}
	}
	ctx, cancel := context.WithTimeout(context.Background(), 2*L)
	err := la.LockWithCtx(ctx)
	cancel()
	if err == nil {
		out.Sig = "two-holders-after-a-lost-delete"
		what := "request (not executed: the record stayed until its lease ran out)"
		if replyLost {
			what = "reply (executed, but an error was reported)"
		}
		out.What = fmt.Sprintf("lease %v: A's Unlock lost the %s of its Delete; B acquired afterwards and holds; A's next LockWithCtx on the same Locker returned nil although B has not unlocked; storage calls of A: %v", L, what, tA.Events())
		la.Unlock()
	} else if la.TryLock(context.Background()) {
		out.Sig = "two-holders-after-a-lost-delete"
		out.What = fmt.Sprintf("lease %v: A's Unlock lost its Delete; B acquired afterwards and holds; A's TryLock on the same Locker returned true although B has not unlocked", L)
		la.Unlock()
	}
	lb.Unlock()
	return out
}

// CancelledCtxTenure: the lock is acquired through LockWithCtx / TryLock with a context that ends right after
// the acquisition returned (the usual `ctx, cancel := ...; defer cancel()` of a caller); the holder's storage
// refuses calls whose context is done, as a network backend does. The holder stays 2.5 leases; a Locker of
// another provider spinning TryLock must never get the lock.
func CancelledCtxTenure(L time.Duration, try bool) (out Outcome) {
	stop := canary()
	defer func() { out.Stall = stop() }()
	inner := inmem.New()
	tA := New(inner)
	tA.HonourCtx = true
	pa := dist.NewKvsLockProvider(tA, "/lt/")
	pb := dist.NewKvsLockProvider(inner, "/lt/")
	for _, p := range []dist.LockProvider{pa, pb} {
		dist.VerifSetLeaseTTL(p, L)
		defer p.Shutdown()
	}
	la, lb := pa.NewLocker("x"), pb.NewLocker("x")
	ctx, cancel := context.WithCancel(context.Background())
	if try {
		if !la.TryLock(ctx) {
			cancel()
			return Outcome{Skipped: "TryLock on a free lock failed"}
		}
	} else if err := la.LockWithCtx(ctx); err != nil {
		cancel()
		return Outcome{Skipped: "LockWithCtx on a free lock failed: " + err.Error()}
	}
	cancel()
	t0 := time.Now()
	for time.Since(t0) < 5*L/2 {
		if lb.TryLock(context.Background()) {
			out.Sig = "two-holders-after-the-acquisition-context-ended"
			out.What = fmt.Sprintf("lease %v: the lock was acquired with a context that was cancelled right after the acquisition returned (TryLock: %v); %v into the tenure another provider's TryLock succeeded although the holder has not unlocked; storage calls of the holder: %v", L, try, time.Since(t0).Round(time.Millisecond), tA.Events())
			out.TimeBound = true
			lb.Unlock()
			break
		}
		time.Sleep(L / 10)
	}
	la.Unlock()
	return out
}

// TwoLocksOneSlowStorage (wants a process without other timer traffic): two locks x and y are taken at the same
// moment in one process; a far timer is pending; a short job keeps the only timer worker busy over the instant
// both first renewals become due; the storage of x answers its renewal only after 0.75 leases (x's own lease is
// not judged), the storage of y answers at once. y's holder stays for 3 leases; a Locker of another provider
// spinning TryLock on y must never get it.
func TwoLocksOneSlowStorage(L time.Duration) (out Outcome) {
	stop := canary()
	defer func() { out.Stall = stop() }()
	inner := inmem.New()
	tX := New(inner)
	tX.CasSlowAfter = 3 * L / 4
	px := dist.NewKvsLockProvider(tX, "/lt/")
	py := dist.NewKvsLockProvider(inner, "/lt/")
	pb := dist.NewKvsLockProvider(inner, "/lt/")
	for _, p := range []dist.LockProvider{px, py, pb} {
		dist.VerifSetLeaseTTL(p, L)
		defer p.Shutdown()
	}
	far := timeout.Call(func() {}, 20*time.Second)
	defer far.Cancel()
	lx, ly, lb := px.NewLocker("x"), py.NewLocker("y"), pb.NewLocker("y")
	lx.Lock()
	ly.Lock()
	t0 := time.Now()
	timeout.Call(func() { time.Sleep(10 * time.Millisecond) }, L/2-5*time.Millisecond)
	for time.Since(t0) < 3*L {
		if lb.TryLock(context.Background()) {
			out.Sig = "two-holders-beside-a-slow-renewal-of-another-lock"
			out.What = fmt.Sprintf("lease %v: locks x and y were taken together in one process (a far timer pending, the timer worker busy for 10 ms over the instant both first renewals became due); the storage of x answered its renewal after %v, the storage of y at once; %v into the tenure another provider's TryLock on y succeeded although y's holder has not unlocked", L, tX.CasSlowAfter, time.Since(t0).Round(time.Millisecond))
			out.TimeBound = true
			lb.Unlock()
			break
		}
		time.Sleep(L / 10)
	}
	ly.Unlock()
	lx.Unlock()
	return out
}

// OrphanExpiryWithWaiters: a lock record without an owner (a holder that died, or a Create whose answer was lost)
// runs out while n Lockers of n providers are parked in Lock. Each of them, once it has the lock, stays 1.2
// leases; the number of callers between "Lock returned" and "Unlock called" must never exceed one. Logical verdict.
func OrphanExpiryWithWaiters(L time.Duration, n int) (out Outcome) {
	inner := inmem.New()
	at := time.Now().Add(L / 2)
	if _, err := inner.Create(context.Background(), kvs.Record{Key: "/lt/x", Value: []byte{}, ExpiresAt: &at}); err != nil {
		return Outcome{Skipped: "could not plant the orphan record: " + err.Error()}
	}
	var holders, worst atomic.Int32
	done := make(chan struct{}, n)
	for i := 0; i < n; i++ {
		p := dist.NewKvsLockProvider(inner, "/lt/")
		dist.VerifSetLeaseTTL(p, L)
		defer p.Shutdown()
		l := p.NewLocker("x")
		go func() {
			l.Lock()
			if h := holders.Add(1); h > worst.Load() {
				worst.Store(h)
			}
			time.Sleep(6 * L / 5)
			holders.Add(-1)
			l.Unlock()
			done <- struct{}{}
		}()
	}
	for i := 0; i < n; i++ {
		select {
		case <-done:
		case <-time.After(time.Duration(n+2)*2*L + 30*time.Second):
			return Outcome{Skipped: "the waiters did not all get the lock"}
		}
	}
	if w := worst.Load(); w > 1 {
		out.Sig = "two-holders-after-an-orphan-record-expired"
		out.What = fmt.Sprintf("lease %v: an ownerless lock record expired while %d Lockers were parked in Lock; afterwards %d of them held the lock at the same time (between Lock returning and Unlock being called)", L, n, w)
	}
	return out
}

// RelockDuringSlowRenewal: the answer of a renewal of the first tenure is still on its way (executed, answer
// parked for one lease) when the holder unlocks and the same Locker is locked again. The second tenure - all its
// own storage calls are answered at once - stays 2.5 leases; a Locker of another provider spinning TryLock must
// never get the lock.
func RelockDuringSlowRenewal(L time.Duration, k int) (out Outcome) {
	stop := canary()
	defer func() { out.Stall = stop() }()
	inner := inmem.New()
	tA := New(inner)
	pa := dist.NewKvsLockProvider(tA, "/lt/")
	pb := dist.NewKvsLockProvider(inner, "/lt/")
	for _, p := range []dist.LockProvider{pa, pb} {
		dist.VerifSetLeaseTTL(p, L)
		defer p.Shutdown()
	}
	g := tA.Gate(fmt.Sprintf("Cas#%d:after", k))
	la, lb := pa.NewLocker("x"), pb.NewLocker("x")
	la.Lock()
	if !Arrived(g, time.Duration(k+2)*L+10*time.Second) {
		close(g.Release)
		la.Unlock()
		return Outcome{Skipped: "renewal did not come"}
	}
	la.Unlock()
	la.Lock() // second tenure
	t0 := time.Now()
	released := false
	for time.Since(t0) < 5*L/2 {
		if !released && time.Since(t0) > L {
			close(g.Release) // the old answer arrives at last
			released = true
		}
		if lb.TryLock(context.Background()) {
			out.Sig = "two-holders-after-relock-during-a-slow-renewal"
			out.What = fmt.Sprintf("lease %v: the answer of renewal %d of the first tenure was still on its way when the holder unlocked and locked the same Locker again; %v into the second tenure (all of its own storage calls answered at once) another provider's TryLock succeeded although the holder has not unlocked; storage calls: %v", L, k, time.Since(t0).Round(time.Millisecond), tA.Events())
			out.TimeBound = true
			lb.Unlock()
			break
		}
		time.Sleep(L / 10)
	}
	if !released {
		close(g.Release)
	}
	la.Unlock()
	return out
}

// deadStore refuses everything once dead (a holder process that died).
type deadStore struct {
	kvs.Storage
	dead atomic.Bool
}

func (d *deadStore) Create(ctx context.Context, r kvs.Record) (string, error) {
	if d.dead.Load() {
		return "", ErrInjected
	}
	return d.Storage.Create(ctx, r)
}
func (d *deadStore) CasByVersion(ctx context.Context, r kvs.Record) (kvs.Record, error) {
	if d.dead.Load() {
		return kvs.Record{}, ErrInjected
	}
	return d.Storage.CasByVersion(ctx, r)
}
func (d *deadStore) Delete(ctx context.Context, k string) error {
	if d.dead.Load() {
		return ErrInjected
	}
	return d.Storage.Delete(ctx, k)
}

// StaleRenewalFailsAfterForeignHolderDied: A's k-th renewal request is on its way (not executed yet) when A unlocks;
// B (another provider) acquires and then dies (its storage access ends, it never unlocks); the same Locker of A is
// asked for the lock again and waits; then A's old renewal request fails transiently (lost). Whatever A's renewal
// routine does with that error, B's record must run out about one lease after B's last renewal and A must get
// the lock: A's LockWithCtx (context of 4 leases + 3 s) must return nil.
func StaleRenewalFailsAfterForeignHolderDied(L time.Duration, k int) (out Outcome) {
	stop := canary()
	defer func() { out.Stall = stop() }()
	inner := inmem.New()
	tA := New(inner)
	dB := &deadStore{Storage: inner}
	pa := dist.NewKvsLockProvider(tA, "/lt/")
	pb := dist.NewKvsLockProvider(dB, "/lt/")
	for _, p := range []dist.LockProvider{pa, pb} {
		dist.VerifSetLeaseTTL(p, L)
		defer p.Shutdown()
	}
	g := tA.Gate(fmt.Sprintf("Cas#%d:before", k))
	g.Fail = true
	la, lb := pa.NewLocker("x"), pb.NewLocker("x")
	la.Lock()
	if !Arrived(g, time.Duration(k+2)*L+10*time.Second) {
		close(g.Release)
		la.Unlock()
		return Outcome{Skipped: "renewal did not come"}
	}
	la.Unlock()
	lb.Lock()
	dB.dead.Store(true) // B dies holding the lock
	died := time.Now()
	ctx, cancel := context.WithTimeout(context.Background(), 4*L+3*time.Second)
	defer cancel()
	got := make(chan error, 1)
	go func() { got <- la.LockWithCtx(ctx) }()
	time.Sleep(L / 10)
	close(g.Release) // A's old renewal request is lost now (transient error)
	err := <-got
	if err != nil {
		out.Sig = "take-over-missing-after-stale-renewal-failed"
		out.What = fmt.Sprintf("lease %v: A's renewal %d was lost (transient error) after A had unlocked, B had acquired and died, and A's Locker was waiting for the lock again; %v after B's death A still has not got the lock (LockWithCtx: %v; record in the store: %v); storage calls of A: %v", L, k, time.Since(died).Round(time.Millisecond), err, func() bool { _, e := inner.Get(context.Background(), "/lt/x"); return e == nil }(), tA.Events())
		out.TimeBound = true
		return out
	}
	la.Unlock()
	return out
}

// RelockAfterLateRenewalAnswer: renewal k of the first tenure has been executed and its answer is on its way when
// the holder unlocks; the answer arrives (it may leave an armed attempt of the finished tenure behind - tolerated);
// shortly after the same Locker is locked again. The second tenure stays 2.5 leases; a Locker of another provider
// spinning TryLock must never get the lock.
func RelockAfterLateRenewalAnswer(L time.Duration, k int, gap time.Duration) (out Outcome) {
	stop := canary()
	defer func() { out.Stall = stop() }()
	inner := inmem.New()
	tA := New(inner)
	pa := dist.NewKvsLockProvider(tA, "/lt/")
	pb := dist.NewKvsLockProvider(inner, "/lt/")
	for _, p := range []dist.LockProvider{pa, pb} {
		dist.VerifSetLeaseTTL(p, L)
		defer p.Shutdown()
	}
	g := tA.Gate(fmt.Sprintf("Cas#%d:after", k))
	la, lb := pa.NewLocker("x"), pb.NewLocker("x")
	la.Lock()
	if !Arrived(g, time.Duration(k+2)*L+10*time.Second) {
		close(g.Release)
		la.Unlock()
		return Outcome{Skipped: "renewal did not come"}
	}
	la.Unlock()
	close(g.Release) // the answer arrives after the Unlock
	time.Sleep(gap)
	la.Lock() // second tenure
	t0 := time.Now()
	for time.Since(t0) < 5*L/2 {
		if lb.TryLock(context.Background()) {
			out.Sig = "two-holders-after-relock-behind-a-late-renewal-answer"
			out.What = fmt.Sprintf("lease %v: renewal %d of the first tenure was answered after the holder had unlocked; %v later the same Locker was locked again; %v into that tenure another provider's TryLock succeeded although the holder has not unlocked; storage calls: %v", L, k, gap, time.Since(t0).Round(time.Millisecond), tA.Events())
			out.TimeBound = true
			lb.Unlock()
			break
		}
		time.Sleep(L / 10)
	}
	la.Unlock()
	return out
}

// RelockBehindSlowDeleteAnswer: one Locker shared by two goroutines. The second is parked in Lock() (the local
// wait) while the first unlocks; the storage removes the record at once, but the answer of that Delete is on its
// way for a quarter of a lease. Whenever the second goroutine gets the lock (after the Unlock has returned, or
// already while the answer is on its way), its tenure is a tenure like any other: it stays 2.5 leases and a Locker of
// another provider spinning TryLock must never get the lock - the tail of the first tenure's Unlock must not touch
// the upkeep of the second.
func RelockBehindSlowDeleteAnswer(L time.Duration) (out Outcome) {
	stop := canary()
	defer func() { out.Stall = stop() }()
	inner := inmem.New()
	tA := New(inner)
	pa := dist.NewKvsLockProvider(tA, "/lt/")
	pb := dist.NewKvsLockProvider(inner, "/lt/")
	for _, p := range []dist.LockProvider{pa, pb} {
		dist.VerifSetLeaseTTL(p, L)
		defer p.Shutdown()
	}
	g := tA.Gate("Delete#1:after")
	la, lb := pa.NewLocker("x"), pb.NewLocker("x")
	la.Lock()
	second := make(chan time.Time, 1)
	secondDone := make(chan struct{})
	go func() { la.Lock(); second <- time.Now(); close(secondDone) }() // parks in the local wait
	time.Sleep(L / 10)
	unlocked := make(chan struct{})
	go func() { la.Unlock(); close(unlocked) }()
	if !Arrived(g, 10*time.Second) {
		close(g.Release)
		for _, ch := range []<-chan struct{}{unlocked, secondDone} {
			select {
			case <-ch:
			case <-time.After(20 * time.Second):
				return Outcome{Skipped: "the Delete did not come, the Lockers did not get free"}
			}
		}
		la.Unlock()
		return Outcome{Skipped: "the Delete did not come"}
	}
	time.Sleep(L / 4)
	close(g.Release) // the answer of the Delete arrives
	select {
	case <-unlocked:
	case <-time.After(20 * time.Second):
		return Outcome{Skipped: "Unlock did not return"}
	}
	var t0 time.Time
	select {
	case t0 = <-second:
	case <-time.After(20 * time.Second):
		return Outcome{Skipped: "the second Lock did not return"}
	}
	for time.Since(t0) < 5*L/2 {
		if lb.TryLock(context.Background()) {
			out.Sig = "two-holders-after-relock-behind-a-slow-delete-answer"
			out.What = fmt.Sprintf("lease %v: a second goroutine was parked in Lock() of the same Locker while the holder unlocked; the storage removed the record at once and answered the Delete a quarter of a lease later; %v into the second goroutine's tenure another provider's TryLock succeeded although the holder has not unlocked; storage calls: %v", L, time.Since(t0).Round(time.Millisecond), tA.Events())
			out.TimeBound = true
			lb.Unlock()
			break
		}
		time.Sleep(L / 10)
	}
	la.Unlock()
	return out
}

// LongLeaseTenure: a provider whose lease is (much) longer than the package default of 10 s. The lock is held for
// watch (more than the default lease, less than half of L, so no renewal is due yet); a Locker of another provider
// with the same long lease spinning TryLock must never get the lock: the record lives one lease of ITS provider. The
// margins are seconds; no verdict here depends on timely timers.
func LongLeaseTenure(L, watch time.Duration) (out Outcome) {
	stop := canary()
	defer func() { out.Stall = stop() }()
	inner := inmem.New()
	pa := dist.NewKvsLockProvider(inner, "/lt/")
	pb := dist.NewKvsLockProvider(inner, "/lt/")
	for _, p := range []dist.LockProvider{pa, pb} {
		dist.VerifSetLeaseTTL(p, L)
		defer p.Shutdown()
	}
	la, lb := pa.NewLocker("x"), pb.NewLocker("x")
	la.Lock()
	t0 := time.Now()
	for time.Since(t0) < watch {
		if lb.TryLock(context.Background()) {
			out.Sig = "two-holders-during-a-long-lease"
			out.What = fmt.Sprintf("lease %v (the package default is 10 s): %v into the tenure, before the first renewal was due, another provider's TryLock succeeded although the holder has not unlocked", L, time.Since(t0).Round(time.Millisecond))
			lb.Unlock()
			break
		}
		time.Sleep(100 * time.Millisecond)
	}
	la.Unlock()
	return out
}
