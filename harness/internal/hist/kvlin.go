// Package hist holds the client-boundary history recorder and the porcupine models shared by the
// concurrent KV checks (C02, C07).
package hist

import (
	"context"
	"errors"
	"fmt"
	"sort"
	"time"

	gerrors "github.com/acquirecloud/golibs/errors"
	"github.com/anishathalye/porcupine"
)

// Operation kinds of the per-key KV model.
const (
	KCreate = iota
	KGet
	KPut
	KPutSym // one item of a PutMany: the stored version is not returned to the caller
	KCas
	KDelete
	KWait // return of a WaitForVersionChange (C07)
)

var KindNames = []string{"Create", "Get", "Put", "PutMany-item", "Cas", "Delete", "Wait"}

// Error classes
const (
	ENil = iota
	EExist
	ENotExist
	EConflict
	ECtx
	EOther
)

var ErrNames = []string{"nil", "ErrExist", "ErrNotExist", "ErrConflict", "ctx", "other"}

func Classify(err error) int {
	switch {
	case err == nil:
		return ENil
	case errors.Is(err, gerrors.ErrExist):
		return EExist
	case errors.Is(err, gerrors.ErrNotExist):
		return ENotExist
	case errors.Is(err, gerrors.ErrConflict):
		return EConflict
	case errors.Is(err, context.Canceled), errors.Is(err, context.DeadlineExceeded):
		return ECtx
	}
	return EOther
}

type In struct {
	Kind int    `json:"kind"`
	Key  string `json:"key"`
	Val  string `json:"val,omitempty"`  // value written (unique per write)
	Exp  string `json:"exp,omitempty"`  // Cas: expected version; Wait: the version given
	Gone bool   `json:"gone,omitempty"` // the record written carries an expiry that has already passed: logically it is absent at once
	// ExpAt: the record written carries an expiry shortly ahead (same time base as Call/Ret, ns; 0 = none or far
	// away). From that instant on the record MAY be gone: an operation that returns at or after it may find the key
	// absent; once absent it stays absent until the next write (a backend whose clock lags may still serve it).
	ExpAt int64 `json:"exp_at,omitempty"`
	RetAt int64 `json:"-"` // filled from Rec.Ret when the history is handed to the checker
}

type Out struct {
	Err int    `json:"err"`
	Val string `json:"val,omitempty"` // Get: value read
	Ver string `json:"ver,omitempty"` // version returned / read
	Msg string `json:"msg,omitempty"`
}

// Rec is one recorded operation (JSON-serialisable witness form).
type Rec struct {
	Client int   `json:"c"`
	In     In    `json:"in"`
	Out    Out   `json:"out"`
	Call   int64 `json:"call"`
	Ret    int64 `json:"ret"`
}

func (r Rec) String() string {
	return fmt.Sprintf("c%d %s(%s val=%s exp=%s) -> %s val=%s ver=%s [%d,%d]", r.Client, KindNames[r.In.Kind], r.In.Key, r.In.Val, r.In.Exp, ErrNames[r.Out.Err], r.Out.Val, r.Out.Ver, r.Call, r.Ret)
}

type kvState struct {
	E     bool
	Val   string
	Ver   string // "?<prev>" = written by PutMany and not observed yet; <prev> is the version it replaced ("" if none / unknown)
	ExpAt int64  // see In.ExpAt
}

func symbolic(v string) bool { return len(v) > 0 && v[0] == '?' }

// written is the state after a successful write of in producing version ver.
func written(in In, ver string) kvState {
	if in.Gone {
		return kvState{}
	}
	return kvState{true, in.Val, ver, in.ExpAt}
}

// symAfter is the version state after a PutMany item replaced st.
func symAfter(st kvState) string {
	if st.E && !symbolic(st.Ver) {
		return "?" + st.Ver
	}
	return "?"
}

// KVModel is the per-key sequential specification (partitioned by key).
var KVModel = porcupine.Model{
	Partition: func(h []porcupine.Operation) [][]porcupine.Operation {
		m := map[string][]porcupine.Operation{}
		var keys []string
		for _, o := range h {
			k := o.Input.(In).Key
			if _, ok := m[k]; !ok {
				keys = append(keys, k)
			}
			m[k] = append(m[k], o)
		}
		sort.Strings(keys)
		res := make([][]porcupine.Operation, 0, len(keys))
		for _, k := range keys {
			res = append(res, m[k])
		}
		return res
	},
	Init: func() any { return kvState{} },
	Step: func(state, input, output any) (bool, any) {
		st := state.(kvState)
		in := input.(In)
		ok, ns := kvStep(st, in, output.(Out))
		if !ok && st.E && st.ExpAt != 0 && in.RetAt >= st.ExpAt {
			// the record's short expiry has passed by the time this operation returned: it may have found the key absent
			ok, ns = kvStep(kvState{}, in, output.(Out))
		}
		return ok, ns
	},
	DescribeOperation: func(input, output any) string {
		in := input.(In)
		out := output.(Out)
		return fmt.Sprintf("%s(%s,%s,%s)->%s,%s,%s", KindNames[in.Kind], in.Key, in.Val, in.Exp, ErrNames[out.Err], out.Val, out.Ver)
	},
}

func kvStep(st kvState, in In, out Out) (bool, kvState) {
	{
		if out.Err == EOther {
			// an undocumented outcome is reported by the outcome-class monitor; for the order search it has no effect
			return true, st
		}
		switch in.Kind {
		case KCreate:
			if out.Err == ENil {
				return !st.E, written(in, out.Ver)
			}
			if out.Err == EExist {
				return st.E, st
			}
			return false, st
		case KGet:
			if out.Err == ENotExist {
				return !st.E, st
			}
			if out.Err != ENil {
				return false, st
			}
			if !st.E || st.Val != out.Val {
				return false, st
			}
			if symbolic(st.Ver) {
				// first observation of a PutMany item: it must not carry the version it replaced
				if prev := st.Ver[1:]; prev != "" && prev == out.Ver {
					return false, st
				}
				return true, kvState{true, st.Val, out.Ver, st.ExpAt}
			}
			return st.Ver == out.Ver, st
		case KPut:
			if out.Err != ENil {
				return false, st
			}
			return true, written(in, out.Ver)
		case KPutSym:
			if out.Err != ENil {
				return false, st
			}
			return true, written(in, symAfter(st))
		case KCas:
			switch out.Err {
			case ENil:
				if !st.E || (!symbolic(st.Ver) && st.Ver != in.Exp) {
					return false, st
				}
				if symbolic(st.Ver) && st.Ver[1:] != "" && st.Ver[1:] == in.Exp {
					return false, st // succeeded with the version that the PutMany item replaced
				}
				return true, written(in, out.Ver)
			case EConflict:
				return st.E && (symbolic(st.Ver) || st.Ver != in.Exp), st
			case ENotExist:
				return !st.E, st
			}
			return false, st
		case KDelete:
			if out.Err == ENil {
				return st.E, kvState{}
			}
			if out.Err == ENotExist {
				return !st.E, st
			}
			return false, st
		case KWait:
			switch out.Err {
			case ENil: // the key exists with a version different from the given one
				return st.E && (symbolic(st.Ver) || st.Ver != in.Exp), st
			case ENotExist:
				return !st.E, st
			case ECtx: // legality of a context error is decided outside (cancel must precede the return)
				return true, st
			}
			return false, st
		}
		return false, st
	}
}

// Check runs porcupine on the recorded history. It returns Ok / Illegal / Unknown.
func Check(recs []Rec, timeout time.Duration) porcupine.CheckResult {
	ops := make([]porcupine.Operation, len(recs))
	for i, r := range recs {
		in := r.In
		in.RetAt = r.Ret
		ops[i] = porcupine.Operation{ClientId: r.Client, Input: in, Call: r.Call, Output: r.Out, Return: r.Ret}
	}
	res, _ := porcupine.CheckOperationsVerbose(KVModel, ops, timeout)
	return res
}

// IllegalKey finds a key whose sub-history is not linearizable and returns that sub-history, shortened
// (greedily) as long as it stays illegal — the witness that goes into the replay file.
func IllegalKey(recs []Rec, timeout time.Duration) (string, []Rec) {
	byKey := map[string][]Rec{}
	for _, r := range recs {
		byKey[r.In.Key] = append(byKey[r.In.Key], r)
	}
	keys := make([]string, 0, len(byKey))
	for k := range byKey {
		keys = append(keys, k)
	}
	sort.Strings(keys)
	for _, k := range keys {
		sub := byKey[k]
		if Check(sub, timeout) != porcupine.Illegal {
			continue
		}
		// greedy shrinking: drop operations that are not needed for the illegality (only reads and failed
		// operations can be dropped without changing the meaning of the rest)
		for i := 0; i < len(sub) && len(sub) <= 64; {
			r := sub[i]
			droppable := r.In.Kind == KGet || r.In.Kind == KWait || r.Out.Err != ENil
			if droppable {
				cand := append(append([]Rec(nil), sub[:i]...), sub[i+1:]...)
				if Check(cand, timeout) == porcupine.Illegal {
					sub = cand
					continue
				}
			}
			i++
		}
		return k, sub
	}
	return "", nil
}

// Overlaps counts pairs of operations on the same key whose intervals overlap.
func Overlaps(recs []Rec) int {
	n := 0
	byKey := map[string][]Rec{}
	for _, r := range recs {
		byKey[r.In.Key] = append(byKey[r.In.Key], r)
	}
	for _, sub := range byKey {
		for i := 0; i < len(sub); i++ {
			for j := i + 1; j < len(sub); j++ {
				if sub[i].Client != sub[j].Client && sub[i].Call <= sub[j].Ret && sub[j].Call <= sub[i].Ret {
					n++
				}
			}
		}
	}
	return n
}
