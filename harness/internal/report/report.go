// Package report collects what a check run observed, classifies violations against the committed
// known-findings file and writes the evidence file. It is the only place that prints VIOLATION /
// KNOWN-FINDING / INCONCLUSIVE lines.
package report

import (
	"bufio"
	"encoding/json"
	"fmt"
	"hash/fnv"
	"os"
	"path/filepath"
	"sort"
	"strconv"
	"strings"
	"sync"
	"sync/atomic"
	"time"
)

// verifDir is /verif, or the snapshot the driver runs from (VERIF_DIR is exported by ./check).
var verifDir = func() string {
	if d := os.Getenv("VERIF_DIR"); d != "" {
		return d
	}
	return "/verif"
}()

// Run is the accumulator of one check run (one property, one tier, one seed).
type Run struct {
	ID    string
	Level string

	tier string
	seed int64

	start time.Time

	evals atomic.Int64

	mu           sync.Mutex
	distinct     map[uint64]struct{}
	distinctBase int64
	samples      []any
	extra        map[string]any
	counters     map[string]*atomic.Int64
	rule         string
	assumptions  []string
	exhaustive   bool
	violations   int
	inconclusive []string
	known        map[string]string // sig -> text (for this property)
	knownSeen    map[string]bool
	vioSeen      map[string]bool
	finished     bool
}

// New creates the accumulator. level is one of the EVIDENCE.schema levels.
func New(id, level string) *Run {
	r := &Run{ID: id, Level: level, start: time.Now()}
	r.tier = os.Getenv("VERIF_TIER")
	if r.tier != "thorough" {
		r.tier = "quick"
	}
	r.seed = 1
	if s := os.Getenv("VERIF_SEED"); s != "" {
		if v, err := strconv.ParseInt(s, 10, 64); err == nil {
			r.seed = v
		}
	}
	r.distinct = map[uint64]struct{}{}
	r.extra = map[string]any{}
	r.counters = map[string]*atomic.Int64{}
	r.known = map[string]string{}
	r.knownSeen = map[string]bool{}
	r.vioSeen = map[string]bool{}
	r.loadKnown()
	return r
}

func (r *Run) loadKnown() {
	f, err := os.Open(filepath.Join(verifDir, "known_findings.txt"))
	if err != nil {
		return
	}
	defer f.Close()
	sc := bufio.NewScanner(f)
	for sc.Scan() {
		line := strings.TrimSpace(sc.Text())
		if !strings.HasPrefix(line, "known:") {
			continue // "fixed:" lines and comments suppress nothing
		}
		fields := strings.Fields(line[len("known:"):])
		var prop, sig string
		var rest []string
		for _, f := range fields {
			switch {
			case strings.HasPrefix(f, "property=") && prop == "":
				prop = f[len("property="):]
			case strings.HasPrefix(f, "sig=") && sig == "":
				sig = f[len("sig="):]
			default:
				rest = append(rest, f)
			}
		}
		if prop == r.ID && sig != "" {
			r.known[sig] = strings.Join(rest, " ")
		}
	}
}

func (r *Run) Tier() string   { return r.tier }
func (r *Run) Thorough() bool { return r.tier == "thorough" }
func (r *Run) Seed() int64    { return r.seed }

// Pick returns q in the quick tier and t in the thorough tier.
func (r *Run) Pick(q, t int) int {
	if r.Thorough() {
		return t
	}
	return q
}

// Eval counts n evaluated cases.
func (r *Run) Eval(n int) { r.evals.Add(int64(n)) }

// Distinct registers the hash of a non-trivial case; only distinct hashes are counted.
func (r *Run) Distinct(h uint64) {
	r.mu.Lock()
	r.distinct[h] = struct{}{}
	r.mu.Unlock()
}

// DistinctStr is Distinct over a string.
func (r *Run) DistinctStr(s string) { r.Distinct(HashStr(s)) }

// DistinctAdd adds n cases that the caller has itself established to be pairwise distinct and
// different from everything registered through Distinct (e.g. an enumerated input range).
func (r *Run) DistinctAdd(n int64) {
	r.mu.Lock()
	r.distinctBase += n
	r.mu.Unlock()
}

func HashStr(s string) uint64 {
	h := fnv.New64a()
	h.Write([]byte(s))
	return h.Sum64()
}

// Sample keeps up to 6 written-out cases.
func (r *Run) Sample(s any) {
	r.mu.Lock()
	if len(r.samples) < 6 {
		r.samples = append(r.samples, s)
	}
	r.mu.Unlock()
}

// SampleN reports how many samples are stored already (to avoid building expensive ones).
func (r *Run) SampleN() int {
	r.mu.Lock()
	defer r.mu.Unlock()
	return len(r.samples)
}

func (r *Run) Rule(s string)        { r.mu.Lock(); r.rule = s; r.mu.Unlock() }
func (r *Run) Assume(s string)      { r.mu.Lock(); r.assumptions = append(r.assumptions, s); r.mu.Unlock() }
func (r *Run) Exhaustive(b bool)    { r.mu.Lock(); r.exhaustive = b; r.mu.Unlock() }
func (r *Run) Note(k string, v any) { r.mu.Lock(); r.extra[k] = v; r.mu.Unlock() }

// Counter returns a named counter that ends up in coverage.
func (r *Run) Counter(k string) *atomic.Int64 {
	r.mu.Lock()
	defer r.mu.Unlock()
	c, ok := r.counters[k]
	if !ok {
		c = new(atomic.Int64)
		r.counters[k] = c
	}
	return c
}

// Add adds n to the named counter.
func (r *Run) Add(k string, n int64) { r.Counter(k).Add(n) }

// Max raises the named counter to at least v.
func (r *Run) Max(k string, v int64) {
	c := r.Counter(k)
	for {
		o := c.Load()
		if v <= o || c.CompareAndSwap(o, v) {
			return
		}
	}
}

// Violation records a violation with signature sig. If the known-findings file lists sig for this
// property a KNOWN-FINDING line is printed (once) and the run is not failed. Otherwise the witness
// is written to a replay file and a VIOLATION line is printed (once per sig; the count still grows).
// It reports whether the violation was a known finding.
func (r *Run) Violation(sig, what string, witness any) bool {
	r.mu.Lock()
	defer r.mu.Unlock()
	if text, ok := r.known[sig]; ok {
		if !r.knownSeen[sig] {
			r.knownSeen[sig] = true
			fmt.Fprintf(os.Stdout, "KNOWN-FINDING: property=%s sig=%s %s\n", r.ID, sig, text)
		}
		return true
	}
	r.violations++
	if r.vioSeen[sig] {
		return false
	}
	r.vioSeen[sig] = true
	n := len(r.vioSeen)
	_ = os.MkdirAll(filepath.Join(verifDir, "replays"), 0o755)
	suffix := ""
	if os.Getenv("VERIF_REPLAY") != "" {
		suffix = "-replayed" // never overwrite the file that is being replayed
	}
	path := filepath.Join(verifDir, "replays", fmt.Sprintf("%s-%s-s%d-%d%s.json", r.ID, r.tier, r.seed, n, suffix))
	doc := map[string]any{
		"property": r.ID, "sig": sig, "what": what, "tier": r.tier, "seed": r.seed, "witness": witness,
	}
	b, err := json.MarshalIndent(doc, "", " ")
	if err != nil {
		b = []byte(fmt.Sprintf("{\"property\":%q,\"sig\":%q,\"what\":%q,\"witness\":%q}", r.ID, sig, what, fmt.Sprint(witness)))
	}
	_ = os.WriteFile(path, b, 0o644)
	fmt.Fprintf(os.Stdout, "VIOLATION property=%s replay=%s sig=%s %s\n", r.ID, path, sig, oneLine(what))
	return false
}

func oneLine(s string) string {
	s = strings.ReplaceAll(s, "\n", " | ")
	if len(s) > 400 {
		s = s[:400] + "..."
	}
	return s
}

// Violations returns the number of non-known violations so far.
func (r *Run) Violations() int {
	r.mu.Lock()
	defer r.mu.Unlock()
	return r.violations
}

// Inconclusive records that some part of the run could not decide.
func (r *Run) Inconclusive(msg string) {
	r.mu.Lock()
	r.inconclusive = append(r.inconclusive, msg)
	r.mu.Unlock()
}

// Failer is the part of testing.T that Finish needs.
type Failer interface {
	Helper()
	Errorf(format string, args ...any)
	Logf(format string, args ...any)
}

// Finish writes the evidence file and fails t on violation / inconclusive / empty run. The process
// exit code is then derived by TestMain via ExitCode.
func (r *Run) Finish(t Failer) {
	t.Helper()
	r.mu.Lock()
	if r.finished {
		r.mu.Unlock()
		return
	}
	r.finished = true
	evals := r.evals.Load()
	distinct := int64(len(r.distinct)) + r.distinctBase
	cov := map[string]any{}
	for k, v := range r.extra {
		cov[k] = v
	}
	keys := make([]string, 0, len(r.counters))
	for k := range r.counters {
		keys = append(keys, k)
	}
	sort.Strings(keys)
	for _, k := range keys {
		cov[k] = r.counters[k].Load()
	}
	cov["evaluations"] = evals
	cov["distinct_nontrivial"] = distinct
	cov["rule"] = r.rule
	samples := r.samples
	if samples == nil {
		samples = []any{}
	}
	cov["samples"] = samples
	if r.exhaustive {
		cov["exhaustive"] = true
	}
	if len(r.inconclusive) > 0 {
		cov["inconclusive"] = r.inconclusive
	}
	knownSeen := make([]string, 0)
	for k := range r.knownSeen {
		knownSeen = append(knownSeen, k)
	}
	sort.Strings(knownSeen)
	if len(knownSeen) > 0 {
		cov["known_findings_observed"] = knownSeen
	}
	ev := map[string]any{
		"property_id": r.ID,
		"tier":        r.tier,
		"seed":        r.seed,
		"level":       r.Level,
		"coverage":    cov,
		"assumptions": r.assumptions,
		"wall_s":      wallSeconds(r.start),
		"violations":  r.violations,
	}
	if ev["assumptions"] == nil {
		ev["assumptions"] = []string{}
	}
	violations := r.violations
	inconcl := append([]string(nil), r.inconclusive...)
	r.mu.Unlock()

	path := os.Getenv("VERIF_EVIDENCE")
	if path == "" {
		path = filepath.Join(verifDir, "evidence", r.ID+".json")
	}
	b, err := json.MarshalIndent(ev, "", " ")
	if err != nil {
		t.Errorf("evidence marshal: %v", err)
	} else {
		_ = os.MkdirAll(filepath.Dir(path), 0o755)
		tmp := path + ".tmp"
		if err := os.WriteFile(tmp, append(b, '\n'), 0o644); err != nil {
			t.Errorf("evidence write: %v", err)
		} else if err := os.Rename(tmp, path); err != nil {
			t.Errorf("evidence rename: %v", err)
		}
	}
	fmt.Fprintf(os.Stdout, "SUMMARY property=%s tier=%s seed=%d evaluations=%d distinct=%d violations=%d known=%d wall=%.1fs\n",
		r.ID, r.tier, r.seed, evals, distinct, violations, len(knownSeen), wallSeconds(r.start))
	if violations > 0 {
		exitCode.Store(1)
		t.Errorf("%d violation(s)", violations)
		return
	}
	if len(inconcl) > 0 {
		fmt.Fprintf(os.Stdout, "INCONCLUSIVE property=%s %s\n", r.ID, oneLine(strings.Join(inconcl, "; ")))
		if exitCode.Load() == 0 {
			exitCode.Store(2)
		}
		t.Errorf("inconclusive: %v", inconcl)
		return
	}
	if evals == 0 || distinct < 2 {
		fmt.Fprintf(os.Stdout, "INCONCLUSIVE property=%s the run observed nothing (evaluations=%d distinct=%d)\n", r.ID, evals, distinct)
		if exitCode.Load() == 0 {
			exitCode.Store(2)
		}
		t.Errorf("empty run")
	}
}

// wallSeconds is the elapsed real time; inside a synctest bubble the clock is virtual (year 2000), in which case 0 is reported.
func wallSeconds(start time.Time) float64 {
	if w := time.Since(start).Seconds(); w > 0 {
		return w
	}
	return 0
}

var exitCode atomic.Int32

// ExitCode maps the outcome of m.Run() to the process exit code used by the driver:
// 0 held, 1 violation, 2 inconclusive / harness failure.
func ExitCode(testResult int) int {
	if c := exitCode.Load(); c != 0 {
		return int(c)
	}
	if testResult != 0 {
		return 2
	}
	return 0
}
