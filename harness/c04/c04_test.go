// C04 — distributed lock: hand-off, cancellation and shutdown leave no residue (DESIGN §3 C04).
// Engine E1 (internal/locksim): no faults; Shutdown and cancellation are schedulable actions. Oracles:
// exact stuck detection at quiescence (lost wake-up / lost token), return-value contract, residue probe.
package c04

import (
	"os"
	"runtime"
	"testing"
	"time"

	"verifharness/internal/locksim"
	"verifharness/internal/report"
	"verifharness/internal/shard"
)

func TestMain(m *testing.M) {
	locksim.SilenceLogging()
	os.Exit(report.ExitCode(m.Run()))
}

const prop = "C04"

// every signal of the shared engine except the exclusion monitor (C01) belongs to this property
func mine(sig string) bool { return sig != "lock/two-holders" }

var plan = locksim.Plan{
	Prop: prop, Level: "exploration", Kind: "c04", Mine: mine,
	NRandom:   func(run *report.Run) int { return run.Pick(40000, 3000000) },
	DFSBudget: func(run *report.Run) int { return run.Pick(1500, 150000) },
}

// TestChild runs one shard of the controlled part in a single bubble.
func TestChild(t *testing.T) { locksim.ChildMain(t, plan) }

func TestCheck(t *testing.T) {
	run := report.New(prop, "exploration")
	defer run.Finish(t)
	run.Rule("scenarios of 2-5 workers (distinct Lockers of 1-3 providers and goroutines sharing a Locker) running programs of 1-3 attempts over {Lock, TryLock, LockWithCtx} with re-acquisition, inside a synctest bubble; every kvs.Storage call of the lock code is a gate; one enabled action per step: release a gate, start an attempt, cancel a LockWithCtx before or during the call, leave a critical section, Shutdown a provider. Random and PCT schedules plus exhaustive DFS of 27 two-worker configurations. Oracles: (a) stuck = unfinished workers and no progress action at quiescence; (b) return values (cancelled-before-call => context error; uncancelled attempts succeed; nothing acquires after Shutdown returned); (c) residue at the end: no lock record, empty waiter table, no pending lease timer, TryLock/Unlock works again on every Locker of a live provider. distinct = distinct (configuration, action trace) pairs executed")
	run.Assume("liveness is decided in its bounded form: every controlled execution is finite and never reaches a state without a progress action while a worker is unfinished")
	run.Assume("attempts already parked in the storage wait when Shutdown is called are not constrained by the statement and are not judged; frozen virtual time")

	if p := os.Getenv("VERIF_REPLAY"); p != "" {
		locksim.Replay(t, run, p, mine)
		return
	}
	nsh := runtime.NumCPU()
	shard.Run(run, "TestChild", "random", nsh, 45*time.Minute)
	shard.Run(run, "TestChild", "dfs", nsh, 45*time.Minute)
}
