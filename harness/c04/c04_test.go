// C04 — distributed lock: hand-off, cancellation and shutdown leave no residue (DESIGN §3 C04).
// Engine E1 (internal/locksim): no faults; Shutdown and cancellation are schedulable actions. Oracles:
// exact stuck detection at quiescence (lost wake-up / lost token), return-value contract, residue probe.
package c04

import (
	"context"
	"errors"
	"fmt"
	"math/rand"
	"os"
	"runtime"
	"sync"
	"sync/atomic"
	"testing"
	"time"

	"github.com/acquirecloud/golibs/kvs"
	dist "github.com/acquirecloud/golibs/kvs/distlock"
	"github.com/acquirecloud/golibs/kvs/inmem"
	gsync "github.com/acquirecloud/golibs/sync"

	"verifharness/internal/locksim"
	"verifharness/internal/locktap"
	"verifharness/internal/report"
	"verifharness/internal/shard"
)

func TestMain(m *testing.M) {
	locksim.SilenceLogging()
	os.Exit(report.ExitCode(m.Run()))
}

const prop = "C04"

// every signal of the shared engine except the exclusion monitor (C01) belongs to this property
func mine(sig string) bool { return sig != "lock/two-holders" }

var plan = locksim.Plan{
	Prop: prop, Level: "exploration", Kind: "c04", Mine: mine,
	NRandom:   func(run *report.Run) int { return run.Pick(40000, 3000000) },
	DFSBudget: func(run *report.Run) int { return run.Pick(1500, 150000) },
}

// TestChild runs one shard of the controlled part in a single bubble.
func TestChild(t *testing.T) { locksim.ChildMain(t, plan) }

// freeRound: real scheduling (race detector on). W workers on several Lockers of several providers over one
// in-memory store each acquire and release the lock K times through Lock / LockWithCtx (some with short
// deadlines) / TryLock. Hand-off: everybody must finish; a waiter that misses the release of the lock is only
// rescued when the lease (10 s by default) of the record it waits for runs out, so a round that needs more
// than handOffBound is a lost wake-up (healthy: milliseconds). Residue: afterwards the record is gone, the
// waiter table is empty and every Locker can TryLock/Unlock.
const handOffBound = 4 * time.Second

type freeCfg struct {
	Seed      int64 `json:"seed"`
	Providers int   `json:"providers"`
	Lockers   int   `json:"lockers"`
	Workers   int   `json:"workers"`
	K         int   `json:"acquisitions"`
	// Slow: the lease is 400 ms (hook) and holders keep the lock 120-250 ms, i.e. longer than a quarter of a
	// lease: whatever internal timeouts the waiting path has, an attempt whose own context is alive must not fail
	Slow bool `json:"slow_holders,omitempty"`
}

func freeRound(c freeCfg) (sig, what string, timeBound bool) {
	inner := inmem.New()
	var provs []dist.LockProvider
	for i := 0; i < c.Providers; i++ {
		p := dist.NewKvsLockProvider(inner, "/h/")
		if c.Slow {
			dist.VerifSetLeaseTTL(p, 400*time.Millisecond)
		}
		provs = append(provs, p)
	}
	var failMu sync.Mutex
	failed := ""
	var lockers []gsync.Locker
	for i := 0; i < c.Lockers; i++ {
		lockers = append(lockers, provs[i%c.Providers].NewLocker("x"))
	}
	var wg sync.WaitGroup
	var acquired atomic.Int64
	begin := time.Now()
	for w := 0; w < c.Workers; w++ {
		wg.Add(1)
		go func(w int) {
			defer wg.Done()
			r := rand.New(rand.NewSource(c.Seed*131 + int64(w)))
			l := lockers[w%c.Lockers]
			for i := 0; i < c.K; i++ {
				got := false
				x := r.Intn(5)
				if c.Slow && x < 2 {
					x = 2 + r.Intn(2)
				}
				switch x {
				case 0:
					got = l.TryLock(context.Background())
				case 1:
					ctx, cancel := context.WithTimeoutCause(context.Background(), time.Duration(r.Intn(400))*time.Microsecond, errTooSlow)
					err := l.LockWithCtx(ctx)
					got = err == nil
					if err != nil && !errors.Is(err, ctx.Err()) {
						failMu.Lock()
						failed = fmt.Sprintf("LockWithCtx whose context ended (%v, cause %v) returned %v, want the context's error", ctx.Err(), context.Cause(ctx), err)
						failMu.Unlock()
					}
					cancel()
				case 2:
					err := l.LockWithCtx(context.Background())
					got = err == nil
					if err != nil {
						failMu.Lock()
						failed = fmt.Sprintf("LockWithCtx with a live (background) context returned %v", err)
						failMu.Unlock()
					}
				default:
					func() {
						defer func() {
							if p := recover(); p != nil {
								failMu.Lock()
								failed = fmt.Sprintf("Lock panicked: %v", p)
								failMu.Unlock()
							}
						}()
						l.Lock()
						got = true
					}()
				}
				if got && c.Slow {
					time.Sleep(time.Duration(120+r.Intn(130)) * time.Millisecond)
				}
				if got {
					acquired.Add(1)
					if r.Intn(3) == 0 {
						runtime.Gosched()
					}
					l.Unlock()
				}
			}
		}(w)
	}
	done := make(chan struct{})
	go func() { wg.Wait(); close(done) }()
	select {
	case <-done:
	case <-time.After(60 * time.Second):
		return "lock/free-running-stuck", fmt.Sprintf("real scheduling: %d workers on %d lockers did not all finish their %d acquisitions within 60 s (healthy: milliseconds)", c.Workers, c.Lockers, c.K), true
	}
	if failed != "" {
		return "lock/attempt-failed-without-cause", "real scheduling: nothing was cancelled, injected or shut down, but " + failed, false
	}
	if el := time.Since(begin); el > handOffBound && !c.Slow {
		return "lock/free-running-hand-off-late", fmt.Sprintf("real scheduling: %d workers needed %v for %d acquisitions each (healthy: milliseconds): a waiter was not woken by the release it waited for and was only rescued by the lease running out", c.Workers, el, c.K), true
	}
	if _, err := inner.Get(context.Background(), "/h/x"); err == nil {
		return "lock/residue/record", "real scheduling: everybody has unlocked but the lock record is still in the store", false
	}
	if t := inmem.VerifWaiters(inner); len(t) != 0 {
		return "lock/residue/waiter-table", fmt.Sprintf("real scheduling: waiter table not empty at the end: %v", t), false
	}
	for i, l := range lockers {
		if !l.TryLock(context.Background()) {
			return "lock/residue/trylock-false", fmt.Sprintf("real scheduling: at the end TryLock on locker %d fails", i), false
		}
		l.Unlock()
	}
	for _, p := range provs {
		p.Shutdown()
	}
	_ = kvs.Record{}
	return "", "", false
}

var errTooSlow = errors.New("too slow (custom deadline cause)")

func TestCheck(t *testing.T) {
	run := report.New(prop, "exploration")
	defer run.Finish(t)
	run.Rule("scenarios of 2-5 workers (distinct Lockers of 1-3 providers and goroutines sharing a Locker) running programs of 1-3 attempts over {Lock, TryLock, LockWithCtx} with re-acquisition, inside a synctest bubble; every kvs.Storage call of the lock code is a gate; one enabled action per step: release a gate, start an attempt, cancel a LockWithCtx before or during the call, leave a critical section, Shutdown a provider. Random and PCT schedules plus exhaustive DFS of 27 two-worker configurations. Oracles: (a) stuck = unfinished workers and no progress action at quiescence; (b) return values (cancelled-before-call => context error; uncancelled attempts succeed; nothing acquires after Shutdown returned); (c) residue at the end: no lock record, empty waiter table, TryLock/Unlock works again (pending lease timers are counted, not judged: C05 tolerates one armed renewal per finished tenure) on every Locker of a live provider. free-running (repeated by a second pass built without the race detector): 600 / 30 000 rounds of 3-10 real goroutines on 2-4 Lockers under the race detector: everybody finishes within 4 s (a missed release is only rescued by the 10 s lease), then the same residue probes. distinct = distinct (configuration, action trace) pairs executed + distinct free-running configurations")
	run.Assume("liveness is decided in its bounded form: every controlled execution is finite and never reaches a state without a progress action while a worker is unfinished")
	run.Assume("attempts already parked in the storage wait when Shutdown is called are not constrained by the statement and are not judged; frozen virtual time")

	if p := os.Getenv("VERIF_REPLAY"); p != "" {
		locksim.Replay(t, run, p, mine)
		return
	}
	// the second pass (VERIF_PASS=norace: built without the race detector, i.e. with different timing) repeats the
	// free-running rounds only
	norace := os.Getenv("VERIF_PASS") == "norace"
	if !norace {
		nsh := runtime.NumCPU()
		childLimit := time.Duration(run.Pick(150, 2700)) * time.Second
		shard.Run(run, "TestChild", "random", nsh, childLimit)
		shard.Run(run, "TestChild", "dfs", nsh, childLimit)
	}

	// free-running hand-off and residue under real scheduling
	n := run.Pick(600, 30000)
	var wg sync.WaitGroup
	jobs := make(chan freeCfg, 32)
	for w := 0; w < runtime.NumCPU()/2; w++ {
		wg.Add(1)
		go func() {
			defer wg.Done()
			for c := range jobs {
				if run.Violations() > 0 {
					continue
				}
				for attempt := 1; ; attempt++ {
					var worst atomic.Int64
					stop := make(chan struct{})
					go func() { // stall canary
						for {
							select {
							case <-stop:
								return
							default:
							}
							t0 := time.Now()
							time.Sleep(2 * time.Millisecond)
							if o := int64(time.Since(t0) - 2*time.Millisecond); o > worst.Load() {
								worst.Store(o)
							}
						}
					}()
					sig, what, tb := freeRound(c)
					close(stop)
					stall := time.Duration(worst.Load())
					if sig != "" && tb && stall > handOffBound/8 {
						if attempt < 3 {
							run.Add("free_rounds_repeated_because_of_a_stall", 1)
							continue
						}
						run.Inconclusive(fmt.Sprintf("%s (canary stall %v)", what, stall))
						break
					}
					run.Eval(1)
					run.Add("free_rounds", 1)
					run.DistinctStr(fmt.Sprint("free", c))
					if sig != "" {
						run.Violation(sig, what, map[string]any{"mode": "free", "config": c})
					}
					break
				}
			}
		}()
	}
	rng := rand.New(rand.NewSource(run.Seed()))
	for i := 0; i < n; i++ {
		jobs <- freeCfg{Seed: run.Seed()*100_003 + int64(i), Providers: 1 + rng.Intn(3), Lockers: 2 + rng.Intn(3), Workers: 3 + rng.Intn(8), K: 4 + rng.Intn(5)}
	}
	// hand-off against a stale renewal in flight (real clock, short lease, gated storage)
	var hwg sync.WaitGroup
	for i := 0; i < run.Pick(4, 16) && !norace; i++ {
		hwg.Add(1)
		go func(i int) {
			defer hwg.Done()
			L := []time.Duration{400 * time.Millisecond, 300 * time.Millisecond}[i%2]
			for attempt := 1; ; attempt++ {
				o := locktap.HandOffVsInflightRenewal(L, 1+i%2)
				if o.Skipped != "" {
					run.Add("handoff_vs_inflight_renewal_skipped", 1)
					return
				}
				if o.Sig != "" && o.Stall > 500*time.Millisecond {
					if attempt < 3 {
						continue
					}
					run.Inconclusive(fmt.Sprintf("%s (canary stall %v)", o.What, o.Stall))
					return
				}
				run.Eval(1)
				run.Add("handoff_vs_inflight_renewal_scenarios", 1)
				run.DistinctStr(fmt.Sprint("handoff-vs-inflight-renewal", L, 1+i%2))
				if o.Sig != "" {
					run.Violation("lock/"+o.Sig, "real clock: "+o.What, map[string]any{"mode": "handoff-vs-inflight-renewal", "lease": L.String(), "renewal": 1 + i%2})
				}
				return
			}
		}(i)
	}
	// a stale renewal of the first tenure answered during the second tenure of the same Locker (logical steps)
	for i := 0; i < run.Pick(4, 16) && !norace; i++ {
		hwg.Add(1)
		go func(i int) {
			defer hwg.Done()
			L := []time.Duration{400 * time.Millisecond, 300 * time.Millisecond}[i%2]
			o := locktap.StaleRenewalAfterReacquire(L, 1+i%2)
			if o.Skipped != "" {
				run.Add("stale_renewal_after_reacquire_skipped", 1)
				return
			}
			run.Eval(1)
			run.Add("stale_renewal_after_reacquire_scenarios", 1)
			run.DistinctStr(fmt.Sprint("stale-renewal-after-reacquire", L, 1+i%2))
			if o.Sig != "" {
				run.Violation("lock/"+o.Sig, "real clock: "+o.What, map[string]any{"mode": "stale-renewal-after-reacquire", "lease": L.String(), "renewal": 1 + i%2})
			}
		}(i)
	}
	defer hwg.Wait()
	// slow holders with a short lease (these rounds mostly sleep)
	for i := 0; i < run.Pick(6, 60); i++ {
		jobs <- freeCfg{Seed: run.Seed()*7_003 + int64(i), Providers: 2, Lockers: 2 + i%2, Workers: 3 + i%2, K: 2, Slow: true}
	}
	close(jobs)
	wg.Wait()
}
