// C07 — WaitForVersionChange never misses or invents a change (DESIGN §3 C07).
// Scripted part: inmem inside synctest bubbles with frozen time; after every event the bubble is brought
// to quiescence and each waiter's status is compared with the model; the waiter table is read through a
// verif hook. Free-running part: both backends under the race detector, waiter returns checked by
// porcupine as read-like operations.
package c07

import (
	"context"
	"encoding/json"
	"errors"
	"fmt"
	"math/rand"
	"os"
	"runtime"
	"sort"
	"strings"
	"sync"
	"sync/atomic"
	"testing"
	"testing/synctest"
	"time"

	gerrors "github.com/acquirecloud/golibs/errors"
	"github.com/acquirecloud/golibs/kvs"
	"github.com/acquirecloud/golibs/kvs/inmem"
	"github.com/acquirecloud/golibs/timeout"
	"github.com/alicebob/miniredis/v2/server"
	"github.com/anishathalye/porcupine"

	"verifharness/internal/hist"
	"verifharness/internal/kvmodel"
	"verifharness/internal/report"
	"verifharness/internal/shard"
)

func TestMain(m *testing.M) { os.Exit(report.ExitCode(m.Run())) }

// ------------------------------------------------------------------ scripted part

type ev struct {
	K   string `json:"k"` // start cancel put putmany1 putmany2 casok casconf delete create
	Key int    `json:"key,omitempty"`
	Ver string `json:"ver,omitempty"` // start: cur stale unknown
	I   int    `json:"i,omitempty"`   // cancel: waiter index (in start order)
}

func (e ev) String() string {
	switch e.K {
	case "start":
		return fmt.Sprintf("start(k%d,%s)", e.Key, e.Ver)
	case "cancel":
		return fmt.Sprintf("cancel(w%d)", e.I)
	case "cancelput":
		return fmt.Sprintf("cancel(w%d)+put+start", e.I)
	case "startput":
		return fmt.Sprintf("start(k%d,cur)+put", e.Key)
	case "tick":
		return "clock+1h"
	case "ticklist":
		return "clock+30min+0.5ms,ListKeys,clock+30min"
	}
	return fmt.Sprintf("%s(k%d)", e.K, e.Key)
}

type script struct {
	Init   int  `json:"init"` // bit0: k1 present, bit1: k2 present
	Events []ev `json:"events"`
}

var eventAlphabet = []ev{
	{K: "start", Key: 1, Ver: "cur"}, {K: "start", Key: 1, Ver: "stale"}, {K: "start", Key: 1, Ver: "unknown"}, {K: "start", Key: 2, Ver: "cur"},
	{K: "cancel", I: 0}, {K: "cancel", I: 1}, {K: "cancel", I: 2},
	{K: "put", Key: 1}, {K: "put", Key: 2}, {K: "putmany1", Key: 1}, {K: "putmany2", Key: 1},
	{K: "casok", Key: 1}, {K: "casconf", Key: 1}, {K: "delete", Key: 1}, {K: "create", Key: 1}, {K: "delete", Key: 2},
	// combined events: no quiescence between the parts (a leaver races a mutation and a newcomer)
	{K: "cancelput", I: 0}, {K: "cancelput", I: 1}, {K: "startput", Key: 1},
	// expiry: a write with an expiry 30 virtual minutes ahead, and the clock moving one hour
	{K: "putexp", Key: 1}, {K: "tick"},
	// the same hour, but somebody lists the keys half a millisecond after the first 30 minutes (i.e. right after
	// records written with an expiry at the start of the hour have expired, before the waiters' own wake-up)
	{K: "ticklist"},
	// a write whose record is already expired: the key is absent afterwards, parked waiters must be told
	{K: "putdead", Key: 1},
}

type swaiter struct {
	key      string
	ver      string
	cancel   context.CancelFunc
	res      chan error
	done     bool // model: has it returned?
	expect   string
	alt      string // second legal status when two things happened without quiescence in between
	started  int
	deadline time.Time // zero: none
}

type vio struct{ sig, what string }

// runScript executes one script inside a bubble. visit receives state classes for the evidence.
func runScript(sc script, visit func(string)) *vio {
	s := inmem.New()
	bg := context.Background()
	keys := map[int]string{1: "k1", 2: "k2"}
	cur := map[string]string{}      // model: current version per present key
	stale := map[string]string{}    // a superseded version per key
	expAt := map[string]time.Time{} // model: keys whose record carries an expiry
	learn := func(k string) {
		r, err := s.Get(bg, k)
		if err == nil {
			if old, ok := cur[k]; ok && old != r.Version {
				stale[k] = old
			}
			cur[k] = r.Version
		} else {
			if old, ok := cur[k]; ok {
				stale[k] = old
			}
			delete(cur, k)
		}
	}
	for i := 1; i <= 2; i++ {
		if sc.Init&(1<<(i-1)) != 0 {
			// two writes so that a stale version exists
			if _, err := s.Put(bg, kvs.Record{Key: keys[i], Value: []byte("0")}); err != nil {
				return &vio{"inmem/Put/error", err.Error()}
			}
			learn(keys[i])
			if _, err := s.Put(bg, kvs.Record{Key: keys[i], Value: []byte("1")}); err != nil {
				return &vio{"inmem/Put/error", err.Error()}
			}
			learn(keys[i])
		}
	}
	var ws []*swaiter
	cleanup := func() {
		for _, w := range ws {
			w.cancel()
		}
		synctest.Wait()
	}
	// after quiescence: compare every waiter with the model, and the table with the parked ones
	check := func(step int, e ev) *vio {
		synctest.Wait()
		parked := map[string]int{}
		for i, w := range ws {
			var got string
			select {
			case err := <-w.res:
				w.res <- err // keep it readable for later checks
				switch {
				case err == nil:
					got = "nil"
				case errors.Is(err, gerrors.ErrNotExist):
					got = "ErrNotExist"
				case errors.Is(err, context.Canceled), errors.Is(err, context.DeadlineExceeded):
					got = "ctx"
				default:
					got = "other:" + err.Error()
				}
			default:
				got = "parked"
			}
			if got == w.alt && w.alt != "" {
				w.expect, w.alt = got, "" // the race went the other way: both are legal
			}
			w.alt = ""
			if got != w.expect {
				kind := "missed"
				if w.expect == "parked" {
					kind = "invented"
				}
				return &vio{fmt.Sprintf("inmem/wait/%s:%s-want-%s/after-%s", kind, got, w.expect, e.K),
					fmt.Sprintf("after event %d %s: waiter w%d (key %s, version %s) is %s, the contract prescribes %s", step, e, i, w.key, w.ver, got, w.expect)}
			}
			if w.expect == "parked" {
				parked[w.key]++
			}
		}
		table := inmem.VerifWaiters(s)
		for k, n := range parked {
			if table[k] != n {
				return &vio{"inmem/wait/table-count/after-" + e.K, fmt.Sprintf("after event %d %s: %d waiters are parked on %s, the waiter table records %d", step, e, n, k, table[k])}
			}
		}
		for k, n := range table {
			if parked[k] == 0 {
				return &vio{"inmem/wait/table-residue/after-" + e.K, fmt.Sprintf("after event %d %s: nobody is parked on %s but the waiter table still holds an entry (count %d)", step, e, k, n)}
			}
		}
		if visit != nil {
			visit(fmt.Sprintf("%s|parked=%v|present=%d", e.K, parked, len(cur)))
		}
		return nil
	}
	// a mutation of key k wakes every waiter parked on it
	mutated := func(k string) {
		learn(k)
		for _, w := range ws {
			if w.key != k || w.expect != "parked" {
				continue
			}
			if v, ok := cur[k]; !ok {
				w.expect = "ErrNotExist"
			} else if v != w.ver {
				w.expect = "nil"
			}
		}
	}
	n := 0
	for step, e := range sc.Events {
		k := keys[e.Key]
		switch e.K {
		case "start":
			var ver string
			switch e.Ver {
			case "cur":
				ver = cur[k]
				if ver == "" {
					ver = "none"
				}
			case "stale":
				ver = stale[k]
				if ver == "" {
					ver = "never-existed"
				}
			default:
				ver = "unknown-version"
			}
			ctx, cancel := context.WithCancel(bg)
			var dl time.Time
			switch step % 3 {
			case 1:
				// a context deadline far beyond anything the script does (1000 virtual hours): the waiter must
				// behave like one without a deadline
				ctx, cancel = context.WithDeadline(bg, time.Now().Add(1000*time.Hour))
			case 2:
				// a deadline 10 virtual minutes ahead: earlier than the expiry of any record written with one
				// (30 minutes); it passes when the clock moves
				dl = time.Now().Add(10 * time.Minute)
				ctx, cancel = context.WithDeadline(bg, dl)
			}
			w := &swaiter{key: k, ver: ver, cancel: cancel, res: make(chan error, 1), started: n, deadline: dl}
			n++
			if v, ok := cur[k]; !ok {
				w.expect = "ErrNotExist"
			} else if v != ver {
				w.expect = "nil"
			} else {
				w.expect = "parked"
			}
			ws = append(ws, w)
			go func() { w.res <- s.WaitForVersionChange(ctx, k, ver) }()
		case "cancel":
			w := ws[e.I]
			w.cancel()
			if w.expect == "parked" {
				w.expect = "ctx"
			}
		case "cancelput":
			// waiter i gives up; at the same time its key is overwritten and a newcomer waits for the new
			// version - nothing is allowed to settle in between
			w := ws[e.I]
			wasParked := w.expect == "parked"
			w.cancel()
			delete(expAt, w.key)
			r, err := s.Put(bg, kvs.Record{Key: w.key, Value: []byte("q")})
			if err != nil {
				cleanup()
				return &vio{"inmem/Put/error", err.Error()}
			}
			ctx, cancel := context.WithCancel(bg)
			nw := &swaiter{key: w.key, ver: r.Version, cancel: cancel, res: make(chan error, 1), started: n, expect: "parked"}
			n++
			go func() { nw.res <- s.WaitForVersionChange(ctx, nw.key, nw.ver) }()
			mutated(w.key) // everybody parked on the key (the leaver included) sees the new version ...
			if wasParked {
				w.alt = "ctx" // ... unless the leaver noticed its context first
			}
			ws = append(ws, nw)
		case "startput":
			// a waiter for the current version starts while the key is being overwritten
			ver := cur[k]
			if ver == "" {
				ver = "none"
			}
			ctx, cancel := context.WithCancel(bg)
			nw := &swaiter{key: k, ver: ver, cancel: cancel, res: make(chan error, 1), started: n}
			n++
			go func() { nw.res <- s.WaitForVersionChange(ctx, nw.key, nw.ver) }()
			delete(expAt, k)
			if _, err := s.Put(bg, kvs.Record{Key: k, Value: []byte("r")}); err != nil {
				cleanup()
				return &vio{"inmem/Put/error", err.Error()}
			}
			mutated(k)
			// whatever the order of the check, the park and the Put was: the version differs now
			nw.expect = "nil"
			if ver == "none" {
				nw.alt = "ErrNotExist" // the key did not exist yet when the waiter looked
			}
			ws = append(ws, nw)
		case "putexp":
			at := time.Now().Add(30 * time.Minute)
			if _, err := s.Put(bg, kvs.Record{Key: k, Value: []byte("e"), ExpiresAt: &at}); err != nil {
				cleanup()
				return &vio{"inmem/Put/error", err.Error()}
			}
			mutated(k)
			expAt[k] = at
		case "putdead":
			past := time.Now().Add(-time.Minute)
			delete(expAt, k)
			if _, err := s.Put(bg, kvs.Record{Key: k, Value: []byte("d"), ExpiresAt: &past}); err != nil {
				cleanup()
				return &vio{"inmem/Put/error", err.Error()}
			}
			// logically the key is absent now; the store is not asked (a Get would purge and notify)
			if v, ok := cur[k]; ok {
				stale[k] = v
			}
			delete(cur, k)
			for _, w := range ws {
				if w.key == k && w.expect == "parked" {
					w.expect = "ErrNotExist"
				}
			}
		case "tick", "ticklist":
			// the clock passes every pending expiry and every short context deadline; the store is NOT touched (a
			// Get would purge the record and notify on the waiters' behalf): whoever is parked on an expired key
			// must come back by itself. ticklist: ListKeys (and nothing else) runs right after the first expiries.
			if e.K == "ticklist" {
				time.Sleep(30*time.Minute + 500*time.Microsecond)
				it, err := s.ListKeys(bg, "*")
				if err != nil {
					cleanup()
					return &vio{"inmem/ListKeys/error", err.Error()}
				}
				for it.HasNext() {
					if _, ok := it.Next(); !ok {
						break
					}
				}
				_ = it.Close()
				time.Sleep(30*time.Minute - 500*time.Microsecond)
			} else {
				time.Sleep(time.Hour)
			}
			// a parked waiter whose context deadline passes before its key expires gets the context's error
			for _, w := range ws {
				if w.expect == "parked" && !w.deadline.IsZero() && !w.deadline.After(time.Now()) {
					if at, ok := expAt[w.key]; !ok || w.deadline.Before(at) {
						w.expect = "ctx"
					}
				}
			}
			for key, at := range expAt {
				if at.Before(time.Now()) {
					if v, ok := cur[key]; ok {
						stale[key] = v
					}
					delete(cur, key)
					delete(expAt, key)
					for _, w := range ws {
						if w.key == key && w.expect == "parked" {
							w.expect = "ErrNotExist"
						}
					}
				}
			}
		case "put":
			delete(expAt, k)
			if _, err := s.Put(bg, kvs.Record{Key: k, Value: []byte("p")}); err != nil {
				cleanup()
				return &vio{"inmem/Put/error", err.Error()}
			}
			mutated(k)
		case "putmany1":
			delete(expAt, k)
			if err := s.PutMany(bg, []kvs.Record{{Key: k, Value: []byte("m"), Version: cur[k]}}); err != nil {
				cleanup()
				return &vio{"inmem/PutMany/error", err.Error()}
			}
			mutated(k)
		case "putmany2":
			delete(expAt, "k1")
			delete(expAt, "k2")
			if err := s.PutMany(bg, []kvs.Record{{Key: "k1", Value: []byte("m"), Version: cur["k1"]}, {Key: "k2", Value: []byte("m")}}); err != nil {
				cleanup()
				return &vio{"inmem/PutMany/error", err.Error()}
			}
			mutated("k1")
			mutated("k2")
		case "casok":
			_, err := s.CasByVersion(bg, kvs.Record{Key: k, Value: []byte("c"), Version: cur[k]})
			if _, ok := cur[k]; ok {
				if err != nil {
					cleanup()
					return &vio{"inmem/Cas/error", fmt.Sprintf("CAS with the current version failed: %v", err)}
				}
				delete(expAt, k)
				mutated(k)
			}
		case "casconf":
			_, err := s.CasByVersion(bg, kvs.Record{Key: k, Value: []byte("c"), Version: "not-the-version"})
			if err == nil {
				cleanup()
				return &vio{"inmem/Cas/bogus-version-succeeded", "CAS with a made-up version succeeded"}
			}
		case "delete":
			_ = s.Delete(bg, k)
			delete(expAt, k)
			mutated(k)
		case "create":
			if _, err := s.Create(bg, kvs.Record{Key: k, Value: []byte("n")}); err == nil {
				mutated(k)
			}
		}
		if v := check(step, e); v != nil {
			cleanup()
			return v
		}
	}
	// the end: everybody gives up; nothing may be left behind
	for _, w := range ws {
		w.cancel()
		if w.expect == "parked" {
			w.expect = "ctx"
		}
	}
	if v := check(len(sc.Events), ev{K: "end"}); v != nil {
		return v
	}
	return nil
}

func legal(prefix []ev, e ev) bool {
	starts := 0
	cancelled := map[int]bool{}
	for _, p := range prefix {
		if p.K == "start" || p.K == "startput" || p.K == "cancelput" {
			starts++
		}
		if p.K == "cancel" || p.K == "cancelput" {
			cancelled[p.I] = true
		}
	}
	switch e.K {
	case "start":
		return starts < 3
	case "cancel":
		return e.I < starts && !cancelled[e.I]
	case "cancelput":
		return e.I < starts && !cancelled[e.I] && starts < 3
	case "startput":
		return starts < 3
	}
	return true
}

func enumerate(depth int, emit func(script)) {
	var rec func(init int, evs []ev)
	rec = func(init int, evs []ev) {
		if len(evs) == depth {
			// scripts without any waiter say nothing about waiting
			for _, e := range evs {
				if e.K == "start" || e.K == "startput" {
					emit(script{Init: init, Events: evs})
					return
				}
			}
			return
		}
		for _, e := range eventAlphabet {
			if legal(evs, e) {
				rec(init, append(append([]ev(nil), evs...), e))
			}
		}
	}
	for _, init := range []int{3, 2} {
		rec(init, nil)
	}
}

// ------------------------------------------------------------------ free-running part

type frWitness struct {
	Backend string     `json:"backend"`
	Seed    int64      `json:"seed"`
	Key     string     `json:"key,omitempty"`
	History []hist.Rec `json:"history"`
}

type frFinding struct {
	sig, what string
	w         frWitness
}

func freeRound(backend string, s kvs.Storage, seed int64, run *report.Run) []frFinding {
	bg := context.Background()
	base := time.Now()
	now := func() int64 { return int64(time.Since(base)) }
	keys := []string{"k0", "k1"}
	const writers, waiters, wops, rounds = 3, 6, 8, 4
	var mu sync.Mutex
	var recs []hist.Rec
	add := func(r ...hist.Rec) { mu.Lock(); recs = append(recs, r...); mu.Unlock() }
	var out []frFinding
	var omu sync.Mutex
	report := func(f frFinding) { omu.Lock(); out = append(out, f); omu.Unlock() }

	var wg, wwg sync.WaitGroup
	var uniq atomic.Int64
	for w := 0; w < writers; w++ {
		wwg.Add(1)
		go func(w int) {
			defer wwg.Done()
			rng := rand.New(rand.NewSource(seed*31 + int64(w)))
			last := map[string]string{}
			for i := 0; i < wops; i++ {
				k := keys[rng.Intn(2)]
				val := fmt.Sprintf("w%d-%d", w, uniq.Add(1))
				if rng.Intn(3) == 0 {
					runtime.Gosched()
				}
				switch x := rng.Intn(10); {
				case x < 4:
					c := now()
					r, err := s.Put(bg, kvs.Record{Key: k, Value: []byte(val)})
					add(hist.Rec{Client: w, In: hist.In{Kind: hist.KPut, Key: k, Val: val}, Out: hist.Out{Err: hist.Classify(err), Ver: r.Version}, Call: c, Ret: now()})
					last[k] = r.Version
				case x < 6:
					exp := last[k]
					c := now()
					r, err := s.CasByVersion(bg, kvs.Record{Key: k, Value: []byte(val), Version: exp})
					o := hist.Out{Err: hist.Classify(err)}
					if err == nil {
						o.Ver = r.Version
						last[k] = r.Version
					}
					add(hist.Rec{Client: w, In: hist.In{Kind: hist.KCas, Key: k, Val: val, Exp: exp}, Out: o, Call: c, Ret: now()})
				case x < 8:
					c := now()
					err := s.Delete(bg, k)
					add(hist.Rec{Client: w, In: hist.In{Kind: hist.KDelete, Key: k}, Out: hist.Out{Err: hist.Classify(err)}, Call: c, Ret: now()})
				case x < 9:
					c := now()
					v, err := s.Create(bg, kvs.Record{Key: k, Value: []byte(val)})
					o := hist.Out{Err: hist.Classify(err)}
					if err == nil {
						o.Ver = v
						last[k] = v
					}
					add(hist.Rec{Client: w, In: hist.In{Kind: hist.KCreate, Key: k, Val: val}, Out: o, Call: c, Ret: now()})
				default:
					c := now()
					err := s.PutMany(bg, []kvs.Record{{Key: k, Value: []byte(val), Version: last[k]}})
					add(hist.Rec{Client: w, In: hist.In{Kind: hist.KPutSym, Key: k, Val: val}, Out: hist.Out{Err: hist.Classify(err)}, Call: c, Ret: now()})
				}
			}
		}(w)
	}
	var parkedTotal atomic.Int64
	roundCtx, roundCancel := context.WithCancel(bg)
	defer roundCancel()
	var roundCancelAt atomic.Int64
	for w := 0; w < waiters; w++ {
		wg.Add(1)
		go func(w int) {
			defer wg.Done()
			rng := rand.New(rand.NewSource(seed*131 + int64(w)))
			id := writers + w
			for i := 0; i < rounds; i++ {
				k := keys[rng.Intn(2)]
				ver := "unknown-version"
				if rng.Intn(4) != 0 {
					c := now()
					r, err := s.Get(bg, k)
					o := hist.Out{Err: hist.Classify(err)}
					if err == nil {
						o.Val, o.Ver = string(r.Value), r.Version
						ver = r.Version
					}
					add(hist.Rec{Client: id, In: hist.In{Kind: hist.KGet, Key: k}, Out: o, Call: c, Ret: now()})
				}
				if roundCtx.Err() != nil {
					return
				}
				ctx, cancel := context.WithCancel(roundCtx)
				var cancelAt atomic.Int64
				if rng.Intn(4) == 0 {
					// a context with a deadline instead of an explicit cancel
					cancel()
					ctx, cancel = context.WithTimeout(roundCtx, time.Duration(5+rng.Intn(120))*time.Millisecond)
				} else if rng.Intn(3) == 0 {
					d := time.Duration(rng.Intn(300)) * time.Microsecond
					go func() {
						time.Sleep(d)
						cancelAt.Store(now())
						cancel()
					}()
				}
				c := now()
				var err error
				if pan := func() (p any) {
					defer func() { p = recover() }()
					err = s.WaitForVersionChange(ctx, k, ver)
					return nil
				}(); pan != nil {
					raw := ""
					if g, ok := s.(interface{ VerifRaw(string) string }); ok {
						raw = g.VerifRaw(k)
					}
					report(frFinding{backend + "/wait/panic", fmt.Sprintf("WaitForVersionChange(%s) panicked: %v (context error at that moment: %v; cancelled by the harness: %v)%s", k, pan, ctx.Err(), cancelAt.Load() != 0, raw), frWitness{Backend: backend, Seed: seed}})
					cancel()
					return
				}
				ret := now()
				e := hist.Classify(err)
				if ret-c > int64(50*time.Microsecond) {
					parkedTotal.Add(1)
				}
				if e == hist.ECtx && ctx.Err() == nil {
					report(frFinding{backend + "/wait/context-error-while-context-alive", fmt.Sprintf("waiter on %s returned %v although its context is not done", k, err), frWitness{Backend: backend, Seed: seed}})
				} else if e == hist.ECtx && cancelAt.Load() == 0 && roundCancelAt.Load() == 0 {
					// ended by its own deadline: legal (the context IS done)
				} else if e == hist.ECtx {
					ca := cancelAt.Load()
					if rc := roundCancelAt.Load(); rc != 0 && (ca == 0 || rc < ca) {
						ca = rc
					}
					if ca == 0 || ca > ret {
						report(frFinding{backend + "/wait/invented-ctx-error", fmt.Sprintf("waiter on %s returned %v but its context was not cancelled before the return", k, err), frWitness{Backend: backend, Seed: seed}})
					}
				} else if e == hist.EOther {
					report(frFinding{backend + "/wait/undocumented-error", fmt.Sprintf("waiter on %s returned %v", k, err), frWitness{Backend: backend, Seed: seed}})
				}
				add(hist.Rec{Client: id, In: hist.In{Kind: hist.KWait, Key: k, Exp: ver}, Out: hist.Out{Err: e}, Call: c, Ret: ret})
				cancel()
			}
		}(w)
	}
	wwg.Wait()
	// 1. the round is over: whoever is still parked is told to give up; everybody must return
	roundCancelAt.Store(now())
	roundCancel()
	gone := make(chan struct{})
	go func() { wg.Wait(); close(gone) }()
	select {
	case <-gone:
	case <-time.After(20 * time.Second):
		report(frFinding{backend + "/wait/ignores-cancel", "a waiter whose context was cancelled did not return (20 s watchdog)", frWitness{Backend: backend, Seed: seed}})
		return out
	}
	// 2. all waiters are gone: no bookkeeping may be left behind
	if backend == "inmem" {
		if t := inmem.VerifWaiters(s); len(t) != 0 {
			report(frFinding{"inmem/wait/table-residue/after-all-waiters-left", fmt.Sprintf("every waiter has returned, the waiter table still holds %v", t), frWitness{Backend: backend, Seed: seed}})
		}
	}
	// 3. final waiters park on the current version; one last mutation per key must release them
	finals := make(chan hist.Rec, 8)
	var fwg sync.WaitGroup
	for i, k := range keys {
		val := fmt.Sprintf("pre-final-%d", i)
		c := now()
		r, err := s.Put(bg, kvs.Record{Key: k, Value: []byte(val)})
		add(hist.Rec{Client: 90, In: hist.In{Kind: hist.KPut, Key: k, Val: val}, Out: hist.Out{Err: hist.Classify(err), Ver: r.Version}, Call: c, Ret: now()})
		if err != nil {
			continue
		}
		for j := 0; j < 2; j++ {
			fwg.Add(1)
			go func(k, ver string, id int) {
				defer fwg.Done()
				c := now()
				err := s.WaitForVersionChange(bg, k, ver)
				finals <- hist.Rec{Client: id, In: hist.In{Kind: hist.KWait, Key: k, Exp: ver}, Out: hist.Out{Err: hist.Classify(err)}, Call: c, Ret: now()}
			}(k, r.Version, 91+2*i+j)
		}
	}
	if backend == "inmem" {
		// wait until the final waiters are registered (logical: the table says so)
		deadline := time.Now().Add(20 * time.Second)
		for {
			t := inmem.VerifWaiters(s)
			if t["k0"] == 2 && t["k1"] == 2 {
				break
			}
			if time.Now().After(deadline) {
				run.Inconclusive(fmt.Sprintf("final waiters did not register within the watchdog (table %v)", t))
				break
			}
			time.Sleep(50 * time.Microsecond)
		}
	} else {
		time.Sleep(5 * time.Millisecond)
	}
	for i, k := range keys {
		var err error
		val := fmt.Sprintf("final-%d", i)
		kind := hist.KPut
		ver := ""
		c := now()
		switch (int(seed) + i) % 3 {
		case 0:
			var r kvs.Record
			r, err = s.Put(bg, kvs.Record{Key: k, Value: []byte(val)})
			ver = r.Version
		case 1:
			err = s.Delete(bg, k)
			kind = hist.KDelete
			val = ""
		default:
			err = s.PutMany(bg, []kvs.Record{{Key: k, Value: []byte(val)}})
			kind = hist.KPutSym
		}
		add(hist.Rec{Client: 99, In: hist.In{Kind: kind, Key: k, Val: val}, Out: hist.Out{Err: hist.Classify(err), Ver: ver}, Call: c, Ret: now()})
	}
	if backend == "inmem" {
		if t := inmem.VerifWaiters(s); len(t) != 0 {
			report(frFinding{"inmem/wait/table-residue/after-final-mutation", fmt.Sprintf("a mutation of every key returned, the waiter table still holds %v", t), frWitness{Backend: backend, Seed: seed}})
		}
	}
	released := make(chan struct{})
	go func() { fwg.Wait(); close(released) }()
	select {
	case <-released:
	case <-time.After(20 * time.Second): // healthy: microseconds (inmem) / <= 100 ms poll (redis)
		report(frFinding{backend + "/wait/missed-final-mutation", "waiters parked on the current version were not released by the mutation of their key (20 s watchdog; healthy < 0.2 s)", frWitness{Backend: backend, Seed: seed}})
		return out
	}
	close(finals)
	for r := range finals {
		add(r)
	}
	run.Add("waits_that_really_parked", parkedTotal.Load())
	sort.SliceStable(recs, func(i, j int) bool { return recs[i].Call < recs[j].Call })
	run.Add("operations_recorded", int64(len(recs)))
	switch hist.Check(recs, 60*time.Second) {
	case porcupine.Unknown:
		run.Add("porcupine_unknown", 1)
	case porcupine.Illegal:
		key, sub := hist.IllegalKey(recs, 20*time.Second)
		kinds := map[string]bool{}
		for _, r := range sub {
			kinds[hist.KindNames[r.In.Kind]] = true
		}
		var ks []string
		for k := range kinds {
			ks = append(ks, k)
		}
		sort.Strings(ks)
		report(frFinding{backend + "/wait/not-linearizable:" + strings.Join(ks, "+"), fmt.Sprintf("sub-history of key %s (%d operations incl. waiter returns) has no legal order: a waiter returned nil/ErrNotExist without a matching state", key, len(sub)), frWitness{Backend: backend, Seed: seed, Key: key, History: sub}})
	}
	return out
}

// forEachScript enumerates the scripts of this tier and seed lazily (the thorough tier has tens of millions:
// materialising them once cost 13 GB and the OOM killer); fn gets a running index.
func forEachScript(run *report.Run, fn func(i int, sc script)) {
	depth := run.Pick(4, 5)
	i := 0
	enumerate(depth, func(s script) { fn(i, s); i++ })
	// random deeper scripts
	rng := rand.New(rand.NewSource(run.Seed()))
	for j := 0; j < run.Pick(300000, 3000000); j++ {
		n := depth + 1 + rng.Intn(6)
		var evs []ev
		for len(evs) < n {
			e := eventAlphabet[rng.Intn(len(eventAlphabet))]
			if legal(evs, e) {
				evs = append(evs, e)
			}
		}
		fn(i, script{Init: 2 + rng.Intn(2), Events: evs})
		i++
	}
}

// TestChild runs one shard of the scripted part inside a single bubble (child process of TestCheck).
func TestChild(t *testing.T) {
	idx, total, _, ok := shard.Child()
	if !ok {
		t.Skip("not a shard child")
	}
	run := report.New("C07", "exploration")
	res := shard.NewResult()
	local := map[string]struct{}{}
	synctest.Test(t, func(t *testing.T) {
		forEachScript(run, func(i int, sc script) {
			if i%total != idx {
				return
			}
			res.Evals++
			if res.Evals <= 2 && idx == 0 {
				res.Samples = append(res.Samples, sc)
			}
			if v := runScript(sc, func(c string) { local[c] = struct{}{} }); v != nil {
				res.Violation(v.sig, v.what, sc)
			}
		})
	})
	for c := range local {
		res.Classes = append(res.Classes, c)
	}
	shard.Emit(res)
}

// burstRound: W waiters call WaitForVersionChange(k, current version) at the same moment as one writer
// mutates k. Whatever the interleaving of the waiters' check / park and the mutation, the state is stable
// afterwards and differs from what the waiters were given, so every one of them must return (nil, or
// ErrNotExist after a Delete). A waiter that is still parked has missed the change between its check and
// its parking. Decided by a watchdog that is 5 orders of magnitude above the healthy time.
func burstRound(backend string, s kvs.Storage, seed int64) *frFinding {
	bg := context.Background()
	r0, err := s.Put(bg, kvs.Record{Key: "b", Value: []byte("0")})
	if err != nil {
		return nil
	}
	W := 4 + int(seed%13)
	start := make(chan struct{})
	res := make(chan error, W)
	var ready sync.WaitGroup
	for i := 0; i < W; i++ {
		ready.Add(1)
		go func() {
			ready.Done()
			<-start
			res <- s.WaitForVersionChange(bg, "b", r0.Version)
		}()
	}
	ready.Wait()
	del := seed%5 == 0
	close(start)
	if seed%3 == 0 {
		runtime.Gosched()
	}
	if del {
		_ = s.Delete(bg, "b")
	} else if seed%2 == 0 {
		_, _ = s.Put(bg, kvs.Record{Key: "b", Value: []byte("1")})
	} else {
		_, _ = s.CasByVersion(bg, kvs.Record{Key: "b", Value: []byte("1"), Version: r0.Version})
	}
	deadline := time.After(10 * time.Second)
	for i := 0; i < W; i++ {
		select {
		case e := <-res:
			c := hist.Classify(e)
			if (del && c != hist.ENotExist) || (!del && c != hist.ENil) {
				return &frFinding{backend + "/wait/burst-wrong-result", fmt.Sprintf("a waiter racing one mutation returned %v (mutation was a delete: %v)", e, del), frWitness{Backend: backend, Seed: seed}}
			}
		case <-deadline:
			return &frFinding{backend + "/wait/missed-change-between-check-and-park", fmt.Sprintf("%d of %d waiters that started together with a single mutation of their key are still parked 10 s after it (healthy: microseconds): the change fell between their check and their parking", W-i, W), frWitness{Backend: backend, Seed: seed}}
		}
	}
	return nil
}

// ------------------------------------------------------------------ driver

// longPark (Redis): a waiter is parked for a long time before its key changes. The polling backend must
// still notice the change promptly - its poll interval may not grow with the time spent waiting. Bound 1 s
// (healthy: < 0.1 s), guarded by a stall canary.
func longPark(park time.Duration, slowPoll bool) (sig, what string, stall time.Duration, inconclusive string) {
	rs, err := kvmodel.NewRedisServer()
	if err != nil {
		return "", "", 0, "miniredis: " + err.Error()
	}
	defer rs.Close()
	bg := context.Background()
	r0, err := rs.S.Put(bg, kvs.Record{Key: "lp", Value: []byte("0")})
	if err != nil {
		return "", "", 0, "redis Put: " + err.Error()
	}
	var worst atomic.Int64
	stop := make(chan struct{})
	go func() {
		for {
			select {
			case <-stop:
				return
			default:
			}
			t := time.Now()
			time.Sleep(2 * time.Millisecond)
			if o := int64(time.Since(t) - 2*time.Millisecond); o > worst.Load() {
				worst.Store(o)
			}
		}
	}()
	defer func() { close(stop); stall = time.Duration(worst.Load()) }()
	// one of the polls is answered slowly by the server (600 ms): the caller's context is alive, nothing
	// changed, so the waiter must simply keep waiting
	var gets atomic.Int64
	rs.MR.Server().SetPreHook(func(_ *server.Peer, cmd string, _ ...string) bool {
		if cmd == "GET" && gets.Add(1) == 4 && slowPoll {
			time.Sleep(600 * time.Millisecond)
		}
		return false
	})
	res := make(chan error, 1)
	go func() { res <- rs.S.WaitForVersionChange(bg, "lp", r0.Version) }()
	select {
	case e := <-res:
		return "redis/wait/returned-without-change", fmt.Sprintf("a waiter on the current version returned %v although nothing changed and its context is alive (one poll was answered after 600 ms)", e), 0, ""
	case <-time.After(park):
	}
	t0 := time.Now()
	if _, err := rs.S.Put(bg, kvs.Record{Key: "lp", Value: []byte("1")}); err != nil {
		return "", "", 0, "redis Put: " + err.Error()
	}
	select {
	case e := <-res:
		if e != nil {
			return "redis/wait/long-park-wrong-result", fmt.Sprintf("waiter returned %v after the key was overwritten", e), 0, ""
		}
		if d := time.Since(t0); d > time.Second {
			return "redis/wait/late-after-long-park", fmt.Sprintf("a waiter that had been parked for %v returned %v after the change (healthy < 0.1 s, bound 1 s)", park, d), 0, ""
		}
	case <-time.After(30 * time.Second):
		return "redis/wait/late-after-long-park", fmt.Sprintf("a waiter that had been parked for %v has not returned 30 s after the change", park), 0, ""
	}
	return "", "", 0, ""
}

// expiryEdge (inmem, real clock): waiters start within a few microseconds around the instant their record expires
// (each on a key of its own, so nobody wakes anybody; nothing else touches the keys). Whether a waiter still
// found the record alive or not, once the record has expired it has to come back with ErrNotExist by itself:
// 25 ms after the expiry (healthy: about 1 ms) - and, if not, a second later - the waiter table must be empty and every waiter must have returned.
func expiryEdge(seed int64, rounds int) (sig, what string, stall time.Duration) {
	var worst atomic.Int64
	stop := make(chan struct{})
	go func() {
		for {
			select {
			case <-stop:
				return
			default:
			}
			t := time.Now()
			time.Sleep(2 * time.Millisecond)
			if o := int64(time.Since(t) - 2*time.Millisecond); o > worst.Load() {
				worst.Store(o)
			}
		}
	}()
	defer func() { close(stop); stall = time.Duration(worst.Load()) }()
	bg := context.Background()
	rng := rand.New(rand.NewSource(seed))
	const n = 12
	for r := 0; r < rounds; r++ {
		s := inmem.New()
		at := time.Now().Add(3 * time.Millisecond)
		vers := make([]string, n)
		for i := 0; i < n; i++ {
			rec, err := s.Put(bg, kvs.Record{Key: fmt.Sprintf("edge/%d", i), Value: []byte("e"), ExpiresAt: &at})
			if err != nil {
				return "inmem/Put/error", err.Error(), 0
			}
			vers[i] = rec.Version
		}
		// the start offsets sweep -8 us .. +1 us around the expiry in 100 ns steps over 80 rounds (where the narrow
		// band lies in which a call straddles the expiry depends on the machine)
		base := -8*time.Microsecond + time.Duration(r%80)*100*time.Nanosecond + time.Duration(rng.Intn(50))*time.Nanosecond
		res := make(chan error, n)
		ctx, cancel := context.WithTimeout(bg, 5*time.Second)
		for i := 0; i < n; i++ {
			go func(i int) {
				start := at.Add(base + time.Duration(i)*100*time.Nanosecond)
				for time.Now().Before(start) {
				}
				res <- s.WaitForVersionChange(ctx, fmt.Sprintf("edge/%d", i), vers[i])
			}(i)
		}
		time.Sleep(time.Until(at) + 25*time.Millisecond)
		table := inmem.VerifWaiters(s)
		returned := len(res)
		if returned < n || len(table) != 0 {
			// suspicious: on a loaded machine a spinning goroutine may simply not have run yet - look again a
			// second later (a healthy waiter needs a millisecond, a forgotten one stays for its 5 s context)
			time.Sleep(time.Second)
			table = inmem.VerifWaiters(s)
			returned = len(res)
		}
		cancel()
		for i := 0; i < n; i++ {
			if e := <-res; e != nil && !errors.Is(e, gerrors.ErrNotExist) && returned == n {
				return "inmem/wait/wrong-result-at-expiry", fmt.Sprintf("a waiter that started around the expiry of its record returned %v", e), 0
			}
		}
		if returned < n || len(table) != 0 {
			return "inmem/wait/parked-on-expired-key", fmt.Sprintf("round %d: %d waiters started within -8..+1 us of the expiry of their records (one key each, nothing else touches the keys); a second after the expiry %d of them have not returned and the waiter table still holds %v", r, n, n-returned, table), 0
		}
	}
	return "", "", 0
}

// neverExpiryWait (real clock): the record carries an expiry centuries away (a "never expires" sentinel, beyond
// what a time.Duration can express). A waiter given its current version must stay parked - in particular it must
// not report ErrNotExist for the live, untouched key - and a later overwrite must wake it with nil.
func neverExpiryWait(backend string, s kvs.Storage, at time.Time) (sig, what, inconclusive string) {
	bg := context.Background()
	r0, err := s.Put(bg, kvs.Record{Key: "nv", Value: []byte("0"), ExpiresAt: &at})
	if err != nil {
		return "", "", backend + " Put: " + err.Error()
	}
	ctx, cancel := context.WithCancel(bg)
	defer cancel()
	res := make(chan error, 1)
	go func() { res <- s.WaitForVersionChange(ctx, "nv", r0.Version) }()
	select {
	case e := <-res:
		switch hist.Classify(e) {
		case hist.ENotExist:
			return backend + "/wait/invented-not-exist", fmt.Sprintf("the record expires at %v; a waiter given its current version returned ErrNotExist although the key exists and nobody touched it", at.Format(time.RFC3339)), ""
		case hist.ENil:
			return backend + "/wait/returned-without-change", fmt.Sprintf("the record expires at %v; a waiter given its current version returned nil although nothing changed", at.Format(time.RFC3339)), ""
		}
		return backend + "/wait/wrong-result", fmt.Sprintf("the record expires at %v; a waiter given its current version returned %v with a live context", at.Format(time.RFC3339), e), ""
	case <-time.After(80 * time.Millisecond):
	}
	if _, err := s.Put(bg, kvs.Record{Key: "nv", Value: []byte("1")}); err != nil {
		return "", "", backend + " Put: " + err.Error()
	}
	select {
	case e := <-res:
		if e != nil {
			return backend + "/wait/wrong-result-after-change", fmt.Sprintf("a waiter on a record expiring at %v returned %v after the key was overwritten", at.Format(time.RFC3339), e), ""
		}
	case <-time.After(60 * time.Second):
		return "", "", "never-expiry waiter did not return 60 s after the change"
	}
	return "", "", ""
}

// expiryUnderBusyTimerPool (inmem, real clock): all ten workers of the process-wide timer pool (package timeout,
// used by other parts of a process, e.g. the lease renewals) are inside callbacks that take 400 ms when a record
// with a parked waiter expires. Waiting for a version change is no customer of that pool: the waiter must come
// back with ErrNotExist about a millisecond after the expiry (bound 150 ms, canary-guarded), not when a pool
// worker becomes free.
func expiryUnderBusyTimerPool() (sig, what string, stall time.Duration, inconclusive string) {
	var worst atomic.Int64
	stop := make(chan struct{})
	go func() {
		for {
			select {
			case <-stop:
				return
			default:
			}
			t := time.Now()
			time.Sleep(2 * time.Millisecond)
			if o := int64(time.Since(t) - 2*time.Millisecond); o > worst.Load() {
				worst.Store(o)
			}
		}
	}()
	defer func() { close(stop); stall = time.Duration(worst.Load()) }()
	s := inmem.New()
	bg := context.Background()
	var running atomic.Int32
	for i := 0; i < 10; i++ {
		timeout.Call(func() { running.Add(1); time.Sleep(400 * time.Millisecond) }, 0)
	}
	t0 := time.Now()
	for running.Load() < 10 {
		if time.Since(t0) > 5*time.Second {
			return "", "", 0, "the timer pool did not take ten callbacks at once"
		}
		time.Sleep(200 * time.Microsecond)
	}
	at := time.Now().Add(40 * time.Millisecond)
	r0, err := s.Put(bg, kvs.Record{Key: "bp", Value: []byte("0"), ExpiresAt: &at})
	if err != nil {
		return "", "", 0, "inmem Put: " + err.Error()
	}
	ctx, cancel := context.WithTimeout(bg, 5*time.Second)
	defer cancel()
	werr := s.WaitForVersionChange(ctx, "bp", r0.Version)
	late := time.Since(at)
	time.Sleep(450 * time.Millisecond) // let the pool callbacks end
	switch {
	case !errors.Is(werr, gerrors.ErrNotExist):
		return "inmem/wait/wrong-result-at-expiry", fmt.Sprintf("a waiter parked on a record that expired returned %v", werr), 0, ""
	case late > 150*time.Millisecond:
		return "inmem/wait/late-at-expiry-while-the-timer-pool-is-busy", fmt.Sprintf("a waiter parked on a record came back %v after the record's expiry (healthy: about 1 ms) while the ten workers of the timeout package were inside 400 ms callbacks of other users", late.Round(time.Millisecond)), 0, ""
	}
	return "", "", 0, ""
}

// pollFault (Redis): one poll of a parked waiter is answered with a server error while nothing changes and the
// context is alive. Whatever the waiter does with the error (report it, or go on polling), it must not return nil
// ("the key exists with a different version") nor ErrNotExist nor the context's error.
func pollFault(nth int64) (sig, what, inconclusive string) {
	rs, err := kvmodel.NewRedisServer()
	if err != nil {
		return "", "", "miniredis: " + err.Error()
	}
	defer rs.Close()
	bg := context.Background()
	r0, err := rs.S.Put(bg, kvs.Record{Key: "pf", Value: []byte("0")})
	if err != nil {
		return "", "", "redis Put: " + err.Error()
	}
	var gets atomic.Int64
	rs.MR.Server().SetPreHook(func(p *server.Peer, cmd string, _ ...string) bool {
		if cmd == "GET" && gets.Add(1) == nth {
			p.WriteError("ERR injected: server busy")
			return true
		}
		return false
	})
	ctx, cancel := context.WithCancel(bg)
	defer cancel()
	res := make(chan error, 1)
	go func() { res <- rs.S.WaitForVersionChange(ctx, "pf", r0.Version) }()
	// logical steps: wait until the faulty poll and three more polls have reached the server, or the waiter returned
	t0 := time.Now()
	for gets.Load() < nth+3 {
		select {
		case e := <-res:
			switch hist.Classify(e) {
			case hist.ENil:
				return "redis/wait/returned-without-change", fmt.Sprintf("poll %d of a parked waiter was answered with a server error; the waiter returned nil although the key still has the version it was given and its context is alive", nth), ""
			case hist.ENotExist:
				return "redis/wait/invented-not-exist", fmt.Sprintf("poll %d of a parked waiter was answered with a server error; the waiter returned ErrNotExist although the key exists", nth), ""
			case hist.ECtx:
				return "redis/wait/context-error-while-context-alive", fmt.Sprintf("poll %d of a parked waiter was answered with a server error; the waiter returned %v although its context is not done", nth, e), ""
			}
			return "", "", "" // the storage error is reported: fine
		case <-time.After(time.Millisecond):
		}
		if time.Since(t0) > 120*time.Second {
			return "", "", "poll-fault: the waiter neither returned nor kept polling for 120 s"
		}
	}
	// it went on polling: a change must still wake it
	if _, err := rs.S.Put(bg, kvs.Record{Key: "pf", Value: []byte("1")}); err != nil {
		return "", "", "redis Put: " + err.Error()
	}
	select {
	case e := <-res:
		if e != nil {
			return "redis/wait/wrong-result-after-poll-fault", fmt.Sprintf("after a failed poll the waiter went on; the key was overwritten and it returned %v", e), ""
		}
	case <-time.After(120 * time.Second):
		return "", "", "poll-fault: the waiter did not return 120 s after the change"
	}
	return "", "", ""
}

// deadlineWait: waiters whose contexts carry deadlines are parked on a quiet key. Whenever such a waiter
// returns the context's error, the context must be done at that moment (decided by ctx.Err(), not by a clock);
// afterwards a change wakes a waiter with a long deadline.
func deadlineWait(backend string, s kvs.Storage, deadlines []time.Duration) (sig, what string, inconclusive string) {
	bg := context.Background()
	// the record carries an expiry an hour away: later than every context deadline used here
	exp := time.Now().Add(time.Hour)
	r0, err := s.Put(bg, kvs.Record{Key: "dl", Value: []byte("0"), ExpiresAt: &exp})
	if err != nil {
		return "", "", backend + " Put: " + err.Error()
	}
	type res struct {
		d     time.Duration
		err   error
		alive bool
		took  time.Duration
	}
	out := make(chan res, len(deadlines)+1)
	for _, d := range deadlines {
		go func(d time.Duration) {
			ctx, cancel := context.WithTimeout(bg, d)
			defer cancel()
			t0 := time.Now()
			e := s.WaitForVersionChange(ctx, "dl", r0.Version)
			out <- res{d, e, ctx.Err() == nil, time.Since(t0)}
		}(d)
	}
	for range deadlines {
		select {
		case r := <-out:
			switch {
			case r.err == nil:
				return backend + "/wait/returned-without-change", fmt.Sprintf("a waiter with a %v deadline on the current version returned nil although nothing changed", r.d), ""
			case hist.Classify(r.err) != hist.ECtx:
				return backend + "/wait/deadline-wrong-result", fmt.Sprintf("a waiter with a %v deadline returned %v", r.d, r.err), ""
			case r.alive:
				return backend + "/wait/context-error-while-context-alive", fmt.Sprintf("a waiter with a %v deadline on a quiet key returned %v after %v although its context was not done at that moment", r.d, r.err, r.took), ""
			}
		case <-time.After(30 * time.Second):
			// every deadline is below half a second: 30 s later (healthy: microseconds after the deadline) a
			// waiter that has not come back does not return "promptly once the context is done"
			return backend + "/wait/not-returned-after-context-deadline", fmt.Sprintf("waiters with context deadlines of %v on a quiet key (the record's own expiry is an hour away): 30 s after the start not all of them have returned", deadlines), ""
		}
	}
	return "", "", ""
}

// versionEdge (real clock, both backends): the version a waiter gives is data, not a pattern.
//   - an empty version: nil at once on an existing key (every stored version differs from it), ErrNotExist on an
//     absent, deleted or expired key - never nil there;
//   - a writer that mentions the previous version inside the new VALUE (or in the key of a neighbour record) still
//     changes the version: the parked waiter has to come back with nil.
func versionEdge(backend string, s kvs.Storage, round int) (sig, what, inconclusive string) {
	bg := context.Background()
	wait := func(k, ver string, d time.Duration) (error, bool) {
		ctx, cancel := context.WithTimeout(bg, d)
		defer cancel()
		err := s.WaitForVersionChange(ctx, k, ver)
		return err, ctx.Err() != nil
	}
	// 1. empty version, absent key (never created / deleted / expired in the past)
	absent := []string{"never-created"}
	if r, err := s.Put(bg, kvs.Record{Key: "deleted", Value: []byte("x")}); err == nil && r.Version != "" {
		if err := s.Delete(bg, "deleted"); err != nil {
			return "", "", backend + " Delete: " + err.Error()
		}
		absent = append(absent, "deleted")
	}
	for _, k := range absent {
		for _, ver := range []string{"", "some-version"} {
			err, done := wait(k, ver, 20*time.Second)
			if c := hist.Classify(err); c != hist.ENotExist && !(c == hist.ECtx && done) {
				return backend + "/wait/absent-key-not-reported", fmt.Sprintf("WaitForVersionChange(%q, version %q) on an absent key returned %v, ErrNotExist expected", k, ver, err), ""
			} else if c == hist.ECtx {
				return backend + "/wait/absent-key-not-reported", fmt.Sprintf("WaitForVersionChange(%q, version %q) on an absent key did not return ErrNotExist within 20 s", k, ver), ""
			}
		}
	}
	// 2. empty version, existing key: the stored version differs from it
	r0, err := s.Put(bg, kvs.Record{Key: "present", Value: []byte("x")})
	if err != nil {
		return "", "", backend + " Put: " + err.Error()
	}
	if err, _ := wait("present", "", 20*time.Second); err != nil {
		return backend + "/wait/different-version-not-reported", fmt.Sprintf("WaitForVersionChange(present, version \"\") on an existing key (version %q) returned %v within 20 s, nil expected: the versions differ", r0.Version, err), ""
	}
	// 3. the new value mentions the old version
	k := fmt.Sprintf("quoted-%d", round)
	r1, err := s.Put(bg, kvs.Record{Key: k, Value: []byte("first")})
	if err != nil {
		return "", "", backend + " Put: " + err.Error()
	}
	res := make(chan error, 1)
	go func() { err, _ := wait(k, r1.Version, 30*time.Second); res <- err }()
	time.Sleep(time.Duration(1+round%5) * 20 * time.Millisecond) // parked (or not yet: both are legal starts)
	val := []byte("prev=" + r1.Version + ";" + r1.Version)
	var how string
	switch round % 3 {
	case 0:
		how = "Put"
		_, err = s.Put(bg, kvs.Record{Key: k, Value: val})
	case 1:
		how = "CasByVersion"
		_, err = s.CasByVersion(bg, kvs.Record{Key: k, Value: val, Version: r1.Version})
	default:
		how = "PutMany"
		err = s.PutMany(bg, []kvs.Record{{Key: k, Value: val, Version: r1.Version}, {Key: r1.Version, Value: []byte(r1.Version)}})
	}
	if err != nil {
		return "", "", backend + " " + how + ": " + err.Error()
	}
	if got, gerr := s.Get(bg, k); gerr != nil || got.Version == r1.Version {
		return "", "", fmt.Sprintf("%s %s did not change the version (%v)", backend, how, gerr)
	}
	if err := <-res; err != nil {
		return backend + "/wait/missed-change-value-mentions-version", fmt.Sprintf("a waiter on version %q: a %s stored a new value that mentions that version; the record's version changed, the waiter returned %v (30 s; healthy < 0.2 s), nil expected", r1.Version, how, err), ""
	}
	return "", "", ""
}

const burstsPerRound = 60

func TestCheck(t *testing.T) {
	run := report.New("C07", "exploration")
	classes := map[string]struct{}{}
	t.Cleanup(func() {
		for c := range classes {
			run.DistinctStr(c)
		}
		run.Finish(t)
	})
	run.Rule("scripted: every legal script to the depth bound over {start waiter (key1 cur/stale/unknown, key2 cur; <=3 alive), cancel waiter i, cancel+Put+newcomer without quiescence in between, start+Put without quiescence, Put k1/k2, PutMany k1 / k1+k2, CAS ok, CAS conflict, Delete k1/k2, Create, Put with an expiry, Put of an already expired record, clock +1 h (nobody touches the store)}; one waiter in three carries a context deadline 1000 virtual hours ahead, one in three a deadline 10 virtual minutes ahead (earlier than any record expiry: it gets the context's error when the clock moves); event ticklist: ListKeys runs half a millisecond after the first expiries of the hour; expiry edge (inmem, real clock): trains of 12 waiters, one key each, started within microseconds around the expiry of their records - 25 ms later (on suspicion: one second later) all have returned and the waiter table is empty (this part runs as a second pass built without the race detector, whose slow-down hides such windows); waiters on records whose expiry is centuries away (9999-12-31, now+300 y, 2300, now+100 y) stay parked and are woken by an overwrite; a record with a parked waiter expires while all ten workers of the process-wide timer pool are inside 400 ms callbacks: the waiter returns within 150 ms; Redis poll fault: the 1st/2nd/5th/9th poll of a parked waiter is answered with a server error - the waiter may report it or go on, but must not return nil, ErrNotExist or the context's error from 2 initial states, in a synctest bubble; after EVERY event quiescence, then each waiter must be exactly parked / nil / ErrNotExist / ctx error per model and the waiter table must equal the parked set; free-running: 3 writers + 6 waiters + cancellers on 2 keys per round, waiter returns checked by porcupine as read-like operations, final mutation must release all; burst rounds: 4-16 waiters on the current version start together with one mutation and must all return; Redis long-park: a waiter parked 3.2 s (6.5 s thorough) must notice the change within 1 s. distinct = distinct (event kind, parked-waiter multiset, number of present keys) classes observed at quiescent points + distinct free-running rounds")
	run.Assume("scripted part: virtual time that only moves at the explicit clock event")
	run.Assume("free-running 'never misses' uses a 20 s watchdog against a healthy release time of microseconds (inmem) / <=100 ms (Redis polling)")

	if os.Getenv("VERIF_PASS") == "norace" {
		// second pass, built without the race detector, with the processors to itself: the expiry-edge trains
		for i := 0; i < run.Pick(2, 6); i++ {
			for attempt := 1; ; attempt++ {
				sig, what, stall := expiryEdge(run.Seed()*131+int64(i), run.Pick(160, 1600))
				if sig == "inmem/wait/parked-on-expired-key" && stall > 8*time.Millisecond {
					if attempt < 3 {
						continue
					}
					run.Inconclusive(fmt.Sprintf("%s (canary stall %v)", what, stall))
					break
				}
				run.Eval(1)
				run.DistinctAdd(1)
				run.Add("expiry_edge_scenarios", 1)
				if sig != "" {
					run.Violation(sig, what, map[string]any{"scenario": "expiry-edge", "backend": "inmem", "seed": run.Seed()*131 + int64(i)})
				}
				break
			}
		}
		run.DistinctAdd(1)
		return
	}
	if p := os.Getenv("VERIF_REPLAY"); p != "" {
		replay(t, run, p)
		return
	}
	depth := run.Pick(4, 5)
	run.Note("script_depth", depth)
	// one bubble per process: the library's global version generator (a mutex) must not be shared between bubbles
	// a child of the quick tier needs seconds; one that does not finish (a goroutine spinning at one instant of the
	// frozen clock keeps the bubble from ever becoming idle) is given up after 150 s: inconclusive for its part
	for c := range shard.Run(run, "TestChild", "scripted", runtime.NumCPU(), time.Duration(run.Pick(150, 2400))*time.Second) {
		classes[c] = struct{}{}
	}

	var lpwg sync.WaitGroup
	// two phases in every tier (with and without the slow poll): where the next poll of a growing interval falls
	// relative to the change depends on both
	parks := []time.Duration{3200 * time.Millisecond, 4000 * time.Millisecond}
	if run.Thorough() {
		parks = append(parks, 6500*time.Millisecond, 1500*time.Millisecond, 2200*time.Millisecond, 5000*time.Millisecond)
	}
	for pi, park := range parks {
		lpwg.Add(1)
		go func(pi int, park time.Duration) {
			defer lpwg.Done()
			for attempt := 1; ; attempt++ {
				sig, what, stall, inc := longPark(park, pi%2 == 1)
				if inc != "" {
					run.Inconclusive(inc)
					return
				}
				if sig == "redis/wait/late-after-long-park" && stall > 250*time.Millisecond {
					if attempt < 3 {
						continue
					}
					run.Inconclusive(fmt.Sprintf("%s (canary stall %v)", what, stall))
					return
				}
				run.Eval(1)
				run.Add("redis_long_park_scenarios", 1)
				if sig != "" {
					run.Violation(sig, what, map[string]any{"scenario": "long-park", "backend": "redis", "park": park.String(), "slow_poll": pi%2 == 1})
				}
				return
			}
		}(pi, park)
	}
	defer lpwg.Wait()
	for i, at := range []time.Time{time.Date(9999, 12, 31, 23, 59, 59, 0, time.UTC), time.Now().AddDate(300, 0, 0), time.Date(2300, 1, 1, 0, 0, 0, 0, time.UTC), time.Now().AddDate(100, 0, 0)} {
		for _, backend := range []string{"inmem", "redis"} {
			lpwg.Add(1)
			go func(i int, at time.Time, backend string) {
				defer lpwg.Done()
				var s kvs.Storage = inmem.New()
				if backend == "redis" {
					rs, err := kvmodel.NewRedisServer()
					if err != nil {
						run.Inconclusive("miniredis: " + err.Error())
						return
					}
					defer rs.Close()
					s = rs.S
				}
				sig, what, inc := neverExpiryWait(backend, s, at)
				if inc != "" {
					run.Inconclusive(inc)
					return
				}
				run.Eval(1)
				run.Add("never_expiry_wait_scenarios_"+backend, 1)
				if sig != "" {
					run.Violation(sig, what, map[string]any{"scenario": "never-expiry-wait", "backend": backend, "expires_at": at.Format(time.RFC3339)})
				}
			}(i, at, backend)
		}
	}
	lpwg.Add(1)
	go func() {
		defer lpwg.Done()
		for attempt := 1; ; attempt++ {
			sig, what, stall, inc := expiryUnderBusyTimerPool()
			if inc != "" {
				run.Inconclusive(inc)
				return
			}
			if sig == "inmem/wait/late-at-expiry-while-the-timer-pool-is-busy" && stall > 40*time.Millisecond {
				if attempt < 3 {
					continue
				}
				run.Inconclusive(fmt.Sprintf("%s (canary stall %v)", what, stall))
				return
			}
			run.Eval(1)
			run.Add("expiry_under_busy_timer_pool_scenarios", 1)
			if sig != "" {
				run.Violation(sig, what, map[string]any{"scenario": "expiry-under-busy-timer-pool", "backend": "inmem"})
			}
			return
		}
	}()
	for _, nth := range []int64{1, 2, 5, 9} {
		lpwg.Add(1)
		go func(nth int64) {
			defer lpwg.Done()
			sig, what, inc := pollFault(nth)
			if inc != "" {
				run.Inconclusive(inc)
				return
			}
			run.Eval(1)
			run.Add("redis_poll_fault_scenarios", 1)
			if sig != "" {
				run.Violation(sig, what, map[string]any{"scenario": "poll-fault", "backend": "redis", "failed_poll": nth})
			}
		}(nth)
	}
	for i := 0; i < run.Pick(2, 12); i++ {
		for _, backend := range []string{"inmem", "redis"} {
			lpwg.Add(1)
			go func(i int, backend string) {
				defer lpwg.Done()
				var s kvs.Storage = inmem.New()
				if backend == "redis" {
					rs, err := kvmodel.NewRedisServer()
					if err != nil {
						run.Inconclusive("miniredis: " + err.Error())
						return
					}
					defer rs.Close()
					s = rs.S
				}
				rng := rand.New(rand.NewSource(run.Seed()*977 + int64(i)))
				var ds []time.Duration
				for j := 0; j < 6; j++ {
					ds = append(ds, time.Duration(3+rng.Intn(400))*time.Millisecond)
				}
				sig, what, inc := deadlineWait(backend, s, ds)
				if inc != "" {
					run.Inconclusive(inc)
					return
				}
				run.Eval(len(ds))
				run.Add("deadline_waiters_"+backend, int64(len(ds)))
				if sig != "" {
					run.Violation(sig, what, map[string]any{"scenario": "deadline-wait", "backend": backend, "deadlines": fmt.Sprint(ds)})
				}
			}(i, backend)
		}
	}
	t.Run("version-edge", func(t *testing.T) {
		for _, backend := range []string{"inmem", "redis"} {
			var s kvs.Storage = inmem.New()
			if backend == "redis" {
				rs, err := kvmodel.NewRedisServer()
				if err != nil {
					run.Inconclusive("miniredis: " + err.Error())
					continue
				}
				defer rs.Close()
				s = rs.S
			}
			for round := 0; round < run.Pick(6, 60); round++ {
				sig, what, inc := versionEdge(backend, s, round)
				if inc != "" {
					run.Inconclusive(inc)
					break
				}
				run.Eval(7)
				run.Add("version_edge_rounds_"+backend, 1)
				if sig != "" {
					run.Violation(sig, what, map[string]any{"scenario": "version-edge", "backend": backend, "round": round})
					break
				}
			}
		}
	})
	t.Run("free", func(t *testing.T) {
		for _, backend := range []string{"inmem", "redis"} {
			n := run.Pick(400, 20000)
			if backend == "redis" {
				n = run.Pick(48, 1500)
			}
			var wg sync.WaitGroup
			workers := runtime.NumCPU() / 2
			jobs := make(chan int64, workers)
			for w := 0; w < workers; w++ {
				wg.Add(1)
				go func() {
					defer wg.Done()
					var rs *kvmodel.RedisServer
					if backend == "redis" {
						var err error
						if rs, err = kvmodel.NewRedisServer(); err != nil {
							run.Inconclusive("miniredis: " + err.Error())
							for range jobs {
							}
							return
						}
						defer rs.Close()
					}
					for seed := range jobs {
						if run.Violations() > 0 {
							continue // a violated round may leave goroutines parked and costs a watchdog period: stop here
						}
						var s kvs.Storage
						if rs != nil {
							rs.MR.FlushAll()
							s = rs.S
						} else {
							s = inmem.New()
						}
						run.Eval(1)
						run.Add("free_rounds_"+backend, 1)
						run.DistinctStr(fmt.Sprintf("free|%s|%d", backend, seed))
						for _, f := range freeRound(backend, s, seed, run) {
							run.Violation(f.sig, f.what, f.w)
						}
						if backend == "inmem" {
							for b := 0; b < burstsPerRound && run.Violations() == 0; b++ {
								run.Add("burst_rounds", 1)
								if f := burstRound(backend, inmem.New(), seed*1000+int64(b)); f != nil {
									run.Violation(f.sig, f.what, f.w)
								}
							}
						}
					}
				}()
			}
			for i := 0; i < n; i++ {
				jobs <- run.Seed()*1_000_003 + int64(i)
			}
			close(jobs)
			wg.Wait()
		}
	})
}

func replay(t *testing.T, run *report.Run, path string) {
	b, err := os.ReadFile(path)
	if err != nil {
		run.Inconclusive("cannot read replay file: " + err.Error())
		return
	}
	var doc struct {
		Witness json.RawMessage `json:"witness"`
	}
	if err := json.Unmarshal(b, &doc); err != nil {
		run.Inconclusive("cannot parse replay file: " + err.Error())
		return
	}
	var sc script
	if json.Unmarshal(doc.Witness, &sc) == nil && len(sc.Events) > 0 {
		run.Eval(1)
		run.DistinctAdd(2)
		run.Sample(sc)
		var v *vio
		synctest.Test(t, func(t *testing.T) { v = runScript(sc, nil) })
		if v != nil {
			run.Violation(v.sig, v.what, sc)
		} else {
			fmt.Println("REPLAY: no violation on this tree")
		}
		return
	}
	var fw frWitness
	if json.Unmarshal(doc.Witness, &fw) == nil && fw.Backend != "" {
		run.DistinctAdd(2)
		var rs *kvmodel.RedisServer
		if fw.Backend == "redis" {
			if rs, err = kvmodel.NewRedisServer(); err != nil {
				run.Inconclusive(err.Error())
				return
			}
			defer rs.Close()
		}
		for i := 0; i < 200; i++ {
			var s kvs.Storage = inmem.New()
			if rs != nil {
				rs.MR.FlushAll()
				s = rs.S
			}
			run.Eval(1)
			for _, f := range freeRound(fw.Backend, s, fw.Seed, run) {
				run.Violation(f.sig, f.what, f.w)
			}
		}
		return
	}
	run.Inconclusive("unknown witness format")
}
