// C18 — iterator mixer is a faithful two-way merge (reference-model monitor, DESIGN §3 C18).
//
// The real iterable.Mixer is driven call by call (HasNext / Next / Reset) next to a two-pointer
// reference merge that uses the same selector; every result is compared immediately. Both inputs are
// wrapped in a source-protocol monitor that records which element was handed out in which pass.
package c18

import (
	"encoding/json"
	"fmt"
	"math/bits"
	"math/rand"
	"os"
	"runtime"
	"sort"
	"strings"
	"sync"
	"testing"

	"github.com/acquirecloud/golibs"
	"github.com/acquirecloud/golibs/container/iterable"

	"verifharness/internal/report"
)

func TestMain(m *testing.M) { os.Exit(report.ExitCode(m.Run())) }

// ---------------------------------------------------------------------------------------------
// cases

// elem is the element type of the harness-owned sources: the value the selector looks at plus the
// identity (input number, position) of the element, so that "which input was the head taken from"
// is observable even when both heads carry the same value.
type elem struct{ V, Src, Idx int }

func (e elem) String() string { return fmt.Sprintf("%d(src%d[%d])", e.V, e.Src, e.Idx) }

const (
	kindWIS    = "wis"    // Mixer[int] over iterable.WrapIntSlice, both resettable
	kindOwn    = "own"    // Mixer[elem] over harness sources, both resettable
	kindNR1    = "nr1"    // Mixer[elem], input 1 has no Reset method
	kindNR2    = "nr2"    // Mixer[elem], input 2 has no Reset method
	kindNR12   = "nr12"   // Mixer[elem], neither input has a Reset method
	kindNested = "nested" // Mixer[elem] whose input 1 is itself a Mixer over (A, C); input 2 is B
	kindIntIt  = "intit"  // WrapIntSlice alone against a slice model (word over H, N, R, C)

	// Inputs with the HasNext/Next imparity that the Iterator contract (iterator.go) allows at the end
	// of a collection: after its last element the input still answers HasNext()=true while Next()
	// gives (zero, false) - a paged listing whose last page is empty, a last element that was removed
	// between the two calls. kase.Phantom says for how many failing Next calls (<0: for ever).
	kindPh1      = "ph1"      // Mixer[elem], both resettable, input 1 has such a tail
	kindPh2      = "ph2"      // ... input 2
	kindPh12     = "ph12"     // ... both inputs
	kindPhNested = "phnested" // like nested, all three leaves A, C, B have such a tail
)

func phantomKind(kind string) bool {
	return kind == kindPh1 || kind == kindPh2 || kind == kindPh12 || kind == kindPhNested
}

// phantomInput tells whether leaf src (1 = A, 2 = B, 3 = C) of the kind has the phantom tail.
func phantomInput(kind string, src int) bool {
	switch kind {
	case kindPh1:
		return src == 1
	case kindPh2:
		return src == 2
	case kindPh12, kindPhNested:
		return true
	}
	return false
}

type kase struct {
	A     []int  `json:"a"`
	B     []int  `json:"b"`
	C     []int  `json:"c,omitempty"`
	Sel   string `json:"sel"`
	Kind  string `json:"kind"`
	Word  string `json:"word"`  // H = HasNext, N = Next, R = Reset (intit: C = Close)
	Drain bool   `json:"drain"` // after the word: read to the end and probe the exhausted mixer
	// kinds ph*: number of failing Next calls after the last element during which the input keeps
	// answering HasNext()=true (<0: for ever)
	Phantom int `json:"phantom,omitempty"`
}

var selNames = []string{"lt", "le", "true", "false"}

func selector(name string) func(x, y int) bool {
	switch name {
	case "lt":
		return func(x, y int) bool { return x < y }
	case "le":
		return func(x, y int) bool { return x <= y }
	case "true":
		return func(x, y int) bool { return true }
	default:
		return func(x, y int) bool { return false }
	}
}

type vio struct {
	sig, what string
	dup       bool // the same worker has reported this signature before: not formatted, not reported again
}

// stats of one executed case / work unit (plain fields, owned by one goroutine)
type stats struct {
	mask       uint64 // bit ((i*4+j)*3+op): model state (i,j) before the call x operation, short inputs only
	calls      [3]int64
	exhausted  int64    // calls answered by the exhausted mixer
	resetNR    [3]int64 // Reset on a non-resettable input: error / nil / panic (not judged)
	maxAhead   int64
	selCalls   int64
	closeErr   int64
	intitCalls int64
	seen       map[string]int // signatures reported by this worker (nil: report everything)
	repeats    int64
	lateResets int64
	imparity   int64 // Next()=(zero,false) of an input right after its HasNext()=true
	secondPass int64 // Reset of the exhausted mixer followed by a second complete pass
}

func (s *stats) merge(o *stats) {
	s.mask |= o.mask
	for i := range s.calls {
		s.calls[i] += o.calls[i]
		s.resetNR[i] += o.resetNR[i]
	}
	s.exhausted += o.exhausted
	s.maxAhead = max(s.maxAhead, o.maxAhead)
	s.selCalls += o.selCalls
	s.closeErr += o.closeErr
	s.intitCalls += o.intitCalls
	s.repeats += o.repeats
	s.lateResets += o.lateResets
	s.imparity += o.imparity
	s.secondPass += o.secondPass
}

// ---------------------------------------------------------------------------------------------
// reference model: two-pointer merge over models, the leaves are slices

type mod[E any] interface {
	peek() (E, bool)
	pop()
	reset()
}

type sliceMod[E any] struct {
	s []E
	i int
}

func (m *sliceMod[E]) peek() (E, bool) {
	if m.i < len(m.s) {
		return m.s[m.i], true
	}
	var z E
	return z, false
}
func (m *sliceMod[E]) pop()   { m.i++ }
func (m *sliceMod[E]) reset() { m.i = 0 }

type mergeMod[E any] struct {
	sf     func(E, E) bool
	m1, m2 mod[E]
}

// which input the next element comes from: 0 none, 1, 2. Input 1's head is taken exactly when input 2
// is exhausted or the selector prefers input 1's head.
func (m *mergeMod[E]) choose() int {
	h1, ok1 := m.m1.peek()
	h2, ok2 := m.m2.peek()
	switch {
	case !ok1 && !ok2:
		return 0
	case !ok1:
		return 2
	case !ok2 || m.sf(h1, h2):
		return 1
	}
	return 2
}
func (m *mergeMod[E]) peek() (E, bool) {
	switch m.choose() {
	case 1:
		return m.m1.peek()
	case 2:
		return m.m2.peek()
	}
	var z E
	return z, false
}
func (m *mergeMod[E]) pop() {
	switch m.choose() {
	case 1:
		m.m1.pop()
	case 2:
		m.m2.pop()
	}
}
func (m *mergeMod[E]) reset() { m.m1.reset(); m.m2.reset() }

// ---------------------------------------------------------------------------------------------
// sources

// sliceSrc is the harness' own iterator over a slice.
type sliceSrc[E any] struct {
	s []E
	i int
}

func (s *sliceSrc[E]) HasNext() bool { return s.i < len(s.s) }
func (s *sliceSrc[E]) Next() (E, bool) {
	if s.i < len(s.s) {
		s.i++
		return s.s[s.i-1], true
	}
	var z E
	return z, false
}
func (s *sliceSrc[E]) Close() error { return nil }
func (s *sliceSrc[E]) Reset() error { s.i = 0; return nil }

// tailSrc is a slice source whose HasNext keeps answering true after the last element for `phantom`
// more failing Next calls (<0: for ever); Next never hands out anything but the elements of the slice.
// Reset starts the listing - and its tail - again.
type tailSrc[E any] struct {
	sliceSrc[E]
	phantom  int
	failed   int
	lastH    bool   // the previous call on this source was HasNext()=true
	imparity *int64 // Next()=(zero,false) right after HasNext()=true
}

func (s *tailSrc[E]) HasNext() bool {
	s.lastH = s.i < len(s.s) || s.phantom < 0 || s.failed < s.phantom
	return s.lastH
}
func (s *tailSrc[E]) Next() (E, bool) {
	e, ok := s.sliceSrc.Next()
	if !ok {
		s.failed++
		if s.lastH {
			*s.imparity++
		}
	}
	s.lastH = false
	return e, ok
}
func (s *tailSrc[E]) Reset() error { s.failed, s.lastH = 0, false; return s.sliceSrc.Reset() }

// probe is the source-protocol monitor around one input of a mixer. It has no Reset method; probeR
// adds it. A pass is the time between two Reset calls made by the harness on the outermost mixer.
type probe[E any] struct {
	name       string
	inner      iterable.Iterator[E]
	n          int     // number of elements of the input
	pos        int     // position of the element the next successful Next hands out
	handed     []uint8 // how often position p was handed out in this pass
	pulls      int     // successful Next calls in this pass
	inReset    bool    // the harness is inside Reset of the outermost mixer
	bad        string
	lateResets int  // Reset calls on the input outside Reset of the outermost mixer (recorded only)
	resetSeen  bool // the input was reset during the current Reset of the outermost mixer
}

func (p *probe[E]) HasNext() bool { return p.inner.HasNext() }
func (p *probe[E]) Next() (E, bool) {
	e, ok := p.inner.Next()
	if ok {
		if p.pos >= p.n {
			p.flag("overrun")
		} else {
			if p.handed[p.pos] != 0 {
				p.flag("pulled-twice")
			}
			p.handed[p.pos]++
		}
		p.pos++
		p.pulls++
	}
	return e, ok
}
func (p *probe[E]) Close() error { return p.inner.Close() }
func (p *probe[E]) flag(s string) {
	if p.bad == "" {
		p.bad = s
	}
}
func (p *probe[E]) doReset() error {
	// A Reset of the input inside Reset of the outermost mixer starts a new pass. One made at any
	// other time is not judged by itself (a lazily resetting mixer would be faithful too): the
	// elements handed out so far stay counted, so pulling one of them again in the same pass is flagged.
	if p.inReset {
		p.newPass()
		p.resetSeen = true
	} else {
		p.lateResets++
	}
	p.pos = 0
	return p.inner.(golibs.Reseter).Reset()
}

func (p *probe[E]) newPass() {
	for i := range p.handed {
		p.handed[i] = 0
	}
	p.pulls = 0
}

type probeR[E any] struct{ *probe[E] }

func (p probeR[E]) Reset() error { return p.doReset() }

var (
	_ iterable.Iterator[int] = (*probe[int])(nil)
	_ golibs.Reseter         = probeR[int]{}
)

// ---------------------------------------------------------------------------------------------
// the rig: real mixer(s) + model + probes

type rig[E comparable] struct {
	top        *iterable.Mixer[E]
	resettable bool
	model      mod[E]
	probes     []*probe[E]    // all probes (leaves and, for nested, the inner mixer)
	leafProbes []*probe[E]    // probes of slice inputs only
	leaves     []*sliceMod[E] // model leaves in the order A, B (, C)
	selCalls   *int64
	total      int
}

func build[E comparable](k kase, mk func(src, idx, v int) E, val func(E) int, leaf func(src int, s []E) iterable.Iterator[E]) *rig[E] {
	conv := func(src int, s []int) []E {
		out := make([]E, len(s))
		for i, v := range s {
			out[i] = mk(src, i, v)
		}
		return out
	}
	r := &rig[E]{selCalls: new(int64)}
	sel := selector(k.Sel)
	sf := func(e1, e2 E) bool { *r.selCalls++; return sel(val(e1), val(e2)) }
	msf := func(e1, e2 E) bool { return sel(val(e1), val(e2)) }
	wrap := func(name string, it iterable.Iterator[E], n int, resettable, isLeaf bool) iterable.Iterator[E] {
		p := &probe[E]{name: name, inner: it, n: n, handed: make([]uint8, n)}
		r.probes = append(r.probes, p)
		if isLeaf {
			r.leafProbes = append(r.leafProbes, p)
		}
		if resettable {
			return probeR[E]{p}
		}
		return p
	}
	a, b := conv(1, k.A), conv(2, k.B)
	ma, mb := &sliceMod[E]{s: a}, &sliceMod[E]{s: b}
	r.total = len(a) + len(b)
	r.top = &iterable.Mixer[E]{}
	switch k.Kind {
	case kindNested, kindPhNested:
		c := conv(3, k.C)
		mc := &sliceMod[E]{s: c}
		r.total += len(c)
		inner := &iterable.Mixer[E]{}
		inner.Init(sf, wrap("A", leaf(1, clone(a)), len(a), true, true), wrap("C", leaf(3, clone(c)), len(c), true, true))
		r.top.Init(sf, wrap("inner(A,C)", inner, len(a)+len(c), true, false), wrap("B", leaf(2, clone(b)), len(b), true, true))
		r.model = &mergeMod[E]{sf: msf, m1: &mergeMod[E]{sf: msf, m1: ma, m2: mc}, m2: mb}
		r.leaves = []*sliceMod[E]{ma, mb, mc}
		r.resettable = true
	default:
		r1 := k.Kind != kindNR1 && k.Kind != kindNR12
		r2 := k.Kind != kindNR2 && k.Kind != kindNR12
		r.top.Init(sf, wrap("A", leaf(1, clone(a)), len(a), r1, true), wrap("B", leaf(2, clone(b)), len(b), r2, true))
		r.model = &mergeMod[E]{sf: msf, m1: ma, m2: mb}
		r.leaves = []*sliceMod[E]{ma, mb}
		r.resettable = r1 && r2
	}
	return r
}

// clone copies a slice and keeps the difference between nil and empty.
func clone[E any](s []E) []E {
	if s == nil {
		return nil
	}
	out := make([]E, len(s))
	copy(out, s)
	return out
}

func isSorted(s []int) bool { return sort.IntsAreSorted(s) }

// runCase executes one case and returns the first divergence.
func runCase(k kase, st *stats) *vio {
	switch k.Kind {
	case kindIntIt:
		return runIntIt(k, st)
	case kindWIS:
		r := build[int](k, func(_, _, v int) int { return v }, func(v int) int { return v },
			func(_ int, s []int) iterable.Iterator[int] { return iterable.WrapIntSlice(s) })
		return drive(k, r, func(v int) int { return v }, func(v int) string { return fmt.Sprint(v) }, st)
	case kindOwn, kindNR1, kindNR2, kindNR12, kindNested, kindPh1, kindPh2, kindPh12, kindPhNested:
		if phantomKind(k.Kind) && k.Phantom == 0 {
			return &vio{sig: "harness/bad-case", what: "kind " + k.Kind + " without a phantom tail"}
		}
		r := build[elem](k, func(src, idx, v int) elem { return elem{v, src, idx} }, func(e elem) int { return e.V },
			func(src int, s []elem) iterable.Iterator[elem] {
				if phantomInput(k.Kind, src) {
					return &tailSrc[elem]{sliceSrc: sliceSrc[elem]{s: s}, phantom: k.Phantom, imparity: &st.imparity}
				}
				return &sliceSrc[elem]{s: s}
			})
		return drive(k, r, func(e elem) int { return e.V }, func(e elem) string { return e.String() }, st)
	}
	return &vio{sig: "harness/unknown-kind", what: "unknown kind " + k.Kind}
}

func drive[E comparable](k kase, r *rig[E], val func(E) int, show func(E) string, st *stats) (res *vio) {
	short := len(k.A) <= 3 && len(k.B) <= 3 && k.Kind != kindNested && k.Kind != kindPhNested
	sortedExpect := (k.Sel == "lt" || k.Sel == "le") && isSorted(k.A) && isSorted(k.B) && isSorted(k.C)
	var (
		section   = "word" // word / drain / end / again (Reset of the exhausted mixer) / drain2 / end2
		callIdx   int
		curOp     = "Init"
		posBefore [3]int
		prevOp    byte
		prevH     bool
		didReset  bool
		haveLast  bool
		last      int
		emitted   int // elements emitted in this pass
		stop      bool
	)
	// messages are built only when something is wrong
	fail := func(sig, format string, args ...any) *vio {
		if st.seen != nil {
			st.seen[sig]++
			if st.seen[sig] > 1 {
				st.repeats++
				return &vio{sig: sig, dup: true}
			}
		}
		parts := make([]string, len(r.leaves))
		for i := range r.leaves {
			parts[i] = fmt.Sprint(posBefore[i])
		}
		return &vio{sig: sig, what: fmt.Sprintf("%s call %d %s, model positions before the call (%s): ", section, callIdx, curOp, strings.Join(parts, ",")) + fmt.Sprintf(format, args...)}
	}
	defer func() {
		if p := recover(); p != nil {
			res = fail("mixer/"+curOp+"/panic", "panic: %v", p)
		}
		st.selCalls += *r.selCalls
		for _, p := range r.probes {
			st.lateResets += int64(p.lateResets)
		}
	}()
	phase := func() string {
		if didReset {
			return "/after-Reset"
		}
		return ""
	}
	protocol := func(exhausted bool) *vio {
		pulled := 0
		for _, p := range r.probes {
			if p.bad != "" {
				return fail("mixer/source/"+p.bad, "input %s: %s (position %d of %d, %d pulled in this pass)", p.name, p.bad, p.pos, p.n, p.pulls)
			}
			if exhausted {
				for i, h := range p.handed {
					if h != 1 {
						return fail("mixer/source/not-drained", "the mixer reports the end but element %d of input %s was pulled %d times in this pass", i, p.name, h)
					}
				}
			}
		}
		for _, p := range r.leafProbes {
			pulled += p.pulls
		}
		st.maxAhead = max(st.maxAhead, int64(pulled-emitted))
		return nil
	}
	step := func(op byte, sec string, idx int) *vio {
		section, callIdx = sec, idx
		for i, l := range r.leaves {
			posBefore[i] = l.i
		}
		if short {
			st.mask |= 1 << uint((posBefore[0]*4+posBefore[1])*3+strings.IndexByte("HNR", op))
		}
		wantV, wantOK := r.model.peek()
		switch op {
		case 'H':
			curOp = "HasNext"
			st.calls[0]++
			got := r.top.HasNext()
			if !wantOK {
				st.exhausted++
			}
			if got != wantOK {
				if prevOp == 'H' && prevH != got {
					return fail("mixer/HasNext/not-idempotent"+phase(), "HasNext()=%v right after HasNext()=%v; %d elements remain", got, prevH, remaining(r))
				}
				return fail("mixer/HasNext/wrong"+phase(), "HasNext()=%v want %v", got, wantOK)
			}
			prevH = got
			if v := protocol(!got); v != nil {
				return v
			}
		case 'N':
			curOp = "Next"
			st.calls[1]++
			got, ok := r.top.Next()
			if !wantOK {
				st.exhausted++
			}
			if ok != wantOK {
				if prevOp == 'H' && prevH != ok {
					return fail("mixer/Next/disagrees-with-HasNext"+phase(), "HasNext()=%v but the following Next() ok=%v (model: ok=%v)", prevH, ok, wantOK)
				}
				if !wantOK {
					return fail("mixer/Next/element-after-end"+phase(), "Next()=(%s,true) although both inputs are exhausted", show(got))
				}
				return fail("mixer/Next/end-too-early"+phase(), "Next() ok=false, want %s", show(wantV))
			}
			if ok {
				if got != wantV {
					if val(got) == val(wantV) {
						return fail("mixer/Next/tie-wrong-input"+phase(), "Next()=%s want %s (selector %s)", show(got), show(wantV), k.Sel)
					}
					return fail("mixer/Next/wrong-element"+phase(), "Next()=%s want %s (selector %s)", show(got), show(wantV), k.Sel)
				}
				if sortedExpect {
					if haveLast && val(got) < last {
						return fail("mixer/sorted-output"+phase(), "sorted inputs, selector %s, but %d is emitted after %d", k.Sel, val(got), last)
					}
					haveLast, last = true, val(got)
				}
				r.model.pop()
				emitted++
			}
			if v := protocol(!ok); v != nil {
				return v
			}
		case 'R':
			curOp = "Reset"
			st.calls[2]++
			if !r.resettable {
				// the statement covers Reset only when both inputs can be reset: call it, record the
				// outcome, judge nothing and end the pattern
				stop = true
				func() {
					defer func() {
						if recover() != nil {
							st.resetNR[2]++
						}
					}()
					if err := r.top.Reset(); err != nil {
						st.resetNR[0]++
					} else {
						st.resetNR[1]++
					}
				}()
				return nil
			}
			for _, p := range r.probes {
				p.inReset, p.resetSeen = true, false
			}
			err := r.top.Reset()
			for _, p := range r.probes {
				p.inReset = false
				if !p.resetSeen {
					p.newPass() // pass boundary also for an input whose Reset the mixer has postponed
				}
			}
			if err != nil {
				return fail("mixer/Reset/error-on-resettable", "both inputs reset without error but Reset()=%v", err)
			}
			r.model.reset()
			didReset, haveLast, emitted = true, false, 0
			if v := protocol(false); v != nil {
				return v
			}
		default:
			return &vio{sig: "harness/bad-word", what: fmt.Sprintf("operation %q", op)}
		}
		prevOp = op
		return nil
	}

	for i := 0; i < len(k.Word) && !stop; i++ {
		if v := step(k.Word[i], "word", i); v != nil {
			return v
		}
	}
	if !k.Drain || stop {
		return nil
	}
	// drain: the rest of the merge, HasNext before every second Next; then the exhausted mixer: Next
	// gives ok=false and HasNext false, repeatedly, in every order
	drain := func(secDrain, secEnd string) *vio {
		for n := 0; ; n++ {
			if _, ok := r.model.peek(); !ok {
				break
			}
			if n > r.total {
				return &vio{sig: "harness/drain-overrun", what: "the model did not end"}
			}
			if n%2 == 0 {
				if v := step('H', secDrain, n); v != nil {
					return v
				}
			}
			if v := step('N', secDrain, n); v != nil {
				return v
			}
		}
		for i, op := range []byte("NHHNNH") {
			if v := step(op, secEnd, i); v != nil {
				return v
			}
		}
		return nil
	}
	if v := drain("drain", "end"); v != nil {
		return v
	}
	if phantomKind(k.Kind) && r.resettable {
		// the inputs' tails have been consumed: Reset restarts the merge - and the tails - once more
		st.secondPass++
		if v := step('R', "again", 0); v != nil {
			return v
		}
		return drain("drain2", "end2")
	}
	return nil
}

// lazy is a message that is built only when it is printed.
type lazy func() string

func (l lazy) String() string { return l() }

func remaining[E comparable](r *rig[E]) int {
	n := 0
	for _, l := range r.leaves {
		n += len(l.s) - min(l.i, len(l.s))
	}
	return n
}

// runIntIt compares iterable.WrapIntSlice alone with a slice model. Close ends the pattern (the
// iterator must not be used afterwards); a pattern without Close is closed at the end.
func runIntIt(k kase, st *stats) (res *vio) {
	src := clone(k.A)
	it := iterable.WrapIntSlice(src)
	pos := 0
	curOp, callIdx, posBefore := "WrapIntSlice", 0, 0
	where := lazy(func() string {
		return fmt.Sprintf("slice %v word %s call %d %s (model position %d)", k.A, k.Word, callIdx, curOp, posBefore)
	})
	defer func() {
		if p := recover(); p != nil {
			res = &vio{sig: "intit/" + curOp + "/panic", what: fmt.Sprintf("%s: panic: %v", where, p)}
		}
	}()
	closed := false
	for i := 0; i < len(k.Word) && !closed; i++ {
		callIdx, posBefore = i, pos
		st.intitCalls++
		switch k.Word[i] {
		case 'H':
			curOp = "HasNext"
			if got, want := it.HasNext(), pos < len(k.A); got != want {
				return &vio{sig: "intit/HasNext", what: fmt.Sprintf("%s: HasNext()=%v want %v", where, got, want)}
			}
		case 'N':
			curOp = "Next"
			v, ok := it.Next()
			if want := pos < len(k.A); ok != want {
				return &vio{sig: "intit/Next/ok", what: fmt.Sprintf("%s: Next()=(%d,%v) want ok=%v", where, v, ok, want)}
			}
			if ok {
				if v != k.A[pos] {
					return &vio{sig: "intit/Next/value", what: fmt.Sprintf("%s: Next()=%d want %d", where, v, k.A[pos])}
				}
				pos++
			}
		case 'R':
			curOp = "Reset"
			rs, ok := it.(golibs.Reseter)
			if !ok {
				return &vio{sig: "intit/Reset/missing", what: where.String() + ": the iterator has no Reset method"}
			}
			if err := rs.Reset(); err != nil {
				return &vio{sig: "intit/Reset/error", what: fmt.Sprintf("%s: Reset()=%v", where, err)}
			}
			pos = 0
		case 'C':
			curOp = "Close"
			if err := it.Close(); err != nil {
				st.closeErr++ // not judged
			}
			closed = true
		default:
			return &vio{sig: "harness/bad-word", what: fmt.Sprintf("operation %q", k.Word[i])}
		}
	}
	if !closed {
		curOp = "Close"
		callIdx = len(k.Word)
		if err := it.Close(); err != nil {
			st.closeErr++
		}
	}
	// the caller's slice is only read
	for i := range k.A {
		if src[i] != k.A[i] {
			return &vio{sig: "intit/slice-modified", what: fmt.Sprintf("slice %v word %s: the wrapped slice now reads %v", k.A, k.Word, src)}
		}
	}
	return nil
}

// ---------------------------------------------------------------------------------------------
// enumeration

func shortSeqs() [][]int {
	out := [][]int{{}}
	for n := 1; n <= 3; n++ {
		idx := make([]int, n)
		for {
			s := make([]int, n)
			for i, d := range idx {
				s[i] = d + 1
			}
			out = append(out, s)
			p := n - 1
			for p >= 0 {
				idx[p]++
				if idx[p] < 3 {
					break
				}
				idx[p] = 0
				p--
			}
			if p < 0 {
				break
			}
		}
	}
	return out
}

// words returns every word of exactly length n over alpha.
func words(alpha string, n int) []string {
	out := []string{""}
	for i := 0; i < n; i++ {
		next := make([]string, 0, len(out)*len(alpha))
		for _, w := range out {
			for _, c := range alpha {
				next = append(next, w+string(c))
			}
		}
		out = next
	}
	return out
}

// endingWords returns every word over body of length < n followed by the terminator, plus every
// word over body of length n (patterns in which the terminator ends the pattern).
func endingWords(body string, term byte, n int) []string {
	var out []string
	for l := 0; l < n; l++ {
		for _, w := range words(body, l) {
			out = append(out, w+string(term))
		}
	}
	return append(out, words(body, n)...)
}

type unit struct {
	a, b    []int
	sel     string
	kind    string
	words   []string
	phantom int
}

// phantomModes: the enumerated lengths of the phantom tail (failing Next calls during which HasNext
// stays true; -1 = for ever).
var phantomModes = []int{1, -1}

func TestCheck(t *testing.T) {
	run := report.New("C18", "exploration")
	defer run.Finish(t)
	run.Rule("enumerated part: distinct (input pair, selector, source kind, model state (i,j) before the call, operation) transitions that were executed on the real mixer and compared with the two-pointer reference merge; plus distinct (slice, position, operation) transitions of WrapIntSlice; plus one per distinct random long case (hash of inputs, selector, kind and call pattern). Source kinds include inputs whose HasNext stays true after the last element while Next gives (zero,false) - once, or for ever - in either or both positions and below a nested mixer; for these the exhausted mixer is also Reset and read completely a second time")
	run.Assume("elements of the harness sources carry (value, input, position) so that the input a tied head was taken from is observable; the selector only looks at the value")
	run.Assume("Reset on a mixer with an input that has no Reset method is called and its outcome recorded but not judged; the pattern ends there (the statement covers Reset only when both inputs can be reset)")
	run.Assume("the elements of an input are what its Next hands out with ok=true (Iterator contract in iterator.go: HasNext may be true while the following Next gives default values); the phantom-tail inputs show this imparity only after their last element, never between two elements")
	run.Assume("the value returned together with ok=false is not judged; Close of the mixer is not part of the statement and is not called; the number of look-ahead elements is recorded, not judged")

	if p := os.Getenv("VERIF_REPLAY"); p != "" {
		replay(run, p)
		return
	}
	depth := run.Pick(5, 8)
	sweep(run, depth, run.Pick(6, 8), run.Pick(600, 6000))
}

func sweep(run *report.Run, depth, intitDepth, randomCases int) {
	seqs := shortSeqs()
	full := words("HNR", depth)
	nr := endingWords("HN", 'R', depth)
	phWords := words("HNR", depth-2) // each followed by drain, end probe, Reset, second drain and end probe
	ii := endingWords("HNR", 'C', intitDepth)

	var total stats
	var distinct int64
	var mu sync.Mutex

	units := make(chan unit, 256)
	var wg sync.WaitGroup
	for w := 0; w < runtime.NumCPU(); w++ {
		wg.Add(1)
		go func() {
			defer wg.Done()
			local := stats{seen: map[string]int{}}
			var localDistinct int64
			for u := range units {
				us := stats{seen: local.seen}
				if u.kind == kindIntIt {
					seen := map[[2]int]struct{}{}
					for _, w := range u.words {
						k := kase{A: u.a, Kind: u.kind, Word: w}
						run.Eval(1)
						if v := runCase(k, &us); v != nil && !v.dup {
							run.Violation(v.sig, v.what, k)
						}
						pos := 0
						for i := 0; i < len(w); i++ {
							seen[[2]int{pos, int(w[i])}] = struct{}{}
							switch w[i] {
							case 'N':
								pos = min(pos+1, len(u.a))
							case 'R':
								pos = 0
							}
						}
					}
					localDistinct += int64(len(seen))
				} else {
					for _, w := range u.words {
						k := kase{A: u.a, B: u.b, Sel: u.sel, Kind: u.kind, Word: w, Drain: true, Phantom: u.phantom}
						run.Eval(1)
						if v := runCase(k, &us); v != nil && !v.dup {
							run.Violation(v.sig, v.what, k)
						}
					}
					localDistinct += int64(bits.OnesCount64(us.mask))
				}
				us.mask = 0
				local.merge(&us)
			}
			mu.Lock()
			total.merge(&local)
			distinct += localDistinct
			mu.Unlock()
		}()
	}
	nPairs := 0
	for _, a := range seqs {
		units <- unit{a: a, kind: kindIntIt, words: ii}
		for _, b := range seqs {
			nPairs++
			for _, sel := range selNames {
				units <- unit{a, b, sel, kindWIS, full, 0}
				units <- unit{a, b, sel, kindOwn, full, 0}
				units <- unit{a, b, sel, kindNR1, nr, 0}
				units <- unit{a, b, sel, kindNR2, nr, 0}
				units <- unit{a, b, sel, kindNR12, nr, 0}
				for _, ph := range phantomModes {
					units <- unit{a, b, sel, kindPh1, phWords, ph}
					units <- unit{a, b, sel, kindPh2, phWords, ph}
					units <- unit{a, b, sel, kindPh12, phWords, ph}
				}
			}
		}
	}
	units <- unit{a: nil, kind: kindIntIt, words: ii} // WrapIntSlice(nil)
	close(units)
	wg.Wait()
	run.DistinctAdd(distinct)
	run.Note("enumerated", map[string]any{
		"input_pairs":                     nPairs,
		"selectors":                       selNames,
		"depth":                           depth,
		"words_resettable_kinds":          len(full),
		"words_non_resettable_kinds":      len(nr),
		"words_intit":                     len(ii),
		"words_phantom_tail_kinds":        len(phWords),
		"phantom_tail_modes":              phantomModes,
		"intit_depth":                     intitDepth,
		"bounding":                        "none: every word over {HasNext,Next,Reset} of the full depth on every pair x selector for the kinds wis and own; for the non-resettable kinds every word over {HasNext,Next} up to the depth, optionally ended by one Reset; every word is followed by a drain to the end and six calls on the exhausted mixer; for the phantom-tail kinds every word over {HasNext,Next,Reset} of depth-2, each also followed by a Reset of the exhausted mixer and a second drain and end probe",
		"source_kinds":                    []string{kindWIS, kindOwn, kindNR1, kindNR2, kindNR12, kindPh1, kindPh2, kindPh12},
		"enumerated_distinct_transitions": distinct,
	})
	run.Sample(kase{A: []int{1, 2}, B: []int{1, 3}, Sel: "le", Kind: kindOwn, Word: full[len(full)/2], Drain: true})
	run.Sample(kase{A: []int{3, 1}, B: []int{}, Sel: "false", Kind: kindNR2, Word: nr[len(nr)/3], Drain: true})
	run.Sample(kase{A: []int{1, 2, 3}, Kind: kindIntIt, Word: ii[len(ii)/2]})
	run.Sample(kase{A: []int{1, 3}, B: []int{2}, Sel: "le", Kind: kindPh1, Word: phWords[len(phWords)/2], Drain: true, Phantom: 1})

	// random long inputs
	var rwg sync.WaitGroup
	sem := make(chan struct{}, runtime.NumCPU())
	kinds := []string{kindWIS, kindOwn, kindNested, kindPh1, kindPh2, kindPh12, kindPhNested}
	var rstats stats
	var sortedCases, unsortedCases, phantomCases int64
	for i := 0; i < randomCases; i++ {
		rwg.Add(1)
		sem <- struct{}{}
		go func(i int) {
			defer rwg.Done()
			defer func() { <-sem }()
			k := randomCase(run.Seed(), i, kinds[i%len(kinds)], selNames[(i/len(kinds))%len(selNames)])
			var us stats
			v := runCase(k, &us)
			run.Eval(1)
			run.Distinct(hashCase(k))
			if v != nil {
				run.Violation(v.sig, v.what, k)
			}
			mu.Lock()
			rstats.merge(&us)
			if phantomKind(k.Kind) {
				phantomCases++
			}
			if isSorted(k.A) && isSorted(k.B) && isSorted(k.C) {
				sortedCases++
			} else {
				unsortedCases++
			}
			mu.Unlock()
			if i < 2 {
				run.Sample(fmt.Sprintf("random case %d: kind=%s sel=%s len(A)=%d len(B)=%d len(C)=%d word of %d calls (%d Reset)", i, k.Kind, k.Sel, len(k.A), len(k.B), len(k.C), len(k.Word), strings.Count(k.Word, "R")))
			}
		}(i)
	}
	rwg.Wait()
	total.merge(&rstats)
	run.Add("random_cases", int64(randomCases))
	run.Add("random_cases_sorted_inputs", sortedCases)
	run.Add("random_cases_unsorted_inputs", unsortedCases)
	run.Add("random_cases_phantom_tail_inputs", phantomCases)
	run.Add("random_calls", rstats.calls[0]+rstats.calls[1]+rstats.calls[2])
	run.Add("calls_HasNext", total.calls[0])
	run.Add("calls_Next", total.calls[1])
	run.Add("calls_Reset", total.calls[2])
	run.Add("calls_on_exhausted_mixer", total.exhausted)
	run.Add("selector_calls", total.selCalls)
	run.Add("reset_non_resettable_error", total.resetNR[0])
	run.Add("reset_non_resettable_nil", total.resetNR[1])
	run.Add("reset_non_resettable_panic", total.resetNR[2])
	run.Add("max_lookahead_elements", total.maxAhead)
	run.Add("input_resets_outside_mixer_Reset", total.lateResets)
	run.Add("input_Next_false_right_after_HasNext_true", total.imparity)
	run.Add("second_passes_after_Reset_of_exhausted_mixer", total.secondPass)
	run.Add("intit_calls", total.intitCalls)
	run.Add("intit_close_errors", total.closeErr)
	run.Add("repeated_findings_not_reported_again", total.repeats)
	if total.calls[2] == 0 || total.exhausted == 0 || total.intitCalls == 0 || total.imparity == 0 || total.secondPass == 0 {
		run.Inconclusive("a call class was never executed (Reset / exhausted mixer / WrapIntSlice / input with HasNext-Next imparity / second pass)")
	}
}

func hashCase(k kase) uint64 {
	b, _ := json.Marshal(k)
	return report.HashStr(string(b))
}

func randomCase(seed int64, i int, kind, sel string) kase {
	rng := rand.New(rand.NewSource(seed*1_000_003 + int64(i)))
	k := kase{Kind: kind, Sel: sel, Drain: true}
	span := []int{3, 50, 1_000_000}[rng.Intn(3)] // few values = many duplicates within and across inputs
	sorted := rng.Intn(3) != 0
	gen := func() []int {
		var n int
		switch rng.Intn(8) {
		case 0:
			n = 0
		case 1:
			n = 1 + rng.Intn(3)
		default:
			n = 500 + rng.Intn(1001)
		}
		s := make([]int, n)
		for j := range s {
			s[j] = rng.Intn(span)
		}
		if sorted {
			sort.Ints(s)
		}
		return s
	}
	k.A, k.B = gen(), gen()
	total := len(k.A) + len(k.B)
	if phantomKind(kind) {
		k.Phantom = []int{1, 2, 5, -1}[rng.Intn(4)]
	}
	if kind == kindNested || kind == kindPhNested {
		k.C = gen()
		total += len(k.C)
	}
	// call pattern: mostly Next, a third HasNext (also in runs), a Reset now and then
	resetEvery := []int{0, 150, 1500}[rng.Intn(3)]
	n := total*2 + rng.Intn(total+10)
	var sb strings.Builder
	for j := 0; j < n; j++ {
		switch x := rng.Intn(100); {
		case resetEvery > 0 && rng.Intn(resetEvery) == 0:
			sb.WriteByte('R')
		case x < 35:
			sb.WriteByte('H')
		default:
			sb.WriteByte('N')
		}
	}
	k.Word = sb.String()
	return k
}

func replay(run *report.Run, path string) {
	b, err := os.ReadFile(path)
	if err != nil {
		run.Inconclusive("cannot read replay file: " + err.Error())
		return
	}
	var doc struct {
		Witness kase `json:"witness"`
	}
	if err := json.Unmarshal(b, &doc); err != nil {
		run.Inconclusive("cannot parse replay file: " + err.Error())
		return
	}
	run.Eval(1)
	run.DistinctAdd(2)
	run.Sample(doc.Witness)
	var st stats
	if v := runCase(doc.Witness, &st); v != nil {
		run.Violation(v.sig, v.what, doc.Witness)
	} else {
		fmt.Println("REPLAY: no violation on this tree")
	}
}
