// C02 — KV storage: atomic operations, single CAS winner, fresh versions (history recorder + porcupine,
// outcome-class monitor, version-freshness monitor; DESIGN §3 C02). Runs under the race detector.
package c02

import (
	"context"
	"encoding/json"
	"fmt"
	"math/rand"
	"os"
	"runtime"
	"sort"
	"strings"
	"sync"
	"sync/atomic"
	"testing"
	"time"

	"github.com/acquirecloud/golibs/kvs"
	"github.com/acquirecloud/golibs/kvs/inmem"
	"github.com/alicebob/miniredis/v2/server"
	"github.com/anishathalye/porcupine"

	"verifharness/internal/hist"
	"verifharness/internal/kvmodel"
	"verifharness/internal/report"
)

func TestMain(m *testing.M) { os.Exit(report.ExitCode(m.Run())) }

type config struct {
	Backend string `json:"backend"`
	Flavour string `json:"flavour"` // mixed | create-race | cas-race
	T       int    `json:"threads"`
	K       int    `json:"ops_per_thread"`
	Keys    int    `json:"keys"`
	Seed    int64  `json:"seed"`
	Odd     bool   `json:"odd_keys,omitempty"` // keys that differ only by slashes / dot elements
}

type witness struct {
	Cfg     config     `json:"config"`
	Key     string     `json:"key,omitempty"`
	History []hist.Rec `json:"history"`
}

type client struct {
	id      int
	rng     *rand.Rand
	recs    []hist.Rec
	lastVer map[string]string // last version this client learned per key
	lastVal map[string]string // last value this client read / wrote per key
	seenVer []string          // every version this client ever saw
	n       int
}

type tracker struct { // freshness monitor (whole run of one history)
	mu       sync.Mutex
	supplied map[string]bool // versions the callers put into Record.Version of writes ("ignored" by contract)
}

// keyName: in every other history (oddKeys) the keys differ only by a trailing or doubled slash or a dot element:
// different keys to the contract, easily one key to a backend that "cleans" paths
func keyName(i int) string {
	return fmt.Sprintf("k%d", i)
}

func keyOf(cfg config, i int) string {
	if cfg.Odd {
		return []string{"j/x", "j//x", "j/x/", "j/./x", "j/x/../x"}[i%5]
	}
	return keyName(i)
}

// one history: T clients x K operations on a fresh store
func runHistory(s kvs.Storage, cfg config, base time.Time) ([]hist.Rec, map[string]bool) {
	ctx := context.Background()
	clients := make([]*client, cfg.T)
	supplied := map[string]bool{}
	var supMu sync.Mutex
	for i := range clients {
		clients[i] = &client{id: i, rng: rand.New(rand.NewSource(cfg.Seed*1009 + int64(i))), lastVer: map[string]string{}, lastVal: map[string]string{}}
	}
	now := func() int64 { return int64(time.Since(base)) }
	var setup []hist.Rec
	v0 := ""
	if cfg.Flavour == "cas-race" {
		c := now()
		r, err := s.Put(ctx, kvs.Record{Key: keyOf(cfg, 0), Value: []byte("init")})
		setup = append(setup, hist.Rec{Client: cfg.T, In: hist.In{Kind: hist.KPut, Key: keyOf(cfg, 0), Val: "init"}, Out: hist.Out{Err: hist.Classify(err), Ver: r.Version}, Call: c, Ret: now()})
		v0 = r.Version
	}
	start := make(chan struct{})
	var wg sync.WaitGroup
	for _, c := range clients {
		wg.Add(1)
		go func(c *client) {
			defer wg.Done()
			<-start
			for j := 0; j < cfg.K; j++ {
				key := keyOf(cfg, c.rng.Intn(cfg.Keys))
				val := fmt.Sprintf("%d-%d", c.id, c.n)
				c.n++
				same := c.rng.Intn(5) == 0 && c.lastVal[key] != "" // write exactly the bytes this client saw last
				// inmem only: now and then the record written carries an expiry that has already passed - it is
				// logically absent at once but physically there until somebody touches it (lazy purge paths)
				var expAt *time.Time
				short := int64(0)
				gone := cfg.Backend == "inmem" && c.rng.Intn(7) == 0
				if gone {
					t := time.Now().Add(-time.Millisecond)
					expAt = &t
				} else if c.rng.Intn(7) == 0 {
					// an expiry a few milliseconds ahead: it passes while the history runs. From then on the record
					// may be found absent (the in-memory store does, miniredis - no clock of its own - keeps
					// serving it), but a key seen absent never comes back without a write
					d := time.Duration(1500+c.rng.Intn(5000)) * time.Microsecond
					if cfg.Backend == "inmem" {
						d = time.Duration(10+c.rng.Intn(200)) * time.Microsecond // its histories last some 100 us
					}
					t := time.Now().Add(d)
					expAt = &t
					short = int64(t.Sub(base))
				} else if c.rng.Intn(4) == 0 {
					// an expiry far in the future: nothing expires during a history, but value, version and expiry
					// of one write belong together (see expiryOfAnotherWrite)
					t := time.Now().Add(time.Hour)
					expAt = &t
				}
				// the Version field of written records is "ignored" by contract: supply hostile ones
				sup := ""
				switch c.rng.Intn(3) {
				case 0:
					sup = c.lastVer[key]
				case 1:
					if len(c.seenVer) > 0 {
						sup = c.seenVer[c.rng.Intn(len(c.seenVer))]
					}
				}
				note := func(v string) {
					if v != "" {
						c.seenVer = append(c.seenVer, v)
					}
				}
				op := c.rng.Intn(100)
				switch cfg.Flavour {
				case "create-race":
					if j == 0 {
						op = 0
						key = keyOf(cfg, 0)
					}
				case "cas-race":
					if j == 0 {
						op = 100
						key = keyOf(cfg, 0)
					}
				}
				if c.rng.Intn(4) == 0 {
					runtime.Gosched()
				}
				switch {
				case op == 100: // racing CAS against the same version
					call := now()
					r, err := s.CasByVersion(ctx, kvs.Record{Key: key, Value: []byte(val), Version: v0})
					ret := now()
					e := hist.Classify(err)
					out := hist.Out{Err: e}
					if e == hist.ENil {
						out.Ver = r.Version
						c.lastVer[key] = r.Version
						note(r.Version)
					} else if e == hist.EOther {
						out.Msg = err.Error()
					}
					c.recs = append(c.recs, hist.Rec{Client: c.id, In: hist.In{Kind: hist.KCas, Key: key, Val: val, Exp: v0}, Out: out, Call: call, Ret: ret})
				case op < 14:
					if sup != "" {
						supMu.Lock()
						supplied[sup] = true
						supMu.Unlock()
					}
					call := now()
					ver, err := s.Create(ctx, kvs.Record{Key: key, Value: []byte(val), Version: sup, ExpiresAt: expAt})
					ret := now()
					e := hist.Classify(err)
					out := hist.Out{Err: e}
					if e == hist.ENil {
						out.Ver = ver
						c.lastVer[key] = ver
						note(ver)
					} else if e == hist.EExist {
						if ver != "" {
							c.lastVer[key] = ver // the stored version reported with ErrExist (its exactness is C03's business)
						}
					} else if e == hist.EOther {
						out.Msg = err.Error()
					}
					c.recs = append(c.recs, hist.Rec{Client: c.id, In: hist.In{Kind: hist.KCreate, Key: key, Val: val, Gone: gone, ExpAt: short}, Out: out, Call: call, Ret: ret})
				case op < 34:
					call := now()
					r, err := s.Get(ctx, key)
					ret := now()
					e := hist.Classify(err)
					out := hist.Out{Err: e}
					if e == hist.ENil {
						out.Val, out.Ver = string(r.Value), r.Version
						c.lastVer[key] = r.Version
						c.lastVal[key] = string(r.Value)
						note(r.Version)
					} else if e == hist.EOther {
						out.Msg = err.Error()
					}
					c.recs = append(c.recs, hist.Rec{Client: c.id, In: hist.In{Kind: hist.KGet, Key: key}, Out: out, Call: call, Ret: ret})
				case op < 48:
					if sup != "" {
						supMu.Lock()
						supplied[sup] = true
						supMu.Unlock()
					}
					if same {
						val = c.lastVal[key]
					}
					call := now()
					r, err := s.Put(ctx, kvs.Record{Key: key, Value: []byte(val), Version: sup, ExpiresAt: expAt})
					ret := now()
					e := hist.Classify(err)
					out := hist.Out{Err: e, Ver: r.Version}
					if e == hist.ENil {
						c.lastVer[key] = r.Version
						c.lastVal[key] = val
						note(r.Version)
					} else {
						out.Msg = err.Error()
					}
					c.recs = append(c.recs, hist.Rec{Client: c.id, In: hist.In{Kind: hist.KPut, Key: key, Val: val, Gone: gone, ExpAt: short}, Out: out, Call: call, Ret: ret})
				case op < 72:
					exp := c.lastVer[key]
					switch c.rng.Intn(5) {
					case 0:
						exp = "made-up"
					case 1:
						if len(c.seenVer) > 0 {
							exp = c.seenVer[c.rng.Intn(len(c.seenVer))]
						}
					}
					if same {
						val = c.lastVal[key] // a CAS that re-writes the bytes it has read: still a write, still a new version
					}
					call := now()
					r, err := s.CasByVersion(ctx, kvs.Record{Key: key, Value: []byte(val), Version: exp, ExpiresAt: expAt})
					ret := now()
					e := hist.Classify(err)
					out := hist.Out{Err: e}
					if e == hist.ENil {
						out.Ver = r.Version
						c.lastVer[key] = r.Version
						c.lastVal[key] = val
						note(r.Version)
					} else if e == hist.EOther {
						out.Msg = err.Error()
					}
					c.recs = append(c.recs, hist.Rec{Client: c.id, In: hist.In{Kind: hist.KCas, Key: key, Val: val, Exp: exp, Gone: gone, ExpAt: short}, Out: out, Call: call, Ret: ret})
				case op < 82:
					call := now()
					err := s.Delete(ctx, key)
					ret := now()
					e := hist.Classify(err)
					out := hist.Out{Err: e}
					if e == hist.EOther {
						out.Msg = err.Error()
					}
					c.recs = append(c.recs, hist.Rec{Client: c.id, In: hist.In{Kind: hist.KDelete, Key: key}, Out: out, Call: call, Ret: ret})
				case op < 91: // GetMany: one read per key, same interval
					keys := []string{key}
					for extra := c.rng.Intn(3); extra > 0; extra-- { // one to three keys, repeats possible
						keys = append(keys, keyOf(cfg, c.rng.Intn(cfg.Keys)))
					}
					call := now()
					rs, err := s.GetMany(ctx, keys...)
					ret := now()
					e := hist.Classify(err)
					found := map[string]*kvs.Record{}
					for _, r := range rs {
						if r != nil {
							found[r.Key] = r
						}
					}
					done := map[string]bool{}
					for _, k := range keys {
						if done[k] {
							continue
						}
						done[k] = true
						out := hist.Out{Err: e}
						if e == hist.ENil {
							if r := found[k]; r != nil {
								out.Val, out.Ver = string(r.Value), r.Version
								c.lastVer[k] = r.Version
								note(r.Version)
							} else {
								out.Err = hist.ENotExist
							}
						} else {
							// GetMany has no documented failure for absent keys (they give nil entries): any error is
							// outside the documented set, ErrNotExist included
							out.Err = hist.EOther
							out.Msg = fmt.Sprintf("GetMany(%d keys) returned the error %v", len(keys), err)
						}
						c.recs = append(c.recs, hist.Rec{Client: c.id, In: hist.In{Kind: hist.KGet, Key: k}, Out: out, Call: call, Ret: ret})
					}
				default: // PutMany: one write per (distinct) key, same interval
					keys := []string{key}
					for extra := 0; extra < 2; extra++ {
						k2 := keyOf(cfg, c.rng.Intn(cfg.Keys))
						dup := false
						for _, k := range keys {
							dup = dup || k == k2
						}
						if !dup {
							keys = append(keys, k2)
						}
					}
					recs := make([]kvs.Record, len(keys))
					vals := make([]string, len(keys))
					shorts := make([]int64, len(keys))
					for i, k := range keys {
						vals[i] = fmt.Sprintf("%s.%d", val, i)
						if same && c.lastVal[k] != "" {
							vals[i] = c.lastVal[k]
						}
						sv := ""
						if c.rng.Intn(2) == 0 {
							sv = c.lastVer[k]
						}
						if sv != "" {
							supMu.Lock()
							supplied[sv] = true
							supMu.Unlock()
						}
						itemExp := expAt
						shorts[i] = short
						if !gone && c.rng.Intn(3) == 0 {
							shorts[i] = 0
							// mixed batches: some items carry an expiry far in the future (nothing expires during a
							// history; the backends take different code paths for such batches)
							t := time.Now().Add(time.Hour)
							itemExp = &t
						}
						recs[i] = kvs.Record{Key: k, Value: []byte(vals[i]), Version: sv, ExpiresAt: itemExp}
					}
					call := now()
					err := s.PutMany(ctx, recs)
					ret := now()
					e := hist.Classify(err)
					for i, k := range keys {
						out := hist.Out{Err: e}
						if e != hist.ENil {
							out.Msg = err.Error()
						}
						c.recs = append(c.recs, hist.Rec{Client: c.id, In: hist.In{Kind: hist.KPutSym, Key: k, Val: vals[i], Gone: gone, ExpAt: shorts[i]}, Out: out, Call: call, Ret: ret})
					}
				}
			}
		}(c)
	}
	close(start)
	wg.Wait()
	all := append([]hist.Rec(nil), setup...)
	for _, c := range clients {
		all = append(all, c.recs...)
	}
	sort.SliceStable(all, func(i, j int) bool { return all[i].Call < all[j].Call })
	return all, supplied
}

// bigGetMany (at the quiescent end of a history): one GetMany over 130-300 keys (the history's few keys, cycled)
// must answer position by position what single Gets answer.
func bigGetMany(s kvs.Storage, cfg config, recs []hist.Rec, run *report.Run) *finding {
	ctx := context.Background()
	n := 130 + int(cfg.Seed%171)
	keys := make([]string, n)
	for i := range keys {
		keys[i] = keyOf(cfg, i%(cfg.Keys+1)) // one key more than the history used: always absent
	}
	single := map[string]*kvs.Record{}
	for i := 0; i <= cfg.Keys; i++ {
		if r, err := s.Get(ctx, keyOf(cfg, i)); err == nil {
			rc := r
			single[keyOf(cfg, i)] = &rc
		}
	}
	res, err := s.GetMany(ctx, keys...)
	run.Add("big_getmany_calls_"+cfg.Backend, 1)
	if err != nil {
		return &finding{cfg.Backend + "/GetMany/undocumented-error", fmt.Sprintf("GetMany of %d keys returned the error %v", n, err), witness{Cfg: cfg, History: recs}}
	}
	if len(res) != n {
		return &finding{cfg.Backend + "/GetMany/result-length", fmt.Sprintf("GetMany of %d keys returned %d entries", n, len(res)), witness{Cfg: cfg, History: recs}}
	}
	for i, r := range res {
		want := single[keys[i]]
		if want != nil && want.ExpiresAt != nil && time.Until(*want.ExpiresAt) < time.Minute {
			continue // a record about to expire may be gone between the two reads
		}
		switch {
		case r == nil && want == nil:
		case r == nil || want == nil:
			return &finding{cfg.Backend + "/GetMany/position-differs-from-Get", fmt.Sprintf("GetMany of %d keys: position %d (key %s) is %v, a single Get says %v (nothing is running)", n, i, keys[i], r, want), witness{Cfg: cfg, Key: keys[i], History: recs}}
		case r.Key != keys[i] || r.Version != want.Version || string(r.Value) != string(want.Value):
			return &finding{cfg.Backend + "/GetMany/position-differs-from-Get", fmt.Sprintf("GetMany of %d keys: position %d (key %s) holds {%s %q %s}, a single Get says {%s %q %s} (nothing is running)", n, i, keys[i], r.Key, r.Value, r.Version, want.Key, want.Value, want.Version), witness{Cfg: cfg, Key: keys[i], History: recs}}
		}
	}
	return nil
}

// expiryOfAnotherWrite (Redis, at the quiescent end of a history): every record that is there now and carries no
// expiry must still be there, unchanged, after the server clock has passed every expiry that any write of the
// history carried (1 h). A write takes effect as a whole: the expiry of an overwritten record must not stick
// to the record that replaced it.
func expiryOfAnotherWrite(rs *kvmodel.RedisServer, cfg config, recs []hist.Rec, run *report.Run) *finding {
	ctx := context.Background()
	type st struct{ ver string }
	keep := map[string]st{}
	for i := 0; i < cfg.Keys; i++ {
		r, err := rs.S.Get(ctx, keyOf(cfg, i))
		if err != nil {
			continue
		}
		run.Add("redis_final_records_checked", 1)
		if r.ExpiresAt == nil {
			keep[keyOf(cfg, i)] = st{r.Version}
		} else {
			run.Add("redis_final_records_with_expiry", 1)
		}
	}
	if len(keep) == 0 {
		return nil
	}
	rs.MR.FastForward(2 * time.Hour)
	for k, was := range keep {
		r, err := rs.S.Get(ctx, k)
		if err != nil || r.Version != was.ver {
			return &finding{"redis/write-not-atomic/expiry-of-another-write", fmt.Sprintf("at the end of the history key %s held version %s without an expiry; after the server clock had passed the expiries of the other writes of the history (1 h) Get returned (%q, %v): the expiry of an overwritten record stuck to the record that replaced it", k, was.ver, r.Version, err), witness{Cfg: cfg, Key: k, History: recs}}
		}
	}
	return nil
}

// monitors over one recorded history; returns (sig, what, witness) triples
type finding struct {
	sig, what string
	w         witness
}

func judge(cfg config, recs []hist.Rec, supplied map[string]bool, run *report.Run) []finding {
	var out []finding
	// Monitor 2: outcome classes
	for _, r := range recs {
		if r.Out.Err == hist.EOther {
			msg := r.Out.Msg
			if len(msg) > 40 {
				msg = msg[:40]
			}
			msg = strings.Map(func(c rune) rune {
				if c == ' ' || c == ':' {
					return '_'
				}
				return c
			}, msg)
			out = append(out, finding{cfg.Backend + "/" + hist.KindNames[r.In.Kind] + "/undocumented-error:" + msg,
				fmt.Sprintf("%s ended with an error outside the documented outcomes: %s", r, r.Out.Msg), witness{Cfg: cfg, Key: r.In.Key, History: []hist.Rec{r}}})
			break
		}
	}
	// Monitor 3: freshness — every version handed out by a write is new, and one version never names two writes
	type wr struct {
		val string
		r   hist.Rec
	}
	byWrite := map[string]wr{}
	fresh := true
	for _, r := range recs {
		if r.Out.Err != hist.ENil || !(r.In.Kind == hist.KCreate || r.In.Kind == hist.KPut || r.In.Kind == hist.KCas) {
			continue
		}
		if r.Out.Ver == "" {
			out = append(out, finding{cfg.Backend + "/" + hist.KindNames[r.In.Kind] + "/empty-version", fmt.Sprintf("%s: a successful write returned an empty version", r), witness{Cfg: cfg, Key: r.In.Key, History: []hist.Rec{r}}})
			fresh = false
			break
		}
		if prev, ok := byWrite[r.Out.Ver]; ok {
			out = append(out, finding{cfg.Backend + "/version-reused", fmt.Sprintf("two successful writes were given the same version %q: %s and %s", r.Out.Ver, prev.r, r), witness{Cfg: cfg, Key: r.In.Key, History: []hist.Rec{prev.r, r}}})
			fresh = false
			break
		}
		byWrite[r.Out.Ver] = wr{r.In.Val, r}
	}
	seenBy := map[string]hist.Rec{}
	for _, r := range recs {
		if !fresh || r.In.Kind != hist.KGet || r.Out.Err != hist.ENil {
			continue
		}
		if w, ok := byWrite[r.Out.Ver]; ok && (w.val != r.Out.Val || w.r.In.Key != r.In.Key) {
			out = append(out, finding{cfg.Backend + "/version-reused", fmt.Sprintf("%s reports version %q, which was handed out by %s", r, r.Out.Ver, w.r), witness{Cfg: cfg, Key: r.In.Key, History: []hist.Rec{w.r, r}}})
			break
		}
		if prev, ok := seenBy[r.Out.Ver]; ok && (prev.Out.Val != r.Out.Val || prev.In.Key != r.In.Key) {
			out = append(out, finding{cfg.Backend + "/version-reused", fmt.Sprintf("version %q is reported for two different records: %s and %s", r.Out.Ver, prev, r), witness{Cfg: cfg, Key: r.In.Key, History: []hist.Rec{prev, r}}})
			break
		}
		seenBy[r.Out.Ver] = r
	}
	// direct counters
	if cfg.Flavour == "create-race" || cfg.Flavour == "cas-race" {
		wins := 0
		racers := 0
		for _, r := range recs {
			if cfg.Flavour == "create-race" && r.In.Kind == hist.KCreate && r.In.Key == keyOf(cfg, 0) && r.Call < firstNonRace(recs, cfg) {
				racers++
			}
		}
		_ = racers
		byExp := map[string]int{}
		for _, r := range recs {
			if r.In.Kind == hist.KCas && r.Out.Err == hist.ENil {
				byExp[r.In.Key+"|"+r.In.Exp]++
			}
		}
		for k, n := range byExp {
			if n > 1 {
				out = append(out, finding{cfg.Backend + "/Cas/two-winners", fmt.Sprintf("%d CasByVersion calls against %s succeeded", n, k), witness{Cfg: cfg, History: recs}})
			}
			wins += n
		}
		run.Add("cas_successes", int64(wins))
	}
	// Monitor 1: linearizability
	res := hist.Check(recs, 60*time.Second)
	switch res {
	case porcupine.Unknown:
		run.Add("porcupine_unknown", 1)
	case porcupine.Illegal:
		key, sub := hist.IllegalKey(recs, 20*time.Second)
		kinds := map[string]bool{}
		for _, r := range sub {
			kinds[hist.KindNames[r.In.Kind]] = true
		}
		var ks []string
		for k := range kinds {
			ks = append(ks, k)
		}
		sort.Strings(ks)
		out = append(out, finding{cfg.Backend + "/not-linearizable:" + strings.Join(ks, "+"),
			fmt.Sprintf("the sub-history of key %s (%d operations) has no sequential order compatible with real time", key, len(sub)), witness{Cfg: cfg, Key: key, History: sub}})
	}
	return out
}

func firstNonRace(recs []hist.Rec, cfg config) int64 { return 1 << 62 }

func TestCheck(t *testing.T) {
	run := report.New("C02", "exploration")
	defer run.Finish(t)
	run.Rule("concurrent histories of T in 2..8 clients x K in 4..12 operations over 1..3 keys (in every fourth history keys that differ only by a trailing / doubled slash or a dot element: j/x, j//x, j/x/) (mix of Create/Get/Put/CasByVersion/Delete/GetMany/PutMany with unique values and occasional re-writes of identical bytes, inmem: writes of records whose expiry has already passed (logically absent, physically awaiting the lazy purge), writes carrying an expiry far in the future or a few milliseconds ahead (it passes during the history: from then on the key may be found absent, and a key seen absent never comes back without a write), hostile Version fields and stale / made-up CAS versions; flavours: mixed, racing creators, racing CAS on one version) recorded at the client boundary and checked (1) by porcupine against the per-key sequential model, (2) for outcomes outside the documented set, (3) for injectivity of version -> write, (4) Redis, at the quiescent end of every history: records without an expiry survive, unchanged, a jump of the server clock past the expiries of the other writes (the expiry of one write must not stick to another). (5) at the quiescent end: one GetMany of 130-300 keys answers position by position what single Gets answer. The whole workload is repeated (half as many histories) by a second pass built without the race detector, whose slow-down changes the interleavings. distinct = distinct outcome words (client, operation, key, outcome in call order) among histories in which operations of different clients on one key really overlapped in time")
	run.Assume("Redis backend runs against the in-process miniredis server with random per-command delays injected by its pre-hook")
	run.Assume("the version reported together with ErrExist is not judged here (C03)")

	if p := os.Getenv("VERIF_REPLAY"); p != "" {
		replay(run, p)
		return
	}

	nPer := run.Pick(3000, 150000)
	if os.Getenv("VERIF_PASS") == "norace" { // second pass, built without the race detector: other timing, same monitors
		nPer /= 2
	}
	var wg sync.WaitGroup
	var mu sync.Mutex
	words := map[uint64]struct{}{}
	var overlapping, totalOverlaps, opsTotal atomic.Int64
	workers := runtime.NumCPU()
	for _, backend := range []string{"inmem", "redis"} {
		jobs := make(chan config, 64)
		for w := 0; w < workers; w++ {
			wg.Add(1)
			go func(w int) {
				defer wg.Done()
				var rs *kvmodel.RedisServer
				if backend == "redis" {
					var err error
					rs, err = kvmodel.NewRedisServer()
					if err != nil {
						run.Inconclusive("miniredis: " + err.Error())
						for range jobs {
						}
						return
					}
					defer rs.Close()
					var ctr atomic.Uint64
					rs.MR.Server().SetPreHook(func(_ *server.Peer, cmd string, _ ...string) bool {
						x := ctr.Add(0x9E3779B97F4A7C15)
						x ^= x >> 29
						if x%4 == 0 {
							time.Sleep(time.Duration(x%200) * time.Microsecond)
						} else if x%4 == 1 {
							runtime.Gosched()
						}
						return false
					})
				}
				base := time.Now()
				for cfg := range jobs {
					var s kvs.Storage
					if backend == "redis" {
						rs.MR.FlushAll()
						s = rs.S
					} else {
						s = inmem.New()
					}
					recs, supplied := runHistory(s, cfg, base)
					run.Eval(1)
					run.Add("histories_"+backend+"_"+cfg.Flavour, 1)
					opsTotal.Add(int64(len(recs)))
					if ov := hist.Overlaps(recs); ov > 0 {
						overlapping.Add(1)
						totalOverlaps.Add(int64(ov))
						var sb strings.Builder
						for _, r := range recs {
							fmt.Fprintf(&sb, "%d%d%s%d;", r.Client, r.In.Kind, r.In.Key, r.Out.Err)
						}
						h := report.HashStr(backend + sb.String())
						mu.Lock()
						words[h] = struct{}{}
						mu.Unlock()
					}
					{
						exp := map[string]int64{}
						for _, r := range recs {
							if e, ok := exp[r.In.Key]; ok && e != 0 && r.Ret >= e {
								run.Add("operations_after_a_short_expiry_passed_"+backend, 1)
							}
							if r.Out.Err == hist.ENil && r.In.Kind != hist.KGet && r.In.Kind != hist.KDelete {
								exp[r.In.Key] = r.In.ExpAt
							}
						}
					}
					for _, f := range judge(cfg, recs, supplied, run) {
						run.Violation(f.sig, f.what, f.w)
					}
					if f := bigGetMany(s, cfg, recs, run); f != nil {
						run.Violation(f.sig, f.what, f.w)
					}
					if rs != nil {
						if f := expiryOfAnotherWrite(rs, cfg, recs, run); f != nil {
							run.Violation(f.sig, f.what, f.w)
						}
					}
					if run.SampleN() < 2 && len(recs) > 6 {
						run.Sample(map[string]any{"config": cfg, "first_operations": recs[:6]})
					}
				}
			}(w)
		}
		rng := rand.New(rand.NewSource(run.Seed()))
		for i := 0; i < nPer; i++ {
			cfg := config{Backend: backend, Flavour: "mixed", T: 2 + rng.Intn(7), K: 4 + rng.Intn(9), Keys: 1 + rng.Intn(3), Seed: run.Seed()*1_000_003 + int64(i), Odd: i%4 == 1}
			switch i % 5 {
			case 3:
				cfg.Flavour = "create-race"
			case 4:
				cfg.Flavour = "cas-race"
				cfg.T = 4 + rng.Intn(5)
			}
			jobs <- cfg
		}
		close(jobs)
		wg.Wait()
	}
	for h := range words {
		run.Distinct(h)
	}
	run.Note("histories_with_real_overlap", overlapping.Load())
	run.Note("overlapping_operation_pairs", totalOverlaps.Load())
	run.Note("operations_recorded", opsTotal.Load())
	if u := run.Counter("porcupine_unknown").Load(); u > int64(nPer/50) {
		run.Inconclusive(fmt.Sprintf("porcupine timed out on %d histories", u))
	}
}

func replay(run *report.Run, path string) {
	b, err := os.ReadFile(path)
	if err != nil {
		run.Inconclusive("cannot read replay file: " + err.Error())
		return
	}
	var doc struct {
		Witness witness `json:"witness"`
	}
	if err := json.Unmarshal(b, &doc); err != nil {
		run.Inconclusive("cannot parse replay file: " + err.Error())
		return
	}
	// a recorded concurrent history cannot be forced to happen again; the replay re-judges the recorded
	// witness and then re-runs the configuration that produced it a number of times
	run.Eval(1)
	run.DistinctAdd(2)
	run.Sample(doc.Witness.Cfg)
	for _, f := range judge(doc.Witness.Cfg, doc.Witness.History, nil, run) {
		fmt.Printf("REPLAY: recorded witness judged: %s %s\n", f.sig, f.what)
	}
	cfg := doc.Witness.Cfg
	var rs *kvmodel.RedisServer
	if cfg.Backend == "redis" {
		rs, err = kvmodel.NewRedisServer()
		if err != nil {
			run.Inconclusive(err.Error())
			return
		}
		defer rs.Close()
	}
	base := time.Now()
	for i := 0; i < 300; i++ {
		var s kvs.Storage
		if rs != nil {
			rs.MR.FlushAll()
			s = rs.S
		} else {
			s = inmem.New()
		}
		recs, supplied := runHistory(s, cfg, base)
		run.Eval(1)
		for _, f := range judge(cfg, recs, supplied, run) {
			run.Violation(f.sig, f.what, f.w)
		}
	}
}
