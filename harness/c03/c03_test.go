// C03 — both KV backends implement one sequential contract (reference-model monitor, DESIGN §3 C03).
package c03

import (
	"encoding/json"
	"fmt"
	"math/rand"
	"os"
	"runtime"
	"strings"
	"sync"
	"testing"

	"verifharness/internal/kvmodel"
	"verifharness/internal/report"
)

func TestMain(m *testing.M) { os.Exit(report.ExitCode(m.Run())) }

type Op = kvmodel.Op

const far = 1000 // expiry ≈ 41 days ahead: never reached here (clock movement is C06's business)

// besides plain keys: keys that some path-cleaning or prefix logic could confuse with each other or with nothing
// ("a/" vs "a", "k//1" vs "k/1", "./a", "b/../a" vs "a"). The empty key takes part; only its membership in listings whose pattern contains "?" is not judged: gobwas/glob (v0.2.3) lets "?" match nothing, a quirk of the library the contract refers to, not of golibs. Keys with a LEADING '/' stay excluded
// (the Redis backend strips them by design).
var allKeys = []string{"a", "b", "ab", "k/1", "k/2", "zz", "a/", "k//1", "./a", "b/../a", ""}

// the operation instances enumerated exhaustively
func alphabet(backend string) []Op {
	a := baseAlphabet()
	// records written with an expiry that has already passed (on Redis such a key lives for a millisecond: the
	// backend view lets 5 ms of the server clock pass after such a write), and "never" expiries (year 2300 / 9999)
	a = append(a, Op{K: "Put", Key: "a", Val: 2, Exp: -1}, Op{K: "PutMany", Keys: []string{"ab", "a"}, Val: 1, Exps: []int{0, -1}},
		Op{K: "Put", Key: "ab", Val: 3, Exp: kvmodel.Never2}, Op{K: "Cas", Key: "a", Val: 1, Ver: "cur", Exp: kvmodel.Never1},
		// the empty key is a key like any other
		Op{K: "Put", Key: "", Val: 2}, Op{K: "Delete", Key: ""},
		// one GetMany asking for 300 keys (the same few, repeated)
		Op{K: "GetMany", Keys: manyKeys(300)},
		// an expiry that points to the zero time (long past)
		Op{K: "Put", Key: "a", Val: 3, Exp: kvmodel.ZeroTime}, Op{K: "PutMany", Keys: []string{"b", "a"}, Val: 2, Exps: []int{kvmodel.ZeroTime, 0}})
	return a
}

func manyKeys(n int) []string {
	ks := make([]string, n)
	for i := range ks {
		ks[i] = []string{"a", "zz", "ab", "a", "k/1"}[i%5]
	}
	return ks
}

func baseAlphabet() []Op {
	return []Op{
		{K: "Create", Key: "a", Val: 2},
		{K: "Create", Key: "a", Val: 1, Ver: "mine"},
		{K: "Create", Key: "ab", Val: 3, Exp: far},
		{K: "Create", Key: "k/1", Val: 0, Ver: "cur"},
		{K: "Get", Key: "a"},
		{K: "Get", Key: "ab"},
		{K: "Get", Key: "k/1"},
		{K: "GetMany", Keys: []string{"a", "ab"}},
		{K: "GetMany", Keys: []string{"ab", "a", "a"}},
		{K: "GetMany", Keys: []string{"zz"}},
		{K: "GetMany", Keys: []string{}},
		{K: "GetMany", Keys: []string{"k/1", "b", "a"}},
		{K: "Put", Key: "a", Val: 3, Ver: "cur"},
		{K: "Put", Key: "ab", Val: 1},
		{K: "Put", Key: "a", Val: 2, Exp: far},
		{K: "Put", Key: "k/2", Val: 0, Ver: "mine"},
		{K: "PutMany", Keys: []string{"a", "ab"}, Val: 2, Ver: "cur"},
		{K: "PutMany", Keys: []string{"a", "a"}, Val: 2},
		{K: "PutMany", Keys: []string{"k/1", "b"}, Val: 3, Exp: far},
		{K: "PutMany", Keys: []string{"a"}, Val: 0, Ver: "mine"},
		{K: "PutMany", Keys: []string{}},
		{K: "PutMany", Keys: []string{"a", "a"}, Val: 1, Exps: []int{0, far}},
		{K: "PutMany", Keys: []string{"a", "b", "a"}, Val: 2, Exps: []int{far, 0, 0}},
		{K: "Cas", Key: "a", Val: 3, Ver: "cur"},
		{K: "Cas", Key: "a", Val: 1, Ver: "stale"},
		{K: "Cas", Key: "a", Val: 2, Ver: "bogus"},
		{K: "Cas", Key: "ab", Val: 2, Ver: "cur", Exp: far},
		{K: "Cas", Key: "a", Val: 2, Ver: "mine"},
		{K: "Delete", Key: "a"},
		{K: "Delete", Key: "ab"},
		{K: "Delete", Key: "zz"},
		{K: "List", Pat: "*"},
		{K: "List", Pat: "a*"},
		{K: "List", Pat: "*b"},
		{K: "List", Pat: "?"},
		{K: "List", Pat: "k/?"},
		{K: "List", Pat: "[ab]"},
		{K: "List", Pat: "zz"},
		{K: "List", Pat: "a"},
		{K: "Put", Key: "a/", Val: 3},
		{K: "Create", Key: "k//1", Val: 2},
		{K: "Create", Key: "b/../a", Val: 3},
		{K: "Delete", Key: "a/"},
		{K: "Get", Key: "k//1"},
		{K: "Wait", Key: "a", Ver: "stale"},
		{K: "Wait", Key: "a", Ver: "bogus"},
		{K: "Wait", Key: "zz", Ver: "bogus"},
	}
}

type kase struct {
	Backend string `json:"backend"`
	Observe bool   `json:"observe"` // full observation (GetMany of all keys + List *) after every op, else only at the end
	Ops     []Op   `json:"ops"`
}

var observers = []Op{{K: "GetMany", Keys: allKeys}, {K: "List", Pat: "*"}}

// runCase returns (violation, number of ops actually applied); inapplicable ops are skipped.
func runCase(be *kvmodel.Backend, k kase, states map[string]struct{}, opCount map[string]int64) *kvmodel.Vio {
	m := kvmodel.New(be)
	for i, o := range k.Ops {
		if !m.Applicable(o) {
			continue
		}
		if v := m.Step(o); v != nil {
			v.What = fmt.Sprintf("step %d: %s", i, v.What)
			return v
		}
		if opCount != nil {
			opCount[o.K]++
		}
		if k.Observe || i == len(k.Ops)-1 {
			for _, ob := range observers {
				if v := m.Step(ob); v != nil {
					v.What = fmt.Sprintf("observation after step %d (%s): %s", i, o, v.What)
					return v
				}
			}
		}
		if states != nil {
			states[m.StateKey()] = struct{}{}
		}
	}
	return nil
}

type worker struct {
	rs     *kvmodel.RedisServer
	states map[string]struct{}
	ops    map[string]int64
}

func (w *worker) backend(name string) *kvmodel.Backend {
	if name == "redis" {
		return w.rs.Backend()
	}
	return kvmodel.InmemPlain()
}

func TestCheck(t *testing.T) {
	run := report.New("C03", "exploration")
	defer run.Finish(t)
	run.Rule("every sequence over 57 operation instances (one of them a GetMany of 300 keys; writes with the same logical expiry share one *time.Time, which must stay untouched) (incl. the empty key; every ListKeys is followed by a second listing that is opened and drained before the first one is read) (incl. keys like \"a/\", \"k//1\", \"b/../a\" ) (Create/Get/GetMany/Put/PutMany/CasByVersion/Delete/ListKeys/WaitForVersionChange; nil/empty/non-empty values; with/without far expiry, expiries already past when written (incl. a pointer to the zero time) and 'never' expiries (years 2300 / 9999); on Redis the time to live the server holds for every written key is compared with the expiry that was given; repeated, missing and no keys in GetMany/PutMany; current/stale/made-up/caller-supplied versions) to the depth bound, plus seeded random sequences of length 30-200 over 6 keys; each backend is compared call by call with the contract model (error class, returned record, version relations, ListKeys as a set). distinct = distinct logical store states (key, presence, value, expiry, kind of last write) reached")
	run.Assume("Redis backend runs against the in-process miniredis server; keys with a leading '/' and invalid glob patterns are not generated (contract silent)")
	run.Assume("values are compared with bytes.Equal (nil == empty), expiries as instants, ListKeys as a set")

	if p := os.Getenv("VERIF_REPLAY"); p != "" {
		replay(run, p)
		return
	}

	depth := run.Pick(3, 4)
	type unit struct {
		backend string
		prefix  []Op
		observe bool
	}
	units := make(chan func(w *worker), 256)
	var wg sync.WaitGroup
	var mu sync.Mutex
	states := map[string]struct{}{}
	opTotals := map[string]int64{}
	nw := runtime.NumCPU()
	for i := 0; i < nw; i++ {
		rs, err := kvmodel.NewRedisServer()
		if err != nil {
			run.Inconclusive("cannot start miniredis: " + err.Error())
			return
		}
		w := &worker{rs: rs, states: map[string]struct{}{}, ops: map[string]int64{}}
		wg.Add(1)
		go func() {
			defer wg.Done()
			defer w.rs.Close()
			for f := range units {
				f(w)
			}
			mu.Lock()
			for s := range w.states {
				states[s] = struct{}{}
			}
			for k, n := range w.ops {
				opTotals[k] += n
			}
			mu.Unlock()
		}()
	}

	exec := func(w *worker, k kase) {
		be := w.backend(k.Backend)
		run.Eval(1)
		run.Add("sequences_"+k.Backend, 1)
		if v := runCase(be, k, w.states, w.ops); v != nil {
			if strings.HasPrefix(v.Sig, "inconclusive/") {
				run.Inconclusive(v.What)
				return
			}
			run.Violation(v.Sig, v.What, k)
		}
	}

	// exhaustive part: one work unit per (backend, first op, second op)
	for _, backend := range []string{"inmem", "redis"} {
		alpha := alphabet(backend)
		for i1 := range alpha {
			for i2 := range alpha {
				backend, i1, i2 := backend, i1, i2
				units <- func(w *worker) {
					var rec func(ops []Op)
					n := 0
					rec = func(ops []Op) {
						if len(ops) == depth {
							n++
							observe := run.Thorough() || n%2 == 0
							exec(w, kase{Backend: backend, Observe: observe, Ops: ops})
							if run.Thorough() && n%4 == 0 {
								exec(w, kase{Backend: backend, Observe: false, Ops: ops})
							}
							return
						}
						for _, o := range alpha {
							rec(append(append([]Op(nil), ops...), o))
						}
					}
					rec([]Op{alpha[i1], alpha[i2]})
				}
			}
		}
	}
	// random part
	nRandom := run.Pick(400, 6000)
	for i := 0; i < nRandom; i++ {
		i := i
		units <- func(w *worker) {
			rng := rand.New(rand.NewSource(run.Seed()*7919 + int64(i)))
			k := kase{Backend: []string{"inmem", "redis"}[i%2], Observe: rng.Intn(3) == 0}
			n := 30 + rng.Intn(171)
			for j := 0; j < n; j++ {
				k.Ops = append(k.Ops, randomOp(rng))
			}
			run.Add("random_sequences", 1)
			exec(w, k)
		}
	}
	close(units)
	wg.Wait()

	for s := range states {
		run.DistinctStr(s)
	}
	run.Note("depth", depth)
	run.Note("operations_applied", opTotals)
	alpha := alphabet("inmem")
	run.Sample(kase{Backend: "redis", Observe: true, Ops: []Op{alpha[0], alpha[16], alpha[21]}})
	run.Sample(kase{Backend: "inmem", Observe: false, Ops: []Op{alpha[2], alpha[24], alpha[33]}})
	i := 0
	for s := range states {
		if i >= 2 {
			break
		}
		run.Sample("state: " + s)
		i++
	}
}

func randomOp(rng *rand.Rand) Op {
	key := func() string { return allKeys[rng.Intn(len(allKeys))] }
	keys := func() []string {
		n := rng.Intn(5)
		ks := make([]string, n)
		for i := range ks {
			ks[i] = key()
		}
		return ks
	}
	exp := func() int {
		switch rng.Intn(12) {
		case 0, 1, 2, 3:
			return far + rng.Intn(5)
		case 4:
			return kvmodel.Never1 + rng.Intn(2)
		case 5:
			return -1 - rng.Intn(2)
		case 6:
			return kvmodel.ZeroTime
		}
		return 0
	}
	cver := func() string { return []string{"", "cur", "mine"}[rng.Intn(3)] }
	switch x := rng.Intn(100); {
	case x < 12:
		return Op{K: "Create", Key: key(), Val: rng.Intn(4), Exp: exp(), Ver: cver()}
	case x < 22:
		return Op{K: "Get", Key: key()}
	case x < 32:
		return Op{K: "GetMany", Keys: keys()}
	case x < 44:
		return Op{K: "Put", Key: key(), Val: rng.Intn(4), Exp: exp(), Ver: cver()}
	case x < 56:
		o := Op{K: "PutMany", Keys: keys(), Val: rng.Intn(4), Exp: exp(), Ver: cver()}
		if rng.Intn(2) == 0 {
			for range o.Keys {
				o.Exps = append(o.Exps, exp())
			}
		}
		return o
	case x < 72:
		return Op{K: "Cas", Key: key(), Val: rng.Intn(4), Exp: exp(), Ver: []string{"cur", "cur", "stale", "bogus", "mine"}[rng.Intn(5)]}
	case x < 82:
		return Op{K: "Delete", Key: key()}
	case x < 94:
		return Op{K: "List", Pat: []string{"*", "a*", "*b", "?", "k/?", "[ab]", "zz", "k/*", "??", "*/*", "a/", "*/", "k/*1"}[rng.Intn(13)]}
	default:
		return Op{K: "Wait", Key: key(), Ver: []string{"stale", "bogus"}[rng.Intn(2)]}
	}
}

func replay(run *report.Run, path string) {
	b, err := os.ReadFile(path)
	if err != nil {
		run.Inconclusive("cannot read replay file: " + err.Error())
		return
	}
	var doc struct {
		Witness kase `json:"witness"`
	}
	if err := json.Unmarshal(b, &doc); err != nil {
		run.Inconclusive("cannot parse replay file: " + err.Error())
		return
	}
	rs, err := kvmodel.NewRedisServer()
	if err != nil {
		run.Inconclusive(err.Error())
		return
	}
	defer rs.Close()
	w := &worker{rs: rs, states: map[string]struct{}{}, ops: map[string]int64{}}
	run.Eval(1)
	run.DistinctAdd(2)
	run.Sample(doc.Witness)
	if v := runCase(w.backend(doc.Witness.Backend), doc.Witness, nil, nil); v != nil {
		run.Violation(v.Sig, v.What, doc.Witness)
	} else {
		fmt.Println("REPLAY: no violation on this tree")
	}
}
