// C01 — distributed lock: at most one holder (DESIGN §3 C01).
// Controlled part: engine E1 (internal/locksim) in child processes, one synctest bubble each, with fault
// injection at the kvs.Storage boundary; free-running part: real goroutines, both backends, race detector.
package c01

import (
	"context"
	"fmt"
	"math/rand"
	"os"
	"runtime"
	"strings"
	"sync"
	"sync/atomic"
	"testing"
	"time"

	"github.com/acquirecloud/golibs/kvs"
	dist "github.com/acquirecloud/golibs/kvs/distlock"
	"github.com/acquirecloud/golibs/kvs/inmem"
	gsync "github.com/acquirecloud/golibs/sync"
	"github.com/acquirecloud/golibs/timeout"
	"github.com/alicebob/miniredis/v2/server"

	"verifharness/internal/kvmodel"
	"verifharness/internal/locksim"
	"verifharness/internal/locktap"
	"verifharness/internal/report"
	"verifharness/internal/shard"
)

func TestMain(m *testing.M) {
	locksim.SilenceLogging()
	os.Exit(report.ExitCode(m.Run()))
}

const prop = "C01"

// which signatures of the shared engine belong to this property
func mine(sig string) bool { return sig == "lock/two-holders" }

var plan = locksim.Plan{
	Prop: prop, Level: "fault_enumeration", Kind: "c01", Mine: mine,
	NRandom:   func(run *report.Run) int { return run.Pick(40000, 3000000) },
	DFSBudget: func(run *report.Run) int { return run.Pick(1500, 150000) }, // executions per small configuration
}

// TestChild runs one shard of the controlled part in a single bubble.
func TestChild(t *testing.T) { locksim.ChildMain(t, plan) }

// TestChildStorm (a process of its own, so that the only timers of the process are the lease timers of one lock):
// goroutines sharing one Locker hand the lock to each other as fast as they can; after every hand-off (the
// previous holder is completely out of Unlock, the new one has returned from Lock) the timer-package hook is
// read: a holder without a pending lease timer means that the tenure will not be renewed - that holder then
// keeps the lock for two leases while a Locker of another provider tries (so does the last holder when the
// hand-off budget is used up). The verdict is the behavioural one: the other Locker must not get the lock.
func TestChildStorm(t *testing.T) {
	idx, _, part, ok := shard.Child()
	if !ok {
		t.Skip("not a shard child")
	}
	res := shard.NewResult()
	if part == "mixed" {
		// a short-lease tenure in a process that already has far timers pending (and no other timer traffic)
		L := []time.Duration{300 * time.Millisecond, 400 * time.Millisecond}[idx%2]
		for attempt := 1; ; attempt++ {
			var o locktap.Outcome
			mode := "tenure-beside-far-timers"
			if idx >= 2 {
				mode = "two-locks-one-slow-storage"
				o = locktap.TwoLocksOneSlowStorage(L)
			} else {
				o = locktap.TenureBesideFarTimers(L)
			}
			res.Maxes["canary_worst_stall_us"] = max(res.Maxes["canary_worst_stall_us"], int64(o.Stall/time.Microsecond))
			if o.Sig != "" && o.Stall > L/8 {
				if attempt < 3 {
					res.Counters["takeover_repeated_because_of_a_stall"]++
					continue
				}
				res.Inconcl = append(res.Inconcl, fmt.Sprintf("%s: %s (canary stall %v)", mode, o.What, o.Stall))
				break
			}
			res.Evals++
			res.Counters[strings.ReplaceAll(mode, "-", "_")+"_scenarios"]++
			res.Classes = append(res.Classes, fmt.Sprint(mode, L))
			if o.Sig != "" {
				res.Violation("lock/two-holders", "real clock: "+o.What, map[string]any{"mode": mode, "lease": L.String()})
			}
			break
		}
		shard.Emit(res)
		return
	}
	if part == "slow" {
		// a storage that answers the renewals slowly (inside half a lease). The renewal callbacks block a worker of
		// the 10-worker timer pool for a good part of the time: a process of its own, so that no other scenario's
		// timers depend on that pool
		L := []time.Duration{time.Second, 600 * time.Millisecond, 800 * time.Millisecond}[idx%3]
		before, after := []time.Duration{0, L / 6, L / 8}[idx%3], []time.Duration{3 * L / 10, 0, L / 8}[idx%3]
		for attempt := 1; ; attempt++ {
			o := locktap.SlowStorageTenure(L, before, after)
			res.Maxes["canary_worst_stall_us"] = max(res.Maxes["canary_worst_stall_us"], int64(o.Stall/time.Microsecond))
			if o.Sig != "" && o.Stall > L/16 {
				if attempt < 3 {
					res.Counters["takeover_repeated_because_of_a_stall"]++
					continue
				}
				res.Inconcl = append(res.Inconcl, fmt.Sprintf("slow-storage-tenure: %s (canary stall %v)", o.What, o.Stall))
				break
			}
			res.Evals++
			res.Counters["slow_storage_tenure_scenarios"]++
			res.Classes = append(res.Classes, fmt.Sprint("slow-storage-tenure", L, before, after))
			if o.Sig != "" {
				res.Violation("lock/two-holders", "real clock: "+o.What, map[string]any{"mode": "slow-storage-tenure", "lease": L.String(), "before": before.String(), "after": after.String()})
			}
			break
		}
		shard.Emit(res)
		return
	}
	budget := int64(150_000)
	if os.Getenv("VERIF_TIER") == "thorough" {
		budget = 3_000_000
	}
	L := []time.Duration{300 * time.Millisecond, 400 * time.Millisecond}[idx%2]
	for attempt := 1; attempt <= 3; attempt++ {
		cn := locktapCanary()
		sig, what, handOffs, steered := handOffStorm(L, budget, 3+idx%3)
		stall := cn()
		if sig != "" && stall > L/8 && attempt < 3 {
			res.Counters["takeover_repeated_because_of_a_stall"]++
			continue
		}
		res.Evals++
		res.Counters["handoff_storm_handoffs"] += handOffs
		res.Counters["handoff_storm_rounds"]++
		if steered {
			res.Counters["handoff_storm_stopped_by_missing_lease_timer"]++
		}
		res.Classes = append(res.Classes, fmt.Sprintf("handoff-storm|L=%v|workers=%d", L, 3+idx%3))
		if sig != "" {
			if stall > L/8 {
				res.Inconcl = append(res.Inconcl, fmt.Sprintf("hand-off storm: %s (canary stall %v)", what, stall))
			} else {
				res.Violation(sig, what, map[string]any{"mode": "handoff-storm", "lease": L.String(), "handoffs": handOffs})
			}
		}
		break
	}
	shard.Emit(res)
}

func locktapCanary() func() time.Duration {
	var worst atomic.Int64
	done := make(chan struct{})
	go func() {
		for {
			select {
			case <-done:
				return
			default:
			}
			t := time.Now()
			time.Sleep(2 * time.Millisecond)
			if o := int64(time.Since(t) - 2*time.Millisecond); o > worst.Load() {
				worst.Store(o)
			}
		}
	}()
	return func() time.Duration { close(done); return time.Duration(worst.Load()) }
}

func handOffStorm(L time.Duration, budget int64, workers int) (sig, what string, handOffs int64, steered bool) {
	st := inmem.New()
	p1 := dist.NewKvsLockProvider(st, "/storm/")
	p2 := dist.NewKvsLockProvider(st, "/storm/")
	dist.VerifSetLeaseTTL(p1, L)
	dist.VerifSetLeaseTTL(p2, L)
	defer p1.Shutdown()
	defer p2.Shutdown()
	shared, other := p1.NewLocker("x"), p2.NewLocker("x")
	var stop atomic.Bool
	var n atomic.Int64
	began := time.Now()
	stormCap := 15 * time.Second
	if budget > 1_000_000 {
		stormCap = 150 * time.Second
	}
	prevDone := make(chan struct{}, 1) // token: the previous holder has returned from Unlock
	prevDone <- struct{}{}
	keep, release := make(chan struct{}), make(chan struct{})
	var wg sync.WaitGroup
	for i := 0; i < workers; i++ {
		wg.Add(1)
		go func(i int) {
			defer wg.Done()
			for !stop.Load() {
				shared.Lock()
				<-prevDone
				c := n.Add(1)
				_, pending := timeout.VerifState()
				// the storm ends with the hand-off budget or after 15 s / 150 s (a variant of the lock code that leaves
				// a timer behind per hand-off makes every hand-off slower; the time cap only limits the workload)
				if pending == 0 || c >= budget || time.Since(began) > stormCap {
					if stop.CompareAndSwap(false, true) {
						steered = pending == 0
						close(keep)
						<-release
						shared.Unlock()
						prevDone <- struct{}{}
						return
					}
				}
				if c%3 == 0 {
					runtime.Gosched()
				}
				shared.Unlock()
				prevDone <- struct{}{}
			}
		}(i)
	}
	<-keep
	handOffs = n.Load()
	deadline := time.Now().Add(2 * L)
	for time.Now().Before(deadline) {
		if other.TryLock(context.Background()) {
			sig = "lock/two-holders"
			what = fmt.Sprintf("real clock, lease %v: %d goroutines shared one Locker and handed the lock over %d times; the last of them kept it (it has not unlocked), yet %v later TryLock of another provider's Locker succeeded (pending lease timers seen by the hook right after the hand-off: none=%v)", L, workers, handOffs, time.Since(deadline.Add(-2*L)).Round(time.Millisecond), steered)
			other.Unlock()
			break
		}
		time.Sleep(L / 10)
	}
	close(release)
	wg.Wait()
	return
}

// ---------------------------------------------------------------- free-running part

type tapStore struct {
	kvs.Storage
	rng   *lockedRand
	delay int // max microseconds
}

type lockedRand struct {
	mu sync.Mutex
	r  *rand.Rand
}

func (l *lockedRand) Intn(n int) int { l.mu.Lock(); defer l.mu.Unlock(); return l.r.Intn(n) }

func (t tapStore) nap() {
	if t.delay > 0 {
		if d := t.rng.Intn(t.delay + 1); d > 0 {
			time.Sleep(time.Duration(d) * time.Microsecond)
		} else {
			runtime.Gosched()
		}
	}
}
func (t tapStore) Create(ctx context.Context, r kvs.Record) (string, error) {
	t.nap()
	v, err := t.Storage.Create(ctx, r)
	t.nap()
	return v, err
}
func (t tapStore) Delete(ctx context.Context, k string) error {
	t.nap()
	return t.Storage.Delete(ctx, k)
}

type freeCfg struct {
	Backend   string `json:"backend"`
	Providers int    `json:"providers"`
	Lockers   int    `json:"lockers"`
	Workers   int    `json:"workers"`
	Rounds    int    `json:"acquisitions_per_worker"`
	Seed      int64  `json:"seed"`
}

// freeRound: real scheduling; the monitor is a holders counter updated right after the acquisition call
// returns and right before Unlock is called.
func freeRound(cfg freeCfg, inner kvs.Storage, run *report.Run) (string, string) {
	rng := &lockedRand{r: rand.New(rand.NewSource(cfg.Seed))}
	var provs []dist.LockProvider
	for i := 0; i < cfg.Providers; i++ {
		provs = append(provs, dist.NewKvsLockProvider(tapStore{inner, rng, []int{0, 20, 200}[int(cfg.Seed)%3]}, "/fr/"))
	}
	var lockers []gsync.Locker
	for i := 0; i < cfg.Lockers; i++ {
		lockers = append(lockers, provs[i%cfg.Providers].NewLocker(fmt.Sprintf("L%d", cfg.Seed)))
	}
	var holders, maxHolders, acquired atomic.Int64
	var sig, what string
	var once sync.Once
	var wg sync.WaitGroup
	for w := 0; w < cfg.Workers; w++ {
		wg.Add(1)
		go func(w int) {
			defer wg.Done()
			r := rand.New(rand.NewSource(cfg.Seed*97 + int64(w)))
			l := lockers[w%cfg.Lockers]
			for i := 0; i < cfg.Rounds; i++ {
				got := false
				switch r.Intn(4) {
				case 0:
					l.Lock()
					got = true
				case 1:
					got = l.TryLock(context.Background())
				case 2:
					got = l.LockWithCtx(context.Background()) == nil
				default:
					if cfg.Backend == "redis" {
						// a context that ends while a command is in flight can lose the reply of a SETNX that
						// was executed: the record then stays until its lease expires, and miniredis has no clock
						got = l.LockWithCtx(context.Background()) == nil
						break
					}
					ctx, cancel := context.WithTimeout(context.Background(), time.Duration(r.Intn(3000))*time.Microsecond)
					got = l.LockWithCtx(ctx) == nil
					cancel()
				}
				if !got {
					continue
				}
				h := holders.Add(1)
				acquired.Add(1)
				for {
					m := maxHolders.Load()
					if h <= m || maxHolders.CompareAndSwap(m, h) {
						break
					}
				}
				if h > 1 {
					once.Do(func() {
						sig = "lock/two-holders"
						what = fmt.Sprintf("free-running (%s): %d callers hold the lock at the same time", cfg.Backend, h)
					})
				}
				if r.Intn(2) == 0 {
					runtime.Gosched()
				} else {
					time.Sleep(time.Duration(r.Intn(50)) * time.Microsecond)
				}
				holders.Add(-1)
				l.Unlock()
			}
		}(w)
	}
	wg.Wait()
	for _, p := range provs {
		p.Shutdown()
	}
	run.Add("free_acquisitions_"+cfg.Backend, acquired.Load())
	return sig, what
}

// takeover: real clock, short lease (hook). A holder keeps the lock for hold; a caller of another Locker
// waits all that time in Lock / LockWithCtx, takes over and holds for 3 leases while a third Locker spins
// TryLock. The exclusion monitor must stay at <= 1 - this is where a lease that is not a full one for the
// caller that waited (or is not kept) lets a second holder in. Guarded by a stall canary, because the
// property only speaks about holders whose leases are renewed in time.
func takeover(L, hold time.Duration, useCtx bool) (sig, what string, stall time.Duration) {
	inner := inmem.New()
	mk := func() dist.LockProvider {
		p := dist.NewKvsLockProvider(inner, "/to/")
		dist.VerifSetLeaseTTL(p, L)
		return p
	}
	p1, p2, p3 := mk(), mk(), mk()
	defer p1.Shutdown()
	defer p2.Shutdown()
	defer p3.Shutdown()
	l1, l2, l3 := p1.NewLocker("x"), p2.NewLocker("x"), p3.NewLocker("x")
	var worst atomic.Int64
	stopCanary := make(chan struct{})
	go func() {
		for {
			select {
			case <-stopCanary:
				return
			default:
			}
			t := time.Now()
			time.Sleep(2 * time.Millisecond)
			if over := int64(time.Since(t) - 2*time.Millisecond); over > worst.Load() {
				worst.Store(over)
			}
		}
	}()
	defer func() { close(stopCanary); stall = time.Duration(worst.Load()) }()
	var holders atomic.Int32
	var mu sync.Mutex
	flag := func(who string) {
		mu.Lock()
		if sig == "" {
			sig = "lock/two-holders"
			what = fmt.Sprintf("real clock, lease %v: %s acquired while another caller (which had waited %v for the lock and then took over) was holding it", L, who, hold)
		}
		mu.Unlock()
	}
	l1.Lock()
	holders.Add(1)
	got := make(chan struct{})
	release := make(chan struct{})
	go func() {
		if useCtx {
			if l2.LockWithCtx(context.Background()) != nil {
				close(got)
				return
			}
		} else {
			l2.Lock()
		}
		if holders.Add(1) > 1 {
			flag("the waiting caller")
		}
		close(got)
		<-release
		holders.Add(-1)
		l2.Unlock()
	}()
	time.Sleep(hold)
	holders.Add(-1)
	l1.Unlock()
	select {
	case <-got:
	case <-time.After(L + 10*time.Second):
		return "", "", 0 // hand-off problems are C04's business
	}
	deadline := time.Now().Add(3 * L)
	for time.Now().Before(deadline) {
		if l3.TryLock(context.Background()) {
			if holders.Add(1) > 1 {
				flag("a third caller's TryLock")
			}
			holders.Add(-1)
			l3.Unlock()
		}
		time.Sleep(L / 10)
	}
	close(release)
	time.Sleep(5 * time.Millisecond)
	return sig, what, 0
}

// holdCas is a kvs.Storage that keeps the answer of the n-th CasByVersion in flight after the inner
// store has applied it: applied is closed then, the call returns when release is closed.
type holdCas struct {
	kvs.Storage
	n       int32
	seen    atomic.Int32
	applied chan struct{}
	release chan struct{}
}

func (h *holdCas) CasByVersion(ctx context.Context, r kvs.Record) (kvs.Record, error) {
	k := h.seen.Add(1)
	res, err := h.Storage.CasByVersion(ctx, r)
	if k == h.n {
		close(h.applied)
		<-h.release
	}
	return res, err
}

// staleRenewal: real clock, short lease. Holder A's n-th lease renewal has been applied by the storage but
// its answer is still in flight when A unlocks; B (another provider) acquires; then the late answer arrives
// at A's renewal routine. Whatever that routine does now, B holds: a third Locker spinning TryLock for two
// leases must never get the lock. Canary-guarded like takeover.
func staleRenewal(L time.Duration, n int32) (sig, what string, stall time.Duration) {
	inner := inmem.New()
	hc := &holdCas{Storage: inner, n: n, applied: make(chan struct{}), release: make(chan struct{})}
	pa := dist.NewKvsLockProvider(hc, "/sr/")
	pb := dist.NewKvsLockProvider(inner, "/sr/")
	pc := dist.NewKvsLockProvider(inner, "/sr/")
	for _, p := range []dist.LockProvider{pa, pb, pc} {
		dist.VerifSetLeaseTTL(p, L)
		defer p.Shutdown()
	}
	la, lb, lc := pa.NewLocker("x"), pb.NewLocker("x"), pc.NewLocker("x")
	var worst atomic.Int64
	stopCanary := make(chan struct{})
	go func() {
		for {
			select {
			case <-stopCanary:
				return
			default:
			}
			t := time.Now()
			time.Sleep(2 * time.Millisecond)
			if over := int64(time.Since(t) - 2*time.Millisecond); over > worst.Load() {
				worst.Store(over)
			}
		}
	}()
	defer func() { close(stopCanary); stall = time.Duration(worst.Load()) }()
	la.Lock()
	select {
	case <-hc.applied:
	case <-time.After(time.Duration(n+2)*L + 10*time.Second):
		close(hc.release)
		la.Unlock()
		return "", "", 0
	}
	la.Unlock()
	lb.Lock()
	close(hc.release)
	deadline := time.Now().Add(2 * L)
	for time.Now().Before(deadline) {
		if lc.TryLock(context.Background()) {
			sig = "lock/two-holders"
			what = fmt.Sprintf("real clock, lease %v: a third caller's TryLock succeeded while another caller holds the lock; the previous holder's renewal %d was answered after it had unlocked", L, n)
			lc.Unlock()
			break
		}
		time.Sleep(L / 10)
	}
	lb.Unlock()
	return sig, what, 0
}

func TestCheck(t *testing.T) {
	run := report.New(prop, "fault_enumeration")
	defer run.Finish(t)
	run.Rule("controlled: scenarios of 2-5 workers (distinct Lockers of 1-3 providers and goroutines sharing a Locker) running programs over {Lock, TryLock, LockWithCtx} inside a synctest bubble; every kvs.Storage call of the lock code is a gate, the scheduler picks one enabled action per step (release a gate normally / as 'request lost' / as 'reply lost' with up to 2 faults, cancel an attempt before or during the call, leave a critical section, expire an ownerless record) - random and PCT schedules plus exhaustive DFS of 27 two-worker configurations with <=1 fault; monitor: number of callers between acquisition return and Unlock call never exceeds 1. take-over: on the real clock with a 300/400 ms lease (hook) a caller waits 1.25-2 leases behind a holder, takes over and holds for 3 leases against a TryLock-spinning third Locker (canary-guarded); stale renewal: the answer of the previous holder's n-th renewal arrives after it unlocked and another caller acquired. unlock vs failed renewal: A's renewal is answered with an error (request lost) while A is unlocking, then B acquires and a third Locker spins. A's Unlock loses its Delete (reply or request), B acquires, A tries the same Locker again. tenures during which the holder's provider is shut down or single renewal requests (1st..7th, pairs, triples) are lost, against a spinning Locker. an ownerless record expiring under 2-5 parked Lockers (holder count, logical); re-lock of the same Locker while a renewal answer of the previous tenure is on its way, and shortly after it arrived. acquisition through LockWithCtx / TryLock with a context cancelled right after (context-honouring storage), 2.5 leases against a spinning Locker. two locks taken together in one process, the storage of one answering its renewal after 0.75 leases: the other must be kept (own processes). far timers (own processes): a short-lease tenure taken while a lock of another name with a 30 s lease and a foreign timer 20 s ahead are pending in the process. slow storage (own processes): the holder's storage answers every renewal slowly but inside half a lease (a caller whose context ends meanwhile gets the context's error), 4 leases against a spinning Locker. hand-off storm (own process): goroutines sharing one Locker hand the lock over 150 000 (3 000 000) times; a holder found without a pending lease timer right after a hand-off (hook), or the last one, keeps the lock for two leases against another provider's Locker. free-running (also repeated by a second pass built without the race detector): same monitor under real scheduling with the race detector on inmem and Redis(miniredis). distinct = distinct (configuration, action trace) pairs executed in the controlled part")
	run.Assume("controlled part: frozen virtual time, so leases never expire under a live holder (the property's premise); storage operations are atomic steps there - their internal atomicity is what the free-running part and C02 look at")
	run.Assume("an ownerless lock record (left by an injected lost reply / lost Delete) disappears only through the explicit 'expire' action, which models lease expiry")

	if p := os.Getenv("VERIF_REPLAY"); p != "" {
		locksim.Replay(t, run, p, mine)
		return
	}
	// the second pass (VERIF_PASS=norace: built without the race detector, i.e. with different timing) repeats the
	// free-running part only
	if os.Getenv("VERIF_PASS") != "norace" {
		nsh := runtime.NumCPU()
		// a child of the quick tier needs seconds; one that does not finish (e.g. a timer goroutine spinning at an
		// instant of the frozen clock) is given up after 150 s (inconclusive for its part) so that the rest still runs
		childLimit := time.Duration(run.Pick(150, 2700)) * time.Second
		shard.Run(run, "TestChild", "random", nsh, childLimit)
		shard.Run(run, "TestChild", "dfs", nsh, childLimit)
		var swg sync.WaitGroup
		swg.Add(1)
		go func() { // hand-off storms, one process each (they run beside everything below)
			defer swg.Done()
			for c := range shard.Run(run, "TestChildStorm", "storm", run.Pick(4, 8), 30*time.Minute, "VERIF_TIER="+map[bool]string{true: "thorough", false: "quick"}[run.Thorough()]) {
				run.DistinctStr(c)
			}
		}()
		swg.Add(1)
		go func() { // tenures beside far timers, one process each
			defer swg.Done()
			for c := range shard.Run(run, "TestChildStorm", "mixed", 4, 30*time.Minute) {
				run.DistinctStr(c)
			}
		}()
		swg.Add(1)
		go func() { // slow-storage tenures, one process each
			defer swg.Done()
			for c := range shard.Run(run, "TestChildStorm", "slow", 3, 30*time.Minute) {
				run.DistinctStr(c)
			}
		}()
		defer swg.Wait()

		// take-over scenarios on the real clock (they mostly sleep; run beside the free-running part)
		var twg sync.WaitGroup
		for i := 0; i < run.Pick(8, 40); i++ {
			twg.Add(1)
			go func(i int) {
				defer twg.Done()
				L := []time.Duration{400 * time.Millisecond, 300 * time.Millisecond}[i%2]
				hold := L*time.Duration(3+i%4)/4 + L/2 // 1.25 L .. 2 L: longer than half a lease, around a whole one
				for attempt := 1; ; attempt++ {
					sig, what, stall := takeover(L, hold, i%3 == 0)
					run.Max("canary_worst_stall_us", int64(stall/time.Microsecond))
					if sig != "" && stall > L/8 {
						if attempt < 3 {
							run.Add("takeover_repeated_because_of_a_stall", 1)
							continue
						}
						run.Inconclusive(fmt.Sprintf("take-over scenario: %s (canary stall %v)", what, stall))
						return
					}
					run.Eval(1)
					run.Add("takeover_scenarios", 1)
					run.DistinctStr(fmt.Sprint("takeover", L, hold, i%3 == 0))
					if sig != "" {
						run.Violation(sig, what, map[string]any{"mode": "takeover", "lease": L.String(), "first_hold": hold.String(), "with_ctx": i%3 == 0})
					}
					return
				}
			}(i)
		}
		for i := 0; i < run.Pick(6, 24); i++ {
			twg.Add(1)
			go func(i int) {
				defer twg.Done()
				L := []time.Duration{400 * time.Millisecond, 300 * time.Millisecond}[i%2]
				n := int32(1 + i%3)
				for attempt := 1; ; attempt++ {
					sig, what, stall := staleRenewal(L, n)
					run.Max("canary_worst_stall_us", int64(stall/time.Microsecond))
					if sig != "" && stall > L/8 {
						if attempt < 3 {
							run.Add("takeover_repeated_because_of_a_stall", 1)
							continue
						}
						run.Inconclusive(fmt.Sprintf("stale-renewal scenario: %s (canary stall %v)", what, stall))
						return
					}
					run.Eval(1)
					run.Add("stale_renewal_scenarios", 1)
					run.DistinctStr(fmt.Sprint("stale-renewal", L, n))
					if sig != "" {
						run.Violation(sig, what, map[string]any{"mode": "stale-renewal", "lease": L.String(), "renewal": n})
					}
					return
				}
			}(i)
		}
		for i := 0; i < run.Pick(4, 16); i++ {
			twg.Add(1)
			go func(i int) {
				defer twg.Done()
				L := []time.Duration{400 * time.Millisecond, 300 * time.Millisecond}[i%2]
				for attempt := 1; ; attempt++ {
					o := locktap.UnlockVsFailedRenewal(L, 1+i%2)
					run.Max("canary_worst_stall_us", int64(o.Stall/time.Microsecond))
					if o.Skipped != "" {
						run.Add("unlock_vs_failed_renewal_skipped", 1)
						return
					}
					if o.Sig != "" && o.Stall > L/8 {
						if attempt < 3 {
							run.Add("takeover_repeated_because_of_a_stall", 1)
							continue
						}
						run.Inconclusive(fmt.Sprintf("unlock-vs-failed-renewal: %s (canary stall %v)", o.What, o.Stall))
						return
					}
					run.Eval(1)
					run.Add("unlock_vs_failed_renewal_scenarios", 1)
					run.DistinctStr(fmt.Sprint("unlock-vs-failed-renewal", L, 1+i%2))
					if o.Sig != "" {
						run.Violation("lock/two-holders", "real clock: "+o.What, map[string]any{"mode": "unlock-vs-failed-renewal", "lease": L.String(), "renewal": 1 + i%2})
					}
					return
				}
			}(i)
		}
		// an ownerless record expires under several parked Lockers; re-lock while a renewal answer is on its way
		for i := 0; i < run.Pick(12, 24); i++ {
			twg.Add(1)
			go func(i int) {
				defer twg.Done()
				L := []time.Duration{300 * time.Millisecond, 400 * time.Millisecond}[i%2]
				for attempt := 1; ; attempt++ {
					var o locktap.Outcome
					mode := fmt.Sprint("orphan-expiry-with-waiters/", 2+i%4)
					if i%3 == 2 && i%2 == 0 {
						mode = fmt.Sprint("relock-after-late-renewal-answer/", 1+i%4/2)
						o = locktap.RelockAfterLateRenewalAnswer(L, 1+i%4/2, []time.Duration{L / 20, L / 5}[i%4/2])
					} else if i%6 == 1 {
						mode = "relock-behind-slow-delete-answer"
						o = locktap.RelockBehindSlowDeleteAnswer(L)
					} else if i%3 == 2 {
						mode = fmt.Sprint("relock-during-slow-renewal/", 1+i%2)
						o = locktap.RelockDuringSlowRenewal(L, 1+i%2)
					} else {
						o = locktap.OrphanExpiryWithWaiters(L, 2+i%4)
					}
					if o.Skipped != "" {
						run.Add("orphan_or_relock_scenarios_skipped", 1)
						return
					}
					if o.Sig != "" && o.TimeBound && o.Stall > L/8 {
						if attempt < 3 {
							run.Add("takeover_repeated_because_of_a_stall", 1)
							continue
						}
						run.Inconclusive(fmt.Sprintf("%s: %s (canary stall %v)", mode, o.What, o.Stall))
						return
					}
					run.Eval(1)
					run.Add("orphan_or_relock_scenarios", 1)
					run.DistinctStr(fmt.Sprint(mode, L))
					if o.Sig != "" {
						run.Violation("lock/two-holders", "real clock: "+o.What, map[string]any{"mode": mode, "lease": L.String()})
					}
					return
				}
			}(i)
		}
		// a lease longer than the package default: the record lives one lease of its own provider
		for i := 0; i < run.Pick(1, 3); i++ {
			twg.Add(1)
			go func(i int) {
				defer twg.Done()
				L := []time.Duration{24 * time.Second, 40 * time.Second, 90 * time.Second}[i]
				o := locktap.LongLeaseTenure(L, []time.Duration{11500 * time.Millisecond, 19 * time.Second, 44 * time.Second}[i])
				run.Eval(1)
				run.Add("long_lease_tenures", 1)
				run.DistinctStr(fmt.Sprint("long-lease-tenure", L))
				if o.Sig != "" {
					run.Violation("lock/two-holders", "real clock: "+o.What, map[string]any{"mode": "long-lease-tenure", "lease": L.String()})
				}
			}(i)
		}
		// acquisition through a context that ends right after the acquisition (the holder's storage honours contexts)
		for i := 0; i < 4; i++ {
			twg.Add(1)
			go func(i int) {
				defer twg.Done()
				L := []time.Duration{300 * time.Millisecond, 400 * time.Millisecond}[i/2]
				for attempt := 1; ; attempt++ {
					o := locktap.CancelledCtxTenure(L, i%2 == 1)
					if o.Skipped != "" {
						run.Add("cancelled_ctx_tenure_skipped", 1)
						return
					}
					if o.Sig != "" && o.Stall > L/8 {
						if attempt < 3 {
							run.Add("takeover_repeated_because_of_a_stall", 1)
							continue
						}
						run.Inconclusive(fmt.Sprintf("cancelled-ctx-tenure: %s (canary stall %v)", o.What, o.Stall))
						return
					}
					run.Eval(1)
					run.Add("cancelled_ctx_tenure_scenarios", 1)
					run.DistinctStr(fmt.Sprint("cancelled-ctx-tenure", L, i%2 == 1))
					if o.Sig != "" {
						run.Violation("lock/two-holders", "real clock: "+o.What, map[string]any{"mode": "cancelled-ctx-tenure", "lease": L.String(), "trylock": i%2 == 1})
					}
					return
				}
			}(i)
		}
		// A's Unlock loses its Delete (reply / request), B acquires, A tries its Locker again (logical verdict)
		for i := 0; i < 4; i++ {
			twg.Add(1)
			go func(i int) {
				defer twg.Done()
				L := []time.Duration{300 * time.Millisecond, 400 * time.Millisecond}[i/2]
				o := locktap.UnlockFaultThenRelock(L, i%2 == 0)
				if o.Skipped != "" {
					run.Add("unlock_fault_then_relock_skipped", 1)
					return
				}
				run.Eval(1)
				run.Add("unlock_fault_then_relock_scenarios", 1)
				run.DistinctStr(fmt.Sprint("unlock-fault-then-relock", L, i%2 == 0))
				if o.Sig != "" {
					run.Violation("lock/two-holders", "real clock: "+o.What, map[string]any{"mode": "unlock-fault-then-relock", "lease": L.String(), "reply_lost": i%2 == 0})
				}
			}(i)
		}
		// the holder's provider is shut down during the tenure; renewal requests of a tenure are lost
		for i := 0; i < run.Pick(6, 14); i++ {
			twg.Add(1)
			go func(i int) {
				defer twg.Done()
				L := []time.Duration{400 * time.Millisecond, 300 * time.Millisecond}[i%2]
				kss := [][]int{nil, {1}, {2}, {3}, {2, 4}, {4}, {1, 2}, {5}, {3, 6}, {2, 3}, {6}, {1, 3, 5}, {7}, {4, 5}}
				for attempt := 1; ; attempt++ {
					var o locktap.Outcome
					mode := "shutdown-while-held"
					if ks := kss[i%len(kss)]; ks == nil {
						o = locktap.ShutdownWhileHeld(L)
					} else {
						mode = fmt.Sprint("lost-renewal-requests", ks)
						o = locktap.FailedRenewalTenure(L, ks)
					}
					run.Max("canary_worst_stall_us", int64(o.Stall/time.Microsecond))
					if o.Sig != "" && o.Stall > L/8 {
						if attempt < 3 {
							run.Add("takeover_repeated_because_of_a_stall", 1)
							continue
						}
						run.Inconclusive(fmt.Sprintf("%s: %s (canary stall %v)", mode, o.What, o.Stall))
						return
					}
					run.Eval(1)
					run.Add("tenure_with_shutdown_or_lost_renewals_scenarios", 1)
					run.DistinctStr(fmt.Sprint(mode, L))
					if o.Sig != "" {
						run.Violation("lock/two-holders", "real clock: "+o.What, map[string]any{"mode": mode, "lease": L.String()})
					}
					return
				}
			}(i)
		}
		// failed attempts of sibling goroutines on the holder's own Locker (real clock, short lease)
		for i := 0; i < run.Pick(3, 12); i++ {
			twg.Add(1)
			go func(i int) {
				defer twg.Done()
				L := []time.Duration{400 * time.Millisecond, 300 * time.Millisecond, 600 * time.Millisecond}[i%3]
				for attempt := 1; ; attempt++ {
					o := locktap.SiblingAttemptVsHolder(L)
					run.Max("canary_worst_stall_us", int64(o.Stall/time.Microsecond))
					if o.Sig != "" && o.TimeBound && o.Stall > L/8 {
						if attempt < 3 {
							run.Add("takeover_repeated_because_of_a_stall", 1)
							continue
						}
						run.Inconclusive(fmt.Sprintf("sibling-attempt-vs-holder: %s (canary stall %v)", o.What, o.Stall))
						return
					}
					run.Eval(1)
					run.Add("sibling_attempt_vs_holder_scenarios", 1)
					run.DistinctStr(fmt.Sprint("sibling-attempt-vs-holder", L))
					if o.Sig != "" {
						run.Violation("lock/two-holders", "real clock: "+o.What, map[string]any{"mode": "sibling-attempt-vs-holder", "lease": L.String()})
					}
					return
				}
			}(i)
		}
		defer twg.Wait()

	}
	// free-running
	rounds := run.Pick(200, 6000)
	var wg sync.WaitGroup
	jobs := make(chan freeCfg, 32)
	for w := 0; w < runtime.NumCPU()/2; w++ {
		wg.Add(1)
		go func() {
			defer wg.Done()
			rs, err := kvmodel.NewRedisServer()
			if err != nil {
				run.Inconclusive("miniredis: " + err.Error())
				for range jobs {
				}
				return
			}
			defer rs.Close()
			var ctr atomic.Uint64
			rs.MR.Server().SetPreHook(func(_ *server.Peer, cmd string, _ ...string) bool {
				x := ctr.Add(0x9E3779B97F4A7C15)
				x ^= x >> 31
				if x%5 == 0 {
					time.Sleep(time.Duration(x%150) * time.Microsecond)
				}
				return false
			})
			for cfg := range jobs {
				var inner kvs.Storage
				if cfg.Backend == "redis" {
					rs.MR.FlushAll()
					inner = rs.S
				} else {
					inner = inmem.New()
				}
				run.Eval(1)
				run.Add("free_rounds_"+cfg.Backend, 1)
				run.DistinctStr(fmt.Sprintf("free|%s|%d|%d|%d|%d", cfg.Backend, cfg.Providers, cfg.Lockers, cfg.Workers, cfg.Seed))
				if sig, what := freeRound(cfg, inner, run); sig != "" {
					run.Violation(sig, what, map[string]any{"mode": "free", "config": cfg})
				}
			}
		}()
	}
	rng := rand.New(rand.NewSource(run.Seed()))
	for i := 0; i < rounds; i++ {
		cfg := freeCfg{Backend: "inmem", Providers: 1 + rng.Intn(3), Lockers: 2 + rng.Intn(3), Workers: 3 + rng.Intn(6), Rounds: 6, Seed: run.Seed()*100_003 + int64(i)}
		if i%4 == 3 {
			cfg.Backend = "redis"
			cfg.Rounds = 3
		}
		jobs <- cfg
	}
	close(jobs)
	wg.Wait()
}
