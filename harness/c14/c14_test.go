// C14 — ring buffer vs. bounded FIFO (reference-model monitor, DESIGN §3 C14).
package c14

import (
	"encoding/json"
	"errors"
	"fmt"
	"io"
	"math"
	"math/rand"
	"os"
	"runtime"
	"sync"
	"testing"

	"github.com/acquirecloud/golibs/container"
	gerrors "github.com/acquirecloud/golibs/errors"

	"verifharness/internal/report"
)

func TestMain(m *testing.M) { os.Exit(report.ExitCode(m.Run())) }

type opKind int

const (
	opWrite opKind = iota
	opRead
	opReadN
	opSkip
	opAt
	opClear
)

var opNames = []string{"Write", "Read", "ReadN", "Skip", "At", "Clear"}

type op struct {
	K   opKind `json:"k"`
	Arg int    `json:"arg"`
}

func (o op) String() string { return fmt.Sprintf("%s(%d)", opNames[o.K], o.Arg) }

// a case: capacity, how the ring is rotated and pre-filled before the sequence starts, the sequence
type kase struct {
	Cap  int  `json:"cap"`
	Rot  int  `json:"rot"`  // number of write+read pairs applied first (moves r and w)
	Fill int  `json:"fill"` // number of elements written after the rotation
	Ops  []op `json:"ops"`
}

type ring interface {
	container.RingBuffer[*int]
	VerifSlots() ([]*int, int, int)
}

type vio struct {
	sig, what string
}

// runCase executes the case on a fresh ring buffer and the slice model; it returns the first
// divergence. visit is called with the (cap, r, w, op, outcome) class of every step.
func runCase(k kase, visit func(string)) *vio {
	var rb ring = container.NewRingBuffer[*int](uint(k.Cap))
	model := []*int{}
	next := 0
	fresh := func() *int { next++; v := new(int); *v = next; return v }

	step := func(o op, idx int) (v *vio) {
		where := fmt.Sprintf("step %d %s", idx, o)
		_, r0, w0 := rb.VerifSlots()
		outcome := ""
		defer func() {
			if visit != nil && v == nil {
				visit(fmt.Sprintf("c%d r%d w%d %s %s", k.Cap, r0, w0, o, outcome))
			}
		}()
		// every call is made under recover: only At may panic, and only for an index out of range
		var pan any
		call := func(f func()) {
			defer func() { pan = recover() }()
			f()
		}
		switch o.K {
		case opWrite:
			val := fresh()
			var err error
			call(func() { err = rb.Write(val) })
			if pan != nil {
				return &vio{"ring/Write/panic", fmt.Sprintf("%s: panic %v", where, pan)}
			}
			if len(model) == k.Cap {
				outcome = "full"
				if !errors.Is(err, gerrors.ErrExhausted) {
					return &vio{"ring/Write/full-not-exhausted", fmt.Sprintf("%s: Len==Cap==%d but err=%v", where, k.Cap, err)}
				}
			} else {
				outcome = "ok"
				if err != nil {
					return &vio{"ring/Write/spurious-error", fmt.Sprintf("%s: len=%d cap=%d but err=%v", where, len(model), k.Cap, err)}
				}
				model = append(model, val)
			}
		case opRead:
			var got *int
			var err error
			call(func() { got, err = rb.Read() })
			if pan != nil {
				return &vio{"ring/Read/panic", fmt.Sprintf("%s: panic %v", where, pan)}
			}
			if len(model) == 0 {
				outcome = "empty"
				if err != io.EOF {
					return &vio{"ring/Read/empty-not-eof", fmt.Sprintf("%s: empty but err=%v", where, err)}
				}
			} else {
				outcome = "ok"
				if err != nil {
					return &vio{"ring/Read/spurious-error", fmt.Sprintf("%s: len=%d but err=%v", where, len(model), err)}
				}
				if got != model[0] {
					return &vio{"ring/Read/wrong-element", fmt.Sprintf("%s: got %s want %s", where, show(got), show(model[0]))}
				}
				model = model[1:]
			}
		case opReadN:
			dst := make([]*int, o.Arg)
			guard := make([]*int, o.Arg)
			for i := range dst {
				g := new(int)
				*g = -1 - i
				dst[i], guard[i] = g, g
			}
			var n int
			call(func() { n = rb.ReadN(dst) })
			if pan != nil {
				return &vio{"ring/ReadN/panic", fmt.Sprintf("%s: panic %v", where, pan)}
			}
			want := min(o.Arg, len(model))
			outcome = fmt.Sprintf("n%d", want)
			if n != want {
				return &vio{"ring/ReadN/count", fmt.Sprintf("%s: returned %d want %d (len=%d)", where, n, want, len(model))}
			}
			for i := 0; i < want; i++ {
				if dst[i] != model[i] {
					return &vio{"ring/ReadN/wrong-element", fmt.Sprintf("%s: dst[%d]=%s want %s", where, i, show(dst[i]), show(model[i]))}
				}
			}
			for i := want; i < o.Arg; i++ {
				if dst[i] != guard[i] {
					return &vio{"ring/ReadN/tail-touched", fmt.Sprintf("%s: dst[%d] beyond the %d elements read was overwritten", where, i, want)}
				}
			}
			model = model[want:]
		case opSkip:
			var n int
			call(func() { n = rb.Skip(o.Arg) })
			if pan != nil {
				return &vio{"ring/Skip/panic", fmt.Sprintf("%s: panic %v", where, pan)}
			}
			want := 0
			if o.Arg > 0 {
				want = min(o.Arg, len(model))
			}
			outcome = fmt.Sprintf("n%d", want)
			if n != want {
				return &vio{"ring/Skip/count", fmt.Sprintf("%s: returned %d want %d (len=%d)", where, n, want, len(model))}
			}
			model = model[want:]
		case opAt:
			var got *int
			call(func() { got = rb.At(o.Arg) })
			inRange := o.Arg >= 0 && o.Arg < len(model)
			if inRange {
				outcome = "ok"
				if pan != nil {
					return &vio{"ring/At/panic-in-range", fmt.Sprintf("%s: panic %v with len=%d", where, pan, len(model))}
				}
				if got != model[o.Arg] {
					return &vio{"ring/At/wrong-element", fmt.Sprintf("%s: got %s want %s", where, show(got), show(model[o.Arg]))}
				}
			} else {
				outcome = "oob"
				if pan == nil {
					return &vio{"ring/At/no-panic-out-of-range", fmt.Sprintf("%s: returned %s with len=%d", where, show(got), len(model))}
				}
			}
		case opClear:
			call(func() { rb.Clear() })
			if pan != nil {
				return &vio{"ring/Clear/panic", fmt.Sprintf("%s: panic %v", where, pan)}
			}
			outcome = "ok"
			model = model[:0]
		}
		// observers after every call
		if l := rb.Len(); l != len(model) {
			return &vio{"ring/Len", fmt.Sprintf("%s: Len()=%d want %d", where, l, len(model))}
		}
		if c := rb.Cap(); c != k.Cap {
			return &vio{"ring/Cap", fmt.Sprintf("%s: Cap()=%d want %d", where, c, k.Cap)}
		}
		buf, r, w := rb.VerifSlots()
		// slots outside the live window [r, r+len) must not reference anything
		live := map[int]bool{}
		for i := 0; i < len(model); i++ {
			live[(r+i)%len(buf)] = true
		}
		for i, p := range buf {
			if !live[i] && p != nil {
				return &vio{"ring/slot-not-zeroed", fmt.Sprintf("%s: slot %d (r=%d w=%d len=%d) still references %s", where, i, r, w, len(model), show(p))}
			}
		}
		return nil
	}

	idx := -1
	for i := 0; i < k.Rot; i++ {
		if k.Cap == 0 {
			break
		}
		if v := step(op{opWrite, 0}, idx); v != nil {
			return v
		}
		if v := step(op{opRead, 0}, idx); v != nil {
			return v
		}
	}
	for i := 0; i < k.Fill; i++ {
		if v := step(op{opWrite, 0}, idx); v != nil {
			return v
		}
	}
	for i, o := range k.Ops {
		if v := step(o, i); v != nil {
			return v
		}
	}
	return nil
}

func show(p *int) string {
	if p == nil {
		return "nil"
	}
	return fmt.Sprintf("#%d", *p)
}

func alphabet(c int) []op {
	a := []op{{opWrite, 0}, {opRead, 0}, {opClear, 0}}
	for n := 0; n <= c+1; n++ {
		a = append(a, op{opReadN, n})
	}
	for _, n := range []int{-1, math.MaxInt} {
		a = append(a, op{opSkip, n})
	}
	for n := 0; n <= c+1; n++ {
		a = append(a, op{opSkip, n})
	}
	for i := -1; i <= c; i++ {
		a = append(a, op{opAt, i})
	}
	return a
}

func TestCheck(t *testing.T) {
	run := report.New("C14", "exploration")
	defer run.Finish(t)
	run.Rule("every sequence over {Write, Read, ReadN(0..c+1), Skip(-1,0..c+1,MaxInt), At(-1..c), Clear} to the depth bound, from every (rotation, fill) start of capacities 0..4, plus seeded random sequences on large capacities; compared call by call with a slice model (results, error class, panics, Len, Cap, untouched ReadN tail, zeroed slots). distinct = distinct (capacity, r, w, operation, outcome) transition classes observed")
	run.Assume("values are distinct non-nil *int, so a non-zero slot outside the live window is a retained reference")

	if p := os.Getenv("VERIF_REPLAY"); p != "" {
		replay(t, run, p)
		return
	}
	depth := func(c int) int {
		if run.Thorough() {
			return []int{6, 5, 5, 4, 4}[c]
		}
		return []int{5, 4, 4, 3, 3}[c]
	}
	sweep(run, depth, run.Pick(300, 3000), run.Pick(10000, 20000))
}

func sweep(run *report.Run, depth func(int) int, randomSeqs, randomLen int) {
	var mu sync.Mutex
	seen := map[string]struct{}{}
	visitLocal := func(local map[string]struct{}) func(string) {
		return func(s string) { local[s] = struct{}{} }
	}
	merge := func(local map[string]struct{}) {
		mu.Lock()
		for s := range local {
			seen[s] = struct{}{}
		}
		mu.Unlock()
	}

	type unit struct {
		k     kase
		depth int
	}
	units := make(chan unit, 1024)
	var wg sync.WaitGroup
	for w := 0; w < runtime.NumCPU(); w++ {
		wg.Add(1)
		go func() {
			defer wg.Done()
			local := map[string]struct{}{}
			for u := range units {
				enumerate(run, u.k, u.depth, visitLocal(local))
			}
			merge(local)
		}()
	}
	depths := map[string]int{}
	for c := 0; c <= 4; c++ {
		d := depth(c)
		depths[fmt.Sprintf("cap%d", c)] = d
		alpha := alphabet(c)
		for rot := 0; rot <= c; rot++ {
			for fill := 0; fill <= c; fill++ {
				for _, first := range alpha {
					units <- unit{kase{Cap: c, Rot: rot, Fill: fill, Ops: []op{first}}, d}
				}
			}
		}
	}
	close(units)
	wg.Wait()
	run.Note("depth_per_capacity", depths)

	// random long sequences on large capacities with large ReadN/Skip arguments
	caps := []int{7, 64, 1000}
	var rwg sync.WaitGroup
	sem := make(chan struct{}, runtime.NumCPU())
	for i := 0; i < randomSeqs; i++ {
		rwg.Add(1)
		sem <- struct{}{}
		go func(i int) {
			defer rwg.Done()
			defer func() { <-sem }()
			rng := rand.New(rand.NewSource(run.Seed()*1_000_003 + int64(i)))
			c := caps[i%len(caps)]
			n := randomLen
			if c == 1000 {
				n = randomLen / 4 // the slot scan is O(cap)
			}
			k := kase{Cap: c, Rot: rng.Intn(c + 1), Fill: rng.Intn(c + 1)}
			for j := 0; j < n; j++ {
				var o op
				switch x := rng.Intn(100); {
				case x < 45:
					o = op{opWrite, 0}
				case x < 60:
					o = op{opRead, 0}
				case x < 72:
					o = op{opReadN, bigArg(rng, c)}
				case x < 84:
					o = op{opSkip, bigArg(rng, c) - 1}
				case x < 98:
					o = op{opAt, rng.Intn(c+3) - 1}
				default:
					o = op{opClear, 0}
				}
				k.Ops = append(k.Ops, o)
			}
			local := map[string]struct{}{}
			// large capacities: class by (capacity, wrap situation) rather than exact r/w
			v := runCase(k, func(s string) {})
			_ = local
			run.Eval(1)
			run.Add("random_sequences", 1)
			run.Add("random_operations", int64(len(k.Ops)))
			if v != nil {
				run.Violation(v.sig, v.what, k)
			}
		}(i)
	}
	rwg.Wait()

	for s := range seen {
		run.DistinctStr(s)
	}
	i := 0
	for s := range seen {
		if i >= 3 {
			break
		}
		run.Sample("transition: " + s)
		i++
	}
}

func bigArg(rng *rand.Rand, c int) int {
	switch rng.Intn(4) {
	case 0:
		return rng.Intn(4)
	case 1:
		return 50 + rng.Intn(100) // the doubling path of SliceFill
	case 2:
		return rng.Intn(c + 2)
	default:
		return c + rng.Intn(3)
	}
}

// enumerate runs every extension of k.Ops up to depth (prefix-closed: every prefix is itself a case).
func enumerate(run *report.Run, k kase, depth int, visit func(string)) {
	alpha := alphabet(k.Cap)
	var rec func(ops []op)
	rec = func(ops []op) {
		kk := kase{Cap: k.Cap, Rot: k.Rot, Fill: k.Fill, Ops: ops}
		if len(ops) == depth {
			run.Eval(1)
			if v := runCase(kk, visit); v != nil {
				run.Violation(v.sig, v.what, kk)
			}
			if run.SampleN() < 3 {
				run.Sample(fmt.Sprintf("cap=%d rot=%d fill=%d ops=%v", k.Cap, k.Rot, k.Fill, ops))
			}
			return
		}
		for _, o := range alpha {
			rec(append(append([]op(nil), ops...), o))
		}
	}
	rec(k.Ops)
}

func replay(t *testing.T, run *report.Run, path string) {
	b, err := os.ReadFile(path)
	if err != nil {
		run.Inconclusive("cannot read replay file: " + err.Error())
		return
	}
	var doc struct {
		Witness kase `json:"witness"`
	}
	if err := json.Unmarshal(b, &doc); err != nil {
		run.Inconclusive("cannot parse replay file: " + err.Error())
		return
	}
	run.Eval(1)
	run.DistinctAdd(2)
	run.Sample(doc.Witness)
	if v := runCase(doc.Witness, nil); v != nil {
		run.Violation(v.sig, v.what, doc.Witness)
	} else {
		fmt.Println("REPLAY: no violation on this tree")
	}
}
