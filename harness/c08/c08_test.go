// C08 — LRU cache vs. reference LRU (reference-model monitor, DESIGN §3 C08).
//
// The real caches (lru.Cache, lru.ECache with a non-identity key mapping, lru.ExpirableCache) are driven
// by enumerated and random call sequences in one goroutine each; a list model predicts, before every call,
// the returned value / error, the create-callback calls and the delete-callback calls of that call, and the
// prediction is compared with what happened right after the call.
package c08

import (
	"encoding/json"
	"errors"
	"fmt"
	"math"
	"math/rand"
	"os"
	"runtime"
	"runtime/debug"
	"sort"
	"strconv"
	"strings"
	"sync"
	"testing"
	"time"

	"github.com/acquirecloud/golibs/container/lru"

	"verifharness/internal/report"
	"verifharness/internal/shard"
)

func TestMain(m *testing.M) { os.Exit(report.ExitCode(m.Run())) }

// ---------------------------------------------------------------------------------------------
// operations and cases

type opKind int

const (
	opGet     opKind = iota // GetOrCreate; if the create function is called it succeeds with a fresh value
	opGetFail               // GetOrCreate; if the create function is called it fails with a fresh error
	opRemove
	opClear
	opExpire // harness-only, expirable variant: the resident (fresh) item of the key becomes expired — "time passes"
)

var opNames = []string{"GetOrCreate", "GetOrCreate!failing", "Remove", "Clear", "Expire"}

// in witness files the kind is written by name
func (k opKind) MarshalJSON() ([]byte, error) {
	if k < 0 || int(k) >= len(opNames) {
		return nil, fmt.Errorf("bad op kind %d", int(k))
	}
	return json.Marshal(opNames[k])
}

func (k *opKind) UnmarshalJSON(b []byte) error {
	var s string
	if err := json.Unmarshal(b, &s); err != nil {
		var n int
		if err2 := json.Unmarshal(b, &n); err2 != nil || n < 0 || n >= len(opNames) {
			return fmt.Errorf("bad op kind %s", b)
		}
		*k = opKind(n)
		return nil
	}
	for i, n := range opNames {
		if n == s {
			*k = opKind(i)
			return nil
		}
	}
	return fmt.Errorf("unknown op kind %q", s)
}

type op struct {
	K   opKind `json:"k"`
	Key int    `json:"key"`
	Alt bool   `json:"alt,omitempty"` // ecache variant: use the upper-case primary key ("A" instead of "a")
}

func (o op) String() string {
	if o.K == opClear {
		return "Clear"
	}
	a := ""
	if o.Alt {
		a = "^"
	}
	return fmt.Sprintf("%s(%d%s)", opNames[o.K], o.Key, a)
}

const (
	vCache     = "cache"     // lru.NewCache[int,*val]
	vECache    = "ecache"    // lru.NewECache[string,string,*val] with strings.ToLower as the key mapping
	vExpirable = "expirable" // lru.NewExpirableCache[int,*xval]
)

var variantIdx = map[string]int{vCache: 0, vECache: 1, vExpirable: 2}

const (
	endNone  = "none"
	endClear = "clear" // Clear() — its callbacks report every resident, least recently used first
	endDrain = "drain" // probe every key with a failing GetOrCreate, insert cap fresh keys (evicting every old resident in order), then Clear()
)

// a case: variant, capacity, whether the delete callback is nil, size of the key alphabet, the sequence, the ending
type kase struct {
	Variant string `json:"variant"`
	Cap     int    `json:"cap"`
	NilCB   bool   `json:"nilcb,omitempty"`
	Keys    int    `json:"keys"`
	Ops     []op   `json:"ops"`
	End     string `json:"end"`
}

// ---------------------------------------------------------------------------------------------
// key names

var (
	itoaTab  [512]string
	lowerTab [512]string
	upperTab [512]string
)

func init() {
	for i := range itoaTab {
		itoaTab[i] = strconv.Itoa(i)
		if i < 26 {
			lowerTab[i] = string(rune('a' + i))
		} else {
			lowerTab[i] = "k" + strconv.Itoa(i)
		}
		upperTab[i] = strings.ToUpper(lowerTab[i])
	}
}

// pkName is the primary key the caller passes, written as a string (the form used in the callback logs).
func pkName(variant string, key int, alt bool) string {
	if key < 0 || key >= len(itoaTab) {
		s := strconv.Itoa(key)
		if variant == vECache {
			if alt {
				return "K" + s
			}
			return "k" + s
		}
		return s
	}
	if variant == vECache {
		if alt {
			return upperTab[key]
		}
		return lowerTab[key]
	}
	return itoaTab[key]
}

// ---------------------------------------------------------------------------------------------
// reference model

type delEv struct {
	Key string
	ID  int
}

type entry struct {
	key     int    // inner key
	pk      string // primary key as stored when the entry was inserted
	alt     bool
	id      int // value id
	expired bool
}

type model struct {
	cap   int
	order []entry // least recently used first
	seq   int     // number of create calls so far; a successful create number n yields value id n
}

func (m *model) find(key int) int {
	for i := range m.order {
		if m.order[i].key == key {
			return i
		}
	}
	return -1
}

func (m *model) removeAt(i int) {
	copy(m.order[i:], m.order[i+1:])
	m.order = m.order[:len(m.order)-1]
}

func (m *model) clone() model {
	c := *m
	c.order = append(make([]entry, 0, m.cap+1), m.order...)
	return c
}

const (
	clsHit = iota
	clsMiss
	clsMissEvict
	clsMissFail
	clsExpiredReplace
	clsExpiredFail // never generated (see legal)
	clsRemoveHit
	clsRemoveMiss
	clsClear
	clsExpire
	clsN
)

var clsNames = []string{"hit", "miss-insert", "miss-insert-evict", "miss-create-fails", "expired-replace", "expired-create-fails", "remove-resident", "remove-absent", "clear", "expire"}

// expect is what the model predicts for one call
type expect struct {
	class   int
	creates []string // keys the create function must be called with, in order
	deletes []delEv  // delete-callback calls, in order
	id      int      // GetOrCreate success: id of the value that must be returned
	fail    bool     // GetOrCreate: the create error number errSeq must be returned
	errSeq  int
	removed bool // Remove result
	count   int  // Clear result
}

func (e *expect) reset() {
	e.creates = e.creates[:0]
	e.deletes = e.deletes[:0]
	e.id, e.fail, e.errSeq, e.removed, e.count = 0, false, 0, false, 0
}

// legal says whether the generator may issue o in state m. Restrictions (never relaxations of the oracle):
//   - Expire only on a resident fresh item (anything else would be a no-op of the harness);
//   - expirable: no failing GetOrCreate on a resident *expired* item — the statement does not say whether the
//     expired entry stays when its replacement cannot be created.
func (m *model) legal(variant string, o op) bool {
	switch o.K {
	case opExpire:
		if variant != vExpirable {
			return false
		}
		i := m.find(o.Key)
		return i >= 0 && !m.order[i].expired
	case opGetFail:
		if i := m.find(o.Key); i >= 0 && m.order[i].expired {
			return false
		}
	}
	if o.Alt && variant != vECache {
		return false
	}
	return true
}

// apply advances the model by o and fills e with the predicted observables.
func (m *model) apply(o op, pk string, e *expect) {
	e.reset()
	switch o.K {
	case opGet, opGetFail:
		i := m.find(o.Key)
		if i >= 0 && !m.order[i].expired {
			ent := m.order[i]
			m.removeAt(i)
			m.order = append(m.order, ent)
			e.class, e.id = clsHit, ent.id
			return
		}
		wasExpired := false
		if i >= 0 { // expiry replacement: the stale entry leaves (one callback), then exactly one creation
			wasExpired = true
			e.deletes = append(e.deletes, delEv{m.order[i].pk, m.order[i].id})
			m.removeAt(i)
		}
		m.seq++
		e.creates = append(e.creates, pk)
		if o.K == opGetFail {
			e.fail, e.errSeq = true, m.seq
			e.class = clsMissFail
			if wasExpired {
				e.class = clsExpiredFail
			}
			return
		}
		e.id = m.seq
		m.order = append(m.order, entry{key: o.Key, pk: pk, alt: o.Alt, id: m.seq})
		e.class = clsMiss
		if len(m.order) > m.cap {
			e.deletes = append(e.deletes, delEv{m.order[0].pk, m.order[0].id})
			m.removeAt(0)
			e.class = clsMissEvict
		}
		if wasExpired {
			e.class = clsExpiredReplace
		}
	case opRemove:
		i := m.find(o.Key)
		if i < 0 {
			e.class = clsRemoveMiss
			return
		}
		e.class, e.removed = clsRemoveHit, true
		e.deletes = append(e.deletes, delEv{m.order[i].pk, m.order[i].id})
		m.removeAt(i)
	case opClear:
		e.class, e.count = clsClear, len(m.order)
		for _, ent := range m.order {
			e.deletes = append(e.deletes, delEv{ent.pk, ent.id})
		}
		m.order = m.order[:0]
	case opExpire:
		e.class = clsExpire
		if i := m.find(o.Key); i >= 0 {
			m.order[i].expired = true
		}
	}
}

// transition code for the distinct count: (variant, nil-callback, capacity, recency order of (key, stored alias,
// expired), operation, outcome class) for the small configurations; for large ones the order is replaced by its length.
func (m *model) code(k *kase, o op, class int) uint64 {
	var c uint64
	put := func(v uint64, bits uint) { c = c<<bits | (v & (1<<bits - 1)) }
	small := k.Cap <= 4 && k.Keys <= 4 && o.Key < 16
	put(uint64(variantIdx[k.Variant]), 2)
	if k.NilCB {
		put(1, 1)
	} else {
		put(0, 1)
	}
	put(uint64(k.Cap), 7)
	put(uint64(len(m.order)), 7)
	if small {
		for i := 0; i < 4; i++ {
			if i < len(m.order) {
				e := m.order[i]
				v := uint64(e.key&15) << 2
				if e.alt {
					v |= 2
				}
				if e.expired {
					v |= 1
				}
				put(v, 6)
			} else {
				put(63, 6)
			}
		}
		put(uint64(o.Key), 4)
		if o.Alt {
			put(1, 1)
		} else {
			put(0, 1)
		}
	}
	put(uint64(o.K), 3)
	put(uint64(class), 4)
	if !small {
		c |= 1 << 63
	}
	return c
}

// ---------------------------------------------------------------------------------------------
// system under test: the three cache types behind one set of closures, with recording callbacks

type createErr struct{ n int }

func (e *createErr) Error() string { return fmt.Sprintf("scripted create failure #%d", e.n) }

type val struct{ id int }

// xval is the CacheItem of the expirable variant: an lru.ExpirableItem whose expiry the harness can move from
// "far in the future" to "far in the past" while it is resident (the only way an item can be fresh when it is
// created and expired at a later hit without waiting for the clock).
type xval struct{ lru.ExpirableItem[int] }

var (
	farPast   = time.Date(1971, 1, 1, 0, 0, 0, 0, time.UTC)
	farFuture = time.Date(2400, 1, 1, 0, 0, 0, 0, time.UTC)
)

type sut struct {
	creates  []string
	deletes  []delEv
	failNext bool
	seq      int
	lastErr  error

	get      func(key int, pk string) (int, error) // id of the returned value (-1 nil, -2 not a value of this run)
	remove   func(key int, pk string) bool
	clear    func() int
	retained func() (int, int, int, error)
	expire   func(id int)
}

func newSUT(k *kase) (*sut, error) {
	s := &sut{}
	switch k.Variant {
	case vCache:
		var reg []*val
		idOf := func(v *val) int {
			if v == nil {
				return -1
			}
			if v.id < 1 || v.id > len(reg) || reg[v.id-1] != v {
				return -2
			}
			return v.id
		}
		create := func(key int) (*val, error) {
			s.creates = append(s.creates, pkName(vCache, key, false))
			s.seq++
			if s.failNext {
				reg = append(reg, nil)
				s.lastErr = &createErr{s.seq}
				return nil, s.lastErr
			}
			v := &val{s.seq}
			reg = append(reg, v)
			return v, nil
		}
		var onDel lru.OnDeleteElemF[int, *val]
		if !k.NilCB {
			onDel = func(key int, v *val) { s.deletes = append(s.deletes, delEv{pkName(vCache, key, false), idOf(v)}) }
		}
		c, err := lru.NewCache[int, *val](k.Cap, create, onDel)
		if err != nil {
			return nil, err
		}
		s.get = func(key int, _ string) (int, error) { v, err := c.GetOrCreate(key); return idOf(v), err }
		s.remove = func(key int, _ string) bool { return c.Remove(key) }
		s.clear = c.Clear
		s.retained = c.VerifRetained
	case vECache:
		var reg []*val
		idOf := func(v *val) int {
			if v == nil {
				return -1
			}
			if v.id < 1 || v.id > len(reg) || reg[v.id-1] != v {
				return -2
			}
			return v.id
		}
		create := func(pk string) (*val, error) {
			s.creates = append(s.creates, pk)
			s.seq++
			if s.failNext {
				reg = append(reg, nil)
				s.lastErr = &createErr{s.seq}
				return nil, s.lastErr
			}
			v := &val{s.seq}
			reg = append(reg, v)
			return v, nil
		}
		var onDel lru.OnDeleteElemF[string, *val]
		if !k.NilCB {
			onDel = func(pk string, v *val) { s.deletes = append(s.deletes, delEv{pk, idOf(v)}) }
		}
		c, err := lru.NewECache[string, string, *val](k.Cap, strings.ToLower, create, onDel)
		if err != nil {
			return nil, err
		}
		s.get = func(_ int, pk string) (int, error) { v, err := c.GetOrCreate(pk); return idOf(v), err }
		s.remove = func(_ int, pk string) bool { return c.Remove(pk) }
		s.clear = c.Clear
		s.retained = c.VerifRetained
	case vExpirable:
		var reg []*xval
		idOf := func(v *xval) int {
			if v == nil {
				return -1
			}
			if v.Value < 1 || v.Value > len(reg) || reg[v.Value-1] != v {
				return -2
			}
			return v.Value
		}
		create := func(key int) (*xval, error) {
			s.creates = append(s.creates, pkName(vExpirable, key, false))
			s.seq++
			if s.failNext {
				reg = append(reg, nil)
				s.lastErr = &createErr{s.seq}
				return nil, s.lastErr
			}
			v := &xval{lru.NewCacheItem(s.seq, farFuture)} // every created item is fresh
			reg = append(reg, v)
			return v, nil
		}
		var onDel lru.OnDeleteElemF[int, *xval]
		if !k.NilCB {
			onDel = func(key int, v *xval) { s.deletes = append(s.deletes, delEv{pkName(vExpirable, key, false), idOf(v)}) }
		}
		c, err := lru.NewExpirableCache[int, *xval](k.Cap, create, onDel)
		if err != nil {
			return nil, err
		}
		s.get = func(key int, _ string) (int, error) { v, err := c.GetOrCreate(key); return idOf(v), err }
		s.remove = func(key int, _ string) bool { return c.Remove(key) }
		s.clear = c.Clear
		s.retained = c.VerifRetained
		s.expire = func(id int) {
			if id >= 1 && id <= len(reg) && reg[id-1] != nil {
				at := farPast
				if id%2 == 0 {
					at = time.Time{} // the zero time lies before any "now" as well
				}
				reg[id-1].ExpirableItem = lru.NewCacheItem(id, at)
			}
		}
	default:
		return nil, fmt.Errorf("unknown variant %q", k.Variant)
	}
	return s, nil
}

// ---------------------------------------------------------------------------------------------
// the monitor

type vio struct {
	sig, what string
	step      int // index of the failing step in ops+ending
}

type stats struct {
	cls      [clsN]int64
	ops      int64
	skipped  int64 // illegal operations found in a (replayed) case and not executed
	maxNodes int64
}

func (s *stats) merge(o *stats) {
	for i := range s.cls {
		s.cls[i] += o.cls[i]
	}
	s.ops += o.ops
	s.skipped += o.skipped
	if o.maxNodes > s.maxNodes {
		s.maxNodes = o.maxNodes
	}
}

func showDel(d []delEv) string {
	var b strings.Builder
	b.WriteByte('[')
	for i, e := range d {
		if i > 0 {
			b.WriteByte(' ')
		}
		fmt.Fprintf(&b, "(%s,#%d)", e.Key, e.ID)
	}
	b.WriteByte(']')
	return b.String()
}

func sameDel(a, b []delEv) bool {
	if len(a) != len(b) {
		return false
	}
	for i := range a {
		if a[i] != b[i] {
			return false
		}
	}
	return true
}

func sameDelSet(a, b []delEv) bool {
	if len(a) != len(b) {
		return false
	}
	x := append([]delEv(nil), a...)
	y := append([]delEv(nil), b...)
	less := func(s []delEv) func(i, j int) bool {
		return func(i, j int) bool {
			if s[i].ID != s[j].ID {
				return s[i].ID < s[j].ID
			}
			return s[i].Key < s[j].Key
		}
	}
	sort.Slice(x, less(x))
	sort.Slice(y, less(y))
	return sameDel(x, y)
}

func sameStr(a, b []string) bool {
	if len(a) != len(b) {
		return false
	}
	for i := range a {
		if a[i] != b[i] {
			return false
		}
	}
	return true
}

func (m *model) show() string {
	var b strings.Builder
	b.WriteByte('[')
	for i, e := range m.order {
		if i > 0 {
			b.WriteByte(' ')
		}
		fmt.Fprintf(&b, "%s=#%d", e.pk, e.id)
		if e.expired {
			b.WriteString("(expired)")
		}
	}
	b.WriteByte(']')
	return b.String()
}

// endingOps are ordinary operations appended to the sequence; they are judged like any other.
func endingOps(k *kase, m *model) []op {
	switch k.End {
	case endClear:
		return []op{{K: opClear}}
	case endDrain:
		var ops []op
		// probe: a failing GetOrCreate tells resident (hit, no create) from absent (create called, nothing inserted)
		for key := 0; key < k.Keys; key++ {
			if i := m.find(key); i >= 0 && m.order[i].expired {
				continue
			}
			ops = append(ops, op{K: opGetFail, Key: key})
		}
		// cap fresh keys: every old resident is evicted, least recently used first
		for j := 0; j < k.Cap; j++ {
			ops = append(ops, op{K: opGet, Key: k.Keys + j, Alt: k.Variant == vECache && j%2 == 1})
		}
		ops = append(ops, op{K: opClear})
		return ops
	}
	return nil
}

// session is one cache under test together with its model. A case may be run on a cache that has run other
// cases before, provided each of them ended with Clear (the model is then empty again); hist is everything the cache
// has executed so far.
type session struct {
	k    kase // configuration (Variant, Cap, NilCB); Ops unused
	s    *sut
	m    *model
	e    expect
	prev []entry
	hist []op
	uses int
}

func newSession(k *kase) (*session, *vio) {
	s, err := newSUT(k)
	if err != nil || s == nil {
		return nil, &vio{sig: "lru/" + k.Variant + "/constructor/rejects-valid", what: fmt.Sprintf("constructor(maxSize=%d, create!=nil, nil callback=%v) returned %v", k.Cap, k.NilCB, err)}
	}
	return &session{k: *k, s: s, m: &model{cap: k.Cap, order: make([]entry, 0, k.Cap+1)}}, nil
}

// runCase executes the case on a fresh cache and the model and returns the first divergence.
func runCase(k *kase, st *stats, visit func(uint64)) *vio {
	ss, v := newSession(k)
	if v != nil {
		return v
	}
	return ss.run(k, st, visit)
}

// run executes k.Ops and the ending on the session's cache; the step index of a divergence counts from k.Ops[0].
func (ss *session) run(k *kase, st *stats, visit func(uint64)) *vio {
	s, m := ss.s, ss.m
	e := &ss.e
	pre := "lru/" + k.Variant + "/"
	if k.NilCB {
		pre = "lru/" + k.Variant + "-nilcb/"
	}
	ss.uses++

	step := func(o op, idx int) *vio {
		if !m.legal(k.Variant, o) {
			st.skipped++
			return nil
		}
		pk := pkName(k.Variant, o.Key, o.Alt)
		var code uint64
		if visit != nil {
			code = m.code(k, o, 0)
		}
		ss.prev = append(ss.prev[:0], m.order...)
		m.apply(o, pk, e)
		if k.NilCB {
			e.deletes = e.deletes[:0] // no callback installed, nothing can be recorded
		}
		fail := func(aspect, what string) *vio {
			before := model{order: ss.prev}
			return &vio{
				sig:  pre + opSigName(o.K) + "[" + clsNames[e.class] + "]/" + aspect,
				what: fmt.Sprintf("step %d %s (key %q, capacity %d, model before the call %s): %s", idx, o, pk, k.Cap, before.show(), what),
				step: idx,
			}
		}
		ss.hist = append(ss.hist, o)
		s.creates, s.deletes = s.creates[:0], s.deletes[:0]
		st.ops++
		st.cls[e.class]++
		var pan any
		switch o.K {
		case opGet, opGetFail:
			s.failNext = o.K == opGetFail
			s.lastErr = nil
			var id int
			var err error
			func() {
				defer func() { pan = recover() }()
				id, err = s.get(o.Key, pk)
			}()
			if pan != nil {
				return fail("panic", fmt.Sprintf("panic %v", pan))
			}
			if !sameStr(s.creates, e.creates) {
				return fail("create-calls", fmt.Sprintf("create function called with %q, want %q", s.creates, e.creates))
			}
			if e.fail {
				if err == nil {
					return fail("error", fmt.Sprintf("the create function failed with %q but GetOrCreate returned no error (value #%d)", s.lastErr, id))
				}
				if s.lastErr == nil || !errors.Is(err, s.lastErr) {
					return fail("error", fmt.Sprintf("returned error %q is not the create function's error %v", err, s.lastErr))
				}
			} else {
				if err != nil {
					return fail("error", fmt.Sprintf("returned error %q, want value #%d", err, e.id))
				}
				if id != e.id {
					return fail("value", fmt.Sprintf("returned value #%d, want #%d (-1 = nil, -2 = not a value created in this run)", id, e.id))
				}
			}
		case opRemove:
			var got bool
			func() {
				defer func() { pan = recover() }()
				got = s.remove(o.Key, pk)
			}()
			if pan != nil {
				return fail("panic", fmt.Sprintf("panic %v", pan))
			}
			if len(s.creates) != 0 {
				return fail("create-calls", fmt.Sprintf("create function called with %q by Remove", s.creates))
			}
			if got != e.removed {
				return fail("result", fmt.Sprintf("returned %v, want %v", got, e.removed))
			}
		case opClear:
			var got int
			func() {
				defer func() { pan = recover() }()
				got = s.clear()
			}()
			if pan != nil {
				return fail("panic", fmt.Sprintf("panic %v", pan))
			}
			if len(s.creates) != 0 {
				return fail("create-calls", fmt.Sprintf("create function called with %q by Clear", s.creates))
			}
			if got != e.count {
				return fail("count", fmt.Sprintf("returned %d, want %d", got, e.count))
			}
		case opExpire:
			// not a call into the library: the resident item's expiry moves to the far past
			if i := m.find(o.Key); i >= 0 {
				s.expire(m.order[i].id)
			}
		}
		if !sameDel(s.deletes, e.deletes) {
			if o.K == opClear && sameDelSet(s.deletes, e.deletes) {
				return fail("callback-order", fmt.Sprintf("delete callbacks %s are the residents but not least recently used first %s", showDel(s.deletes), showDel(e.deletes)))
			}
			return fail("delete-calls", fmt.Sprintf("delete callback calls %s, want %s", showDel(s.deletes), showDel(e.deletes)))
		}
		// extra invariant through the hook
		var nodes, length, inflight int
		var herr error
		func() {
			defer func() { pan = recover() }()
			nodes, length, inflight, herr = s.retained()
		}()
		if pan != nil {
			return fail("hook/panic", fmt.Sprintf("VerifRetained panicked: %v", pan))
		}
		if herr != nil {
			return fail("hook/list-structure", fmt.Sprintf("recency list inconsistent after the call: %v", herr))
		}
		if length != len(m.order) {
			return fail("hook/length", fmt.Sprintf("%d entries resident after the call, want %d %s", length, len(m.order), m.show()))
		}
		if length > k.Cap {
			return fail("hook/over-capacity", fmt.Sprintf("%d entries resident, capacity %d", length, k.Cap))
		}
		if inflight != 0 {
			return fail("hook/inflight", fmt.Sprintf("%d in-flight creations registered while no call is running", inflight))
		}
		if int64(nodes) > st.maxNodes {
			st.maxNodes = int64(nodes)
		}
		if visit != nil {
			visit(code | uint64(e.class))
		}
		return nil
	}

	for i, o := range k.Ops {
		if v := step(o, i); v != nil {
			return v
		}
	}
	for j, o := range endingOps(k, m) {
		if v := step(o, len(k.Ops)+j); v != nil {
			return v
		}
	}
	return nil
}

func opSigName(k opKind) string {
	switch k {
	case opGet, opGetFail:
		return "GetOrCreate"
	case opRemove:
		return "Remove"
	case opClear:
		return "Clear"
	}
	return "Expire"
}

// witnessOf cuts the case down to what is needed to reproduce v.
func witnessOf(k *kase, v *vio) kase {
	w := *k
	if v.step < len(k.Ops) {
		w.Ops = append([]op(nil), k.Ops[:v.step+1]...)
		w.End = endNone
	}
	return w
}

// ---------------------------------------------------------------------------------------------
// generators

func alphabet(variant string, keys int) []op {
	var a []op
	for key := 0; key < keys; key++ {
		alts := []bool{false}
		if variant == vECache {
			alts = []bool{false, true}
		}
		for _, alt := range alts {
			a = append(a, op{K: opGet, Key: key, Alt: alt}, op{K: opGetFail, Key: key, Alt: alt}, op{K: opRemove, Key: key, Alt: alt})
		}
		if variant == vExpirable {
			a = append(a, op{K: opExpire, Key: key})
		}
	}
	a = append(a, op{K: opClear})
	return a
}

// walk enumerates every legal extension of ops (state m) up to length upto and calls node for every sequence on
// the way (the starting one included).
func walk(variant string, alpha []op, ops []op, m *model, upto int, node func(ops []op, m *model)) {
	node(ops, m)
	if len(ops) >= upto {
		return
	}
	var e expect
	for _, o := range alpha {
		if !m.legal(variant, o) {
			continue
		}
		mm := m.clone()
		mm.apply(o, "", &e)
		walk(variant, alpha, append(ops, o), &mm, upto, node)
	}
}

// config is one enumerated configuration: every legal sequence of length depthClear is run with the Clear ending and
// every legal sequence of length depthDrain with the draining ending (0 = not used). Every prefix of a sequence is
// checked call by call on the way, so only the endings distinguish the lengths.
type config struct {
	variant    string
	nilcb      bool
	cap        int
	keys       int
	depthClear int
	depthDrain int
}

func (c config) String() string {
	n := ""
	if c.nilcb {
		n = "/nil-callback"
	}
	return fmt.Sprintf("%s%s cap=%d keys=%d", c.variant, n, c.cap, c.keys)
}

func (c config) maxDepth() int { return max(c.depthClear, c.depthDrain) }

// the enumerated configurations and their depth bounds
func configs(thorough bool) []config {
	var cs []config
	pick := func(q, t int) int {
		if thorough {
			return t
		}
		return q
	}
	for c := 1; c <= 4; c++ {
		keys := 3
		if c == 4 {
			keys = 4
		}
		// alphabet sizes: cache 3k+1, ecache 6k+1, expirable 4k+1 (Expire is legal only on a resident fresh key)
		// (the 19/25-letter ECache alphabet is taken one level less deep, except for capacity 2 in the thorough tier)
		var dc, de, dx int
		if c < 4 {
			dc, de, dx = pick(6, 7), pick(4, 5), pick(6, 7)
			if c == 2 {
				de = pick(4, 6)
			}
		} else {
			dc, de, dx = pick(5, 6), pick(4, 5), pick(5, 6)
		}
		cs = append(cs, config{vCache, false, c, keys, dc, dc - 1})
		cs = append(cs, config{vECache, false, c, keys, de, de - 1})
		cs = append(cs, config{vExpirable, false, c, keys, dx, dx - 1})
		// nil delete callback: order and residency are visible only through hits/misses, so the probing ending is used
		cs = append(cs, config{vCache, true, c, keys, 0, pick(4, 5)})
		cs = append(cs, config{vECache, true, c, keys, 0, pick(3, 4)})
		cs = append(cs, config{vExpirable, true, c, keys, 0, pick(4, 5)})
	}
	return cs
}

type collector struct {
	mu   sync.Mutex
	seen map[uint64]struct{}
	st   stats
}

func (c *collector) merge(local map[uint64]struct{}, st *stats) {
	c.mu.Lock()
	for h := range local {
		c.seen[h] = struct{}{}
	}
	c.st.merge(st)
	c.mu.Unlock()
}

const sessionCases = 16 // cases run back to back on one cache before a new one is made

// runner runs cases of one configuration, re-using a cache for up to sessionCases cases (each case ends with Clear,
// so the next one starts from an empty — but used — cache; the first case of a session starts from a new cache).
type runner struct {
	run   *report.Run
	st    *stats
	visit func(uint64)
	ss    *session
}

func (r *runner) do(k *kase) (violated bool) {
	if r.ss != nil && (r.ss.uses >= sessionCases || r.ss.k.Variant != k.Variant || r.ss.k.Cap != k.Cap || r.ss.k.NilCB != k.NilCB || len(r.ss.m.order) != 0) {
		r.ss = nil
	}
	if r.ss == nil {
		ss, v := newSession(k)
		if v != nil {
			r.run.Violation(v.sig, v.what, witnessOf(k, v))
			return true
		}
		r.ss = ss
	}
	ss := r.ss
	fresh := ss.uses == 0
	histLen := len(ss.hist)
	v := ss.run(k, r.st, r.visit)
	if v == nil {
		return false
	}
	r.ss = nil // the cache and the model have diverged
	if fresh {
		r.run.Violation(v.sig, v.what, witnessOf(k, v))
		return true
	}
	// does the case alone show it on a new cache? then that is the witness
	var scratch stats
	if v2 := runCase(k, &scratch, nil); v2 != nil {
		r.run.Violation(v2.sig, v2.what, witnessOf(k, v2))
		return true
	}
	// it needs the history of the cache: the witness is everything this cache has executed
	whole := kase{Variant: k.Variant, Cap: k.Cap, NilCB: k.NilCB, Keys: k.Keys, Ops: append([]op(nil), ss.hist...), End: endNone}
	if v3 := runCase(&whole, &scratch, nil); v3 != nil {
		r.run.Violation(v3.sig, v3.what, witnessOf(&whole, v3))
		return true
	}
	v.what += fmt.Sprintf(" [on a cache that had executed %d earlier calls; not reproduced when the whole history was re-run on a new cache]", histLen)
	r.run.Violation(v.sig+"/history-dependent", v.what, whole)
	return true
}

func enumerateAll(run *report.Run, col *collector, cs []config) {
	type unit struct {
		c      config
		prefix []op
		m      model
	}
	units := make(chan unit, 4096)
	var wg sync.WaitGroup
	for w := 0; w < runtime.NumCPU(); w++ {
		wg.Add(1)
		go func() {
			defer wg.Done()
			local := map[uint64]struct{}{}
			var st stats
			r := &runner{run: run, st: &st, visit: func(h uint64) { local[h] = struct{}{} }}
			for u := range units {
				alpha := alphabet(u.c.variant, u.c.keys)
				n, vios := 0, 0
				walk(u.c.variant, alpha, append([]op(nil), u.prefix...), &u.m, u.c.maxDepth(), func(ops []op, _ *model) {
					end := ""
					switch len(ops) {
					case u.c.depthClear:
						end = endClear
					case u.c.depthDrain:
						end = endDrain
					default:
						return
					}
					if vios > 20 { // this unit has reported enough; do not spend the budget on it
						return
					}
					n++
					k := kase{Variant: u.c.variant, Cap: u.c.cap, NilCB: u.c.nilcb, Keys: u.c.keys, Ops: ops, End: end}
					if r.do(&k) {
						vios++
					}
					if n&0xfff == 1 && run.SampleN() < 2 {
						run.Sample(fmt.Sprintf("%s ops=%v ending=%s", u.c, ops, end))
					}
				})
				run.Eval(n)
				run.Add("enumerated_sequences", int64(n))
				run.Add("enumerated_sequences_"+u.c.variant, int64(n))
			}
			col.merge(local, &st)
		}()
	}
	bounds := map[string]any{}
	for _, c := range cs {
		alpha := alphabet(c.variant, c.keys)
		b := map[string]any{"alphabet": len(alpha), "depth_with_drain_ending": c.depthDrain}
		if c.depthClear > 0 {
			b["depth_with_clear_ending"] = c.depthClear
		}
		bounds[c.String()] = b
		m := model{cap: c.cap}
		const pre = 2 // every depth bound is > 2
		walk(c.variant, alpha, nil, &m, pre, func(ops []op, mm *model) {
			if len(ops) == pre {
				units <- unit{c, append([]op(nil), ops...), mm.clone()}
			}
		})
	}
	close(units)
	wg.Wait()
	run.Note("enumeration_bounds", bounds)
	run.Note("cases_per_cache", sessionCases)
}

// randomCase builds one long sequence; every choice comes from rng.
func randomCase(rng *rand.Rand, i int, minLen, maxLen int) kase {
	variants := []string{vCache, vECache, vExpirable}
	caps := []int{1, 2, 3, 4, 5, 7, 8, 16, 31, 64}
	k := kase{Variant: variants[i%3], Cap: caps[rng.Intn(len(caps))]}
	k.NilCB = i%8 == 7
	k.Keys = 2*k.Cap + rng.Intn(2)
	k.End = []string{endClear, endDrain}[(i/3)%2]
	if k.NilCB {
		k.End = endDrain
	}
	n := minLen + rng.Intn(maxLen-minLen+1)
	// op mix of this sequence
	pFail := 5 + rng.Intn(20)
	pRemove := 5 + rng.Intn(20)
	pExpire := 0
	if k.Variant == vExpirable {
		pExpire = 5 + rng.Intn(20)
	}
	pClear := rng.Intn(3) // per cent; 0 = a sequence without Clear
	hot := rng.Intn(3)    // 0 uniform keys, 1 half of the draws from a window of cap keys, 2 strongly skewed
	m := model{cap: k.Cap}
	var e expect
	k.Ops = make([]op, 0, n)
	for len(k.Ops) < n {
		var key int
		switch hot {
		case 0:
			key = rng.Intn(k.Keys)
		case 1:
			if rng.Intn(2) == 0 {
				key = rng.Intn(k.Cap)
			} else {
				key = rng.Intn(k.Keys)
			}
		default:
			key = int(float64(k.Keys) * math.Pow(rng.Float64(), 2.5))
			if key >= k.Keys {
				key = k.Keys - 1
			}
		}
		o := op{Key: key}
		if k.Variant == vECache {
			o.Alt = rng.Intn(2) == 0
		}
		x := rng.Intn(100)
		switch {
		case x < pClear:
			o = op{K: opClear}
		case x < pClear+pFail:
			o.K = opGetFail
		case x < pClear+pFail+pRemove:
			o.K = opRemove
		case x < pClear+pFail+pRemove+pExpire:
			o.K = opExpire
			o.Alt = false
			if !m.legal(k.Variant, o) && len(m.order) > 0 { // aim at a resident key instead
				o.Key = m.order[rng.Intn(len(m.order))].key
			}
		default:
			o.K = opGet
		}
		if !m.legal(k.Variant, o) {
			if o.K == opGetFail {
				o.K = opGet // an expired resident is only ever replaced successfully
			} else {
				continue
			}
		}
		m.apply(o, "", &e)
		k.Ops = append(k.Ops, o)
	}
	return k
}

func randomAll(run *report.Run, col *collector, seqs, minLen, maxLen int) {
	var wg sync.WaitGroup
	idx := make(chan int, 64)
	for w := 0; w < runtime.NumCPU(); w++ {
		wg.Add(1)
		go func() {
			defer wg.Done()
			local := map[uint64]struct{}{}
			var st stats
			visit := func(h uint64) { local[h] = struct{}{} }
			for i := range idx {
				rng := rand.New(rand.NewSource(run.Seed()*1_000_003 + int64(i)))
				k := randomCase(rng, i, minLen, maxLen)
				run.Eval(1)
				run.Add("random_sequences", 1)
				run.Add("random_operations", int64(len(k.Ops)))
				run.Max("random_max_capacity", int64(k.Cap))
				if v := runCase(&k, &st, visit); v != nil {
					run.Violation(v.sig, v.what, witnessOf(&k, v))
				}
			}
			col.merge(local, &st)
		}()
	}
	for i := 0; i < seqs; i++ {
		idx <- i
	}
	close(idx)
	wg.Wait()
}

// ---------------------------------------------------------------------------------------------
// constructor argument validation: a small fixed list

func constructorChecks(run *report.Run) {
	okI := func(int) (*val, error) { return &val{}, nil }
	okS := func(string) (*val, error) { return &val{}, nil }
	okX := func(int) (*xval, error) { return &xval{lru.NewCacheItem(1, farFuture)}, nil }
	dI := func(int, *val) {}
	dS := func(string, *val) {}
	dX := func(int, *xval) {}
	type tc struct {
		name    string
		wantErr bool
		f       func() (bool, error) // (cache is nil, error)
	}
	var list []tc
	for _, n := range []int{0, -1, math.MinInt} {
		n := n
		list = append(list,
			tc{fmt.Sprintf("NewCache(maxSize=%d)", n), true, func() (bool, error) { c, err := lru.NewCache[int, *val](n, okI, dI); return c == nil, err }},
			tc{fmt.Sprintf("NewECache(maxSize=%d)", n), true, func() (bool, error) {
				c, err := lru.NewECache[string, string, *val](n, strings.ToLower, okS, dS)
				return c == nil, err
			}},
			tc{fmt.Sprintf("NewExpirableCache(maxSize=%d)", n), true, func() (bool, error) {
				c, err := lru.NewExpirableCache[int, *xval](n, okX, dX)
				return c == nil, err
			}},
		)
	}
	list = append(list,
		tc{"NewCache(create=nil)", true, func() (bool, error) { c, err := lru.NewCache[int, *val](1, nil, dI); return c == nil, err }},
		tc{"NewECache(create=nil)", true, func() (bool, error) {
			c, err := lru.NewECache[string, string, *val](1, strings.ToLower, nil, dS)
			return c == nil, err
		}},
		tc{"NewExpirableCache(create=nil)", true, func() (bool, error) {
			c, err := lru.NewExpirableCache[int, *xval](1, nil, dX)
			return c == nil, err
		}},
		tc{"NewCache(create=nil,callback=nil)", true, func() (bool, error) { c, err := lru.NewCache[int, *val](3, nil, nil); return c == nil, err }},
		tc{"NewCache(maxSize=1,callback=nil)", false, func() (bool, error) { c, err := lru.NewCache[int, *val](1, okI, nil); return c == nil, err }},
		tc{"NewECache(maxSize=1,callback=nil)", false, func() (bool, error) {
			c, err := lru.NewECache[string, string, *val](1, strings.ToLower, okS, nil)
			return c == nil, err
		}},
		tc{"NewExpirableCache(maxSize=1,callback=nil)", false, func() (bool, error) {
			c, err := lru.NewExpirableCache[int, *xval](1, okX, nil)
			return c == nil, err
		}},
		tc{"NewCache(maxSize=MaxInt)", false, func() (bool, error) { c, err := lru.NewCache[int, *val](math.MaxInt, okI, dI); return c == nil, err }},
	)
	for _, c := range list {
		var isNil bool
		var err error
		var pan any
		func() {
			defer func() { pan = recover() }()
			isNil, err = c.f()
		}()
		run.Eval(1)
		run.Add("constructor_cases", 1)
		run.DistinctStr("ctor " + c.name)
		w := map[string]any{"constructor": c.name}
		switch {
		case pan != nil:
			run.Violation("lru/constructor/panic", fmt.Sprintf("%s panicked: %v", c.name, pan), w)
		case c.wantErr && err == nil:
			run.Violation("lru/constructor/accepts-invalid", fmt.Sprintf("%s returned no error", c.name), w)
		case !c.wantErr && (err != nil || isNil):
			run.Violation("lru/constructor/rejects-valid", fmt.Sprintf("%s returned nil=%v err=%v", c.name, isNil, err), w)
		}
	}
}

// ---------------------------------------------------------------------------------------------

func decode(h uint64) string {
	large := h>>63 == 1
	h &^= 1 << 63
	take := func(bits uint) int { v := int(h & (1<<bits - 1)); h >>= bits; return v }
	class := take(4)
	k := opKind(take(3))
	cn := "?"
	if class < len(clsNames) {
		cn = clsNames[class]
	}
	var alt bool
	var key int
	var ents [4]int
	if !large {
		alt = take(1) == 1
		key = take(4)
		for i := 3; i >= 0; i-- {
			ents[i] = take(6)
		}
	}
	ln := take(7)
	cp := take(7)
	nilcb := take(1) == 1
	vn := []string{vCache, vECache, vExpirable, "?"}[take(2)]
	if nilcb {
		vn += "/nil-callback"
	}
	if large {
		return fmt.Sprintf("%s cap=%d residents=%d %s -> %s", vn, cp, ln, opNames[k], cn)
	}
	st := []string{}
	for i := 0; i < ln && i < 4; i++ {
		s := strconv.Itoa(ents[i] >> 2)
		if ents[i]&2 != 0 {
			s += "^"
		}
		if ents[i]&1 != 0 {
			s += "(expired)"
		}
		st = append(st, s)
	}
	return fmt.Sprintf("%s cap=%d order(LRU first)=%v %s -> %s", vn, cp, st, op{K: k, Key: key, Alt: alt}, cn)
}

// staleOrigin (child process): ExpirableCache whose create function serves already expired items - for the first
// attempt of a call, for several attempts, or for as long as the call runs. The statement does not say how many
// replacement rounds one call makes nor whether it may return a stale item, so only what it does determine is
// judged: the call returns; every created item that is not the returned one leaves with exactly one delete
// callback (right key, right value); entries that stay resident get none; at most the least recently used
// resident is evicted; the capacity holds and the recency list is consistent (hook).
func staleOrigin(res *shard.Result) {
	type cfg struct {
		Cap      int   `json:"cap"`
		Resident []int `json:"resident"` // keys inserted (fresh) before, least recently used first
		Key      int   `json:"key"`
		ExpireIt bool  `json:"expire_resident_key"`
		Stale    int   `json:"stale_attempts"` // -1: every attempt while the call runs
	}
	var cfgs []cfg
	for cp := 1; cp <= 3; cp++ {
		for _, stale := range []int{1, 2, 5, -1} {
			cfgs = append(cfgs, cfg{Cap: cp, Key: 7, Stale: stale})
			full := []int{}
			for i := 0; i < cp; i++ {
				full = append(full, i)
			}
			cfgs = append(cfgs, cfg{Cap: cp, Resident: full, Key: 7, Stale: stale})
			cfgs = append(cfgs, cfg{Cap: cp, Resident: full, Key: 0, ExpireIt: true, Stale: stale})
		}
	}
	for _, c := range cfgs {
		var reg []*xval
		var creates []int
		type del struct{ key, id int }
		var dels []del
		staleLeft, inCall := 0, false
		create := func(key int) (*xval, error) {
			id := len(reg) + 1
			at := farFuture
			if inCall && (staleLeft < 0 || staleLeft > 0) {
				at = farPast
				if staleLeft > 0 {
					staleLeft--
				}
			}
			v := &xval{lru.NewCacheItem(id, at)}
			reg = append(reg, v)
			if inCall {
				creates = append(creates, id)
			}
			return v, nil
		}
		cache, err := lru.NewExpirableCache[int, *xval](c.Cap, create, func(key int, v *xval) { dels = append(dels, del{key, v.Value}) })
		if err != nil {
			res.Violation("lru/expirable/constructor/rejects-valid", err.Error(), c)
			continue
		}
		resident := map[int]int{} // key -> id
		for _, k := range c.Resident {
			v, _ := cache.GetOrCreate(k)
			resident[k] = v.Value
		}
		if c.ExpireIt {
			reg[resident[c.Key]-1].ExpirableItem = lru.NewCacheItem(resident[c.Key], farPast)
		}
		dels = dels[:0]
		staleLeft, inCall = c.Stale, true
		got, gerr := cache.GetOrCreate(c.Key) // a call that never returns ends the child (stack overflow / watchdog)
		inCall = false
		res.Evals++
		res.Counters["stale_origin_calls"]++
		res.Classes = append(res.Classes, fmt.Sprintf("stale-origin|cap=%d|resident=%d|expired-resident=%v|stale=%d|creates=%d", c.Cap, len(c.Resident), c.ExpireIt, c.Stale, len(creates)))
		bad := func(sig, what string) {
			res.Violation("lru/expirable/stale-origin/"+sig, fmt.Sprintf("capacity %d, residents %v, GetOrCreate(%d) with an origin serving stale items (%d attempts, -1 = always; resident key expired: %v): %s; creations %v, delete callbacks %v", c.Cap, c.Resident, c.Key, c.Stale, c.ExpireIt, what, creates, dels), c)
		}
		if gerr != nil || got == nil {
			bad("error", fmt.Sprintf("returned (%v, %v) although every creation succeeded", got, gerr))
			continue
		}
		if len(creates) == 0 || got.Value != creates[len(creates)-1] {
			bad("value", fmt.Sprintf("returned value #%d is not the item created last", got.Value))
			continue
		}
		cnt := map[int]int{}
		for _, d := range dels {
			cnt[d.id]++
		}
		for _, id := range creates[:len(creates)-1] {
			if cnt[id] != 1 {
				bad("delete-calls", fmt.Sprintf("item #%d was created and replaced but got %d delete callbacks", id, cnt[id]))
			}
			delete(cnt, id)
		}
		if cnt[got.Value] != 0 {
			bad("delete-calls", fmt.Sprintf("the returned (resident) item #%d got a delete callback", got.Value))
		}
		delete(cnt, got.Value)
		if c.ExpireIt {
			if cnt[resident[c.Key]] != 1 {
				bad("delete-calls", fmt.Sprintf("the expired resident item #%d got %d delete callbacks", resident[c.Key], cnt[resident[c.Key]]))
			}
			delete(cnt, resident[c.Key])
		}
		// whatever is left are evictions of older residents: at most one, and only the least recently used one
		for id, n := range cnt {
			lruKey := -1
			for _, k := range c.Resident {
				if !(c.ExpireIt && k == c.Key) {
					lruKey = k
					break
				}
			}
			if n != 1 || lruKey < 0 || id != resident[lruKey] || len(c.Resident) < c.Cap || c.ExpireIt {
				bad("delete-calls", fmt.Sprintf("unexpected delete callback(s) for item #%d (x%d)", id, n))
			}
		}
		for _, d := range dels {
			want := -1
			for k, id := range resident {
				if id == d.id {
					want = k
				}
			}
			if want < 0 {
				want = c.Key
			}
			if d.key != want {
				bad("delete-calls", fmt.Sprintf("delete callback for item #%d came with key %d, want %d", d.id, d.key, want))
			}
		}
		if _, length, inflight, herr := cache.VerifRetained(); herr != nil || length > c.Cap || inflight != 0 {
			bad("hook", fmt.Sprintf("after the call: %d resident (capacity %d), %d in flight, list check: %v", length, c.Cap, inflight, herr))
		}
	}
}

// failedRefresh (same child process): a resident item of an ExpirableCache has expired and the create function
// fails when the call tries to replace it. The statement does not say whether the expired item stays ("a failed
// creation changes nothing") or leaves (as the code does: expiry replacement first removes it), so only what both
// readings determine is judged: one creation attempt; a call that reports no error returns a value that has not
// been handed to the delete callback; the expired item gets at most one delete callback, no other resident gets
// any; the next call for the key with a working origin creates exactly one item, returns it, and by then the
// expired item has had exactly one delete callback; capacity and list hold (hook).
func failedRefresh(res *shard.Result) {
	type cfg struct {
		Cap      int  `json:"cap"`
		Resident int  `json:"resident"` // keys 0..Resident-1 inserted fresh, least recently used first
		Key      int  `json:"key"`      // the resident key whose item expires
		Zero     bool `json:"expiry_zero_time"`
	}
	var cfgs []cfg
	for cp := 1; cp <= 4; cp++ {
		for n := 1; n <= cp; n++ {
			for k := 0; k < n; k++ {
				cfgs = append(cfgs, cfg{cp, n, k, false}, cfg{cp, n, k, true})
			}
		}
	}
	for _, c := range cfgs {
		var reg []*xval
		type del struct{ key, id int }
		var dels []del
		attempts, fail := 0, false
		create := func(key int) (*xval, error) {
			attempts++
			if fail {
				return nil, fmt.Errorf("origin down")
			}
			v := &xval{lru.NewCacheItem(len(reg)+1, farFuture)}
			reg = append(reg, v)
			return v, nil
		}
		cache, err := lru.NewExpirableCache[int, *xval](c.Cap, create, func(key int, v *xval) { dels = append(dels, del{key, v.Value}) })
		if err != nil {
			res.Violation("lru/expirable/constructor/rejects-valid", err.Error(), c)
			continue
		}
		ids := map[int]int{}
		for k := 0; k < c.Resident; k++ {
			v, _ := cache.GetOrCreate(k)
			ids[k] = v.Value
		}
		old := ids[c.Key]
		at := farPast
		if c.Zero {
			at = time.Time{}
		}
		reg[old-1].ExpirableItem = lru.NewCacheItem(old, at)
		dels, attempts, fail = dels[:0], 0, true
		got, gerr := cache.GetOrCreate(c.Key)
		fail = false
		res.Evals++
		res.Counters["failed_refresh_calls"]++
		res.Classes = append(res.Classes, fmt.Sprintf("failed-refresh|cap=%d|resident=%d|key=%d|zero=%v|err=%v|dels=%d", c.Cap, c.Resident, c.Key, c.Zero, gerr != nil, len(dels)))
		bad := func(sig, what string) {
			res.Violation("lru/expirable/failed-refresh/"+sig, fmt.Sprintf("capacity %d, residents 0..%d, item #%d of key %d expired, GetOrCreate(%d) with a failing create function: %s; creation attempts %d, delete callbacks %v", c.Cap, c.Resident-1, old, c.Key, c.Key, what, attempts, dels), c)
		}
		if attempts != 1 {
			bad("create-calls", fmt.Sprintf("%d creation attempts, want 1", attempts))
		}
		cnt := map[int]int{}
		for _, d := range dels {
			cnt[d.id]++
			if d.id != old {
				bad("delete-calls", fmt.Sprintf("resident item #%d got a delete callback although nothing was inserted", d.id))
			} else if d.key != c.Key {
				bad("delete-calls", fmt.Sprintf("delete callback for item #%d came with key %d, want %d", d.id, d.key, c.Key))
			}
		}
		if cnt[old] > 1 {
			bad("delete-calls", fmt.Sprintf("the expired item #%d got %d delete callbacks", old, cnt[old]))
		}
		if gerr == nil {
			if got == nil {
				bad("value", "returned (nil, nil)")
			} else if cnt[got.Value] != 0 {
				bad("deleted-value-returned", fmt.Sprintf("returned item #%d without an error after handing it to the delete callback", got.Value))
			}
		}
		if _, length, inflight, herr := cache.VerifRetained(); herr != nil || length > c.Cap || inflight != 0 {
			bad("hook", fmt.Sprintf("after the call: %d resident (capacity %d), %d in flight, list check: %v", length, c.Cap, inflight, herr))
		}
		// the origin is back
		attempts = 0
		got2, gerr2 := cache.GetOrCreate(c.Key)
		res.Evals++
		if gerr2 != nil || got2 == nil || attempts != 1 || got2.Value != len(reg) || got2.Value == old {
			bad("follow-up", fmt.Sprintf("the next GetOrCreate(%d) with a working create function returned (%v, %v) after %d creation attempts, want the one newly created item #%d", c.Key, got2, gerr2, attempts, len(reg)))
			continue
		}
		cnt = map[int]int{}
		for _, d := range dels {
			cnt[d.id]++
		}
		if cnt[old] != 1 {
			bad("follow-up", fmt.Sprintf("after its replacement the expired item #%d has had %d delete callbacks, want 1", old, cnt[old]))
		}
		if cnt[got2.Value] != 0 {
			bad("follow-up", fmt.Sprintf("the resident item #%d got a delete callback", got2.Value))
		}
		if _, length, inflight, herr := cache.VerifRetained(); herr != nil || length > c.Cap || inflight != 0 {
			bad("hook", fmt.Sprintf("after the follow-up call: %d resident (capacity %d), %d in flight, list check: %v", length, c.Cap, inflight, herr))
		}
	}
}

func TestChild(t *testing.T) {
	if _, _, _, ok := shard.Child(); !ok {
		t.Skip("not a shard child")
	}
	debug.SetMaxStack(64 << 20) // a GetOrCreate that re-enters itself for ever ends quickly
	res := shard.NewResult()
	staleOrigin(res)
	failedRefresh(res)
	shard.Emit(res)
}

func TestCheck(t *testing.T) {
	run := report.New("C08", "exploration")
	defer run.Finish(t)
	run.Rule("every legal call sequence over {GetOrCreate(k) with a succeeding create, GetOrCreate(k) with a failing create, Remove(k), Clear (, Expire(k) for the expirable variant; both spellings of k for the ECache variant)} to the stated depth for capacities 1..4 on lru.Cache, lru.ECache(strings.ToLower) and lru.ExpirableCache, with and without a delete callback, each followed by an ending that exposes the whole recency order (Clear, or probe + cap fresh insertions + Clear); plus seeded random sequences of 10^3..10^4 calls for capacities up to 64 over about 2*capacity keys; after every call the returned value/error/bool/count, the create-callback calls and the delete-callback calls of that call and the resident count (hook) are compared with a list model. distinct = distinct (variant, callback present, capacity, recency order of resident keys incl. stored spelling and expired flag, operation, outcome class) transitions observed (for capacities > 4 the order is replaced by the number of residents)")
	run.Assume("single goroutine per cache (concurrency is C09)")
	run.Assume("expirable variant: items are created fresh (expiry year 2400) and become expired only by the harness moving the resident item's expiry to 1971 or to the zero time (both lie before any now) (custom CacheItem embedding lru.ExpirableItem); in the model-checked sequences a create function that returns an already expired item and a failing re-creation of an expired resident are not generated because the statement does not define them; origins serving stale items are driven separately (child process) and judged only on what the statement determines: the call returns, replaced items get exactly one delete callback, the resident one none, at most the least recently used resident is evicted; a failing re-creation of an expired resident is driven separately as well (child process, capacities 1..4, every resident position, expiry 1971 and zero time) and judged on what both readings determine: one creation attempt, a call that reports no error does not return an item already handed to the delete callback, the expired item gets at most one delete callback and no other resident any, the next call with a working origin creates and returns exactly one new item by when the expired one has had exactly one delete callback")
	run.Assume("the order of the delete callbacks inside one Clear is taken to be least-recently-used first (DESIGN §3 C08); a reordering is reported under its own signature …/Clear[clear]/callback-order")
	run.Assume("the relative order of create-callback and delete-callback calls inside one call is not judged")

	if p := os.Getenv("VERIF_REPLAY"); p != "" {
		replay(t, run, p)
		return
	}
	// millions of short-lived caches on a live heap of a few MB: collect less often (speed only)
	defer debug.SetGCPercent(debug.SetGCPercent(400))
	col := &collector{seen: map[uint64]struct{}{}}
	constructorChecks(run)
	for c := range shard.Run(run, "TestChild", "stale-origin", 1, 10*time.Minute) {
		run.DistinctStr(c)
	}
	enumerateAll(run, col, configs(run.Thorough()))
	randomAll(run, col, run.Pick(400, 6000), 1000, 10000)

	for h := range col.seen {
		run.Distinct(h)
	}
	hs := make([]uint64, 0, len(col.seen))
	for h := range col.seen {
		hs = append(hs, h)
	}
	sort.Slice(hs, func(i, j int) bool { return hs[i] < hs[j] })
	for i := 0; i < 4 && len(hs) > 0; i++ {
		run.Sample("transition: " + decode(hs[(i*len(hs))/4+len(hs)/8]))
	}
	for c, n := range col.st.cls {
		run.Add("outcome_"+clsNames[c], n)
	}
	run.Add("operations_executed", col.st.ops)
	run.Max("max_list_nodes_seen", col.st.maxNodes)
	// the run must have reached every outcome class that is generated
	for _, c := range []int{clsHit, clsMiss, clsMissEvict, clsMissFail, clsExpiredReplace, clsRemoveHit, clsRemoveMiss, clsClear, clsExpire} {
		if col.st.cls[c] == 0 && run.Violations() == 0 {
			run.Inconclusive("outcome class never reached: " + clsNames[c])
		}
	}
	if col.st.cls[clsExpiredFail] != 0 || col.st.skipped != 0 {
		run.Inconclusive(fmt.Sprintf("generator produced operations outside its restriction (expired-create-fails=%d skipped=%d)", col.st.cls[clsExpiredFail], col.st.skipped))
	}
}

func replay(t *testing.T, run *report.Run, path string) {
	b, err := os.ReadFile(path)
	if err != nil {
		run.Inconclusive("cannot read replay file: " + err.Error())
		return
	}
	var doc struct {
		Witness json.RawMessage `json:"witness"`
	}
	if err := json.Unmarshal(b, &doc); err != nil {
		run.Inconclusive("cannot parse replay file: " + err.Error())
		return
	}
	var probe map[string]any
	_ = json.Unmarshal(doc.Witness, &probe)
	if _, ok := probe["constructor"]; ok {
		constructorChecks(run)
		run.Sample(probe)
		return
	}
	var k kase
	if err := json.Unmarshal(doc.Witness, &k); err != nil || k.Cap < 1 || k.Variant == "" {
		run.Inconclusive(fmt.Sprintf("replay witness is not a case: %v", err))
		return
	}
	if k.End == "" {
		k.End = endNone
	}
	var st stats
	run.Eval(1)
	run.DistinctAdd(2)
	if len(k.Ops) <= 64 {
		run.Sample(k)
	} else {
		run.Sample(fmt.Sprintf("%s cap=%d keys=%d %d operations", k.Variant, k.Cap, k.Keys, len(k.Ops)))
	}
	if v := runCase(&k, &st, nil); v != nil {
		run.Violation(v.sig, v.what, witnessOf(&k, v))
	} else {
		fmt.Println("REPLAY: no violation on this tree")
	}
	if st.skipped > 0 {
		fmt.Printf("REPLAY: %d operations of the witness are outside the generator's restriction and were not executed\n", st.skipped)
	}
}
