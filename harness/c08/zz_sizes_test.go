package c08

import (
	"fmt"
	"testing"
)

func TestSizes(t *testing.T) {
	for _, c := range []config{
		{vCache, false, 3, 3, 7, 6}, {vCache, false, 4, 4, 6, 5}, {vCache, false, 4, 4, 7, 6},
		{vECache, false, 3, 3, 6, 5}, {vECache, false, 3, 3, 5, 4}, {vECache, false, 4, 4, 5, 4},
		{vExpirable, false, 1, 3, 7, 6}, {vExpirable, false, 3, 3, 7, 6}, {vExpirable, false, 3, 3, 6, 5}, {vExpirable, false, 4, 4, 6, 5},
	} {
		alpha := alphabet(c.variant, c.keys)
		m := model{cap: c.cap}
		var nc, nd int
		walk(c.variant, alpha, nil, &m, c.maxDepth(), func(ops []op, _ *model) {
			switch len(ops) {
			case c.depthClear:
				nc++
			case c.depthDrain:
				nd++
			}
		})
		fmt.Printf("%s depth %d/%d: clear-cases %d drain-cases %d\n", c, c.depthClear, c.depthDrain, nc, nd)
	}
}
