// C12 — timers: never early, at most once, cancel is effective and precise (DESIGN §3 C12).
// Real clock; per-future monitor with one-sided bounds, drain detector on hook state, heap-index
// invariant hook sampled concurrently; rounds run in child processes (the package state is global).
package c12

import (
	"encoding/json"
	"fmt"
	"math"
	"math/rand"
	"os"
	"runtime"
	"sync"
	"sync/atomic"
	"testing"
	"time"

	"github.com/acquirecloud/golibs/timeout"

	"verifharness/internal/report"
	"verifharness/internal/shard"
	"verifharness/internal/tmon"
)

func TestMain(m *testing.M) { os.Exit(report.ExitCode(m.Run())) }

type roundCfg struct {
	Seed       int64         `json:"seed"`
	Idle       time.Duration `json:"idle"`
	MaxWorkers int           `json:"max_workers"`
	Callers    int           `json:"callers"`
	PerCaller  int           `json:"calls_per_caller"`
	Mode       string        `json:"mode"` // mixed busy saturated winddown equal
	// Native: the round runs on the package state that the package's own init() built (pool limit 10); only the
	// idle timeout is changed. Otherwise the hook builds a fresh state with the pool limit of the round.
	Native bool `json:"native,omitempty"`
}

func genRound(seed int64, i int) roundCfg {
	rng := rand.New(rand.NewSource(seed*1_000_003 + int64(i)))
	c := roundCfg{Seed: seed*1_000_003 + int64(i)}
	c.Idle = []time.Duration{20 * time.Millisecond, 20 * time.Millisecond, 50 * time.Millisecond}[rng.Intn(3)]
	c.MaxWorkers = []int{1, 2, 10, 10}[rng.Intn(4)]
	c.Callers = []int{1, 2, 4, 8, 16, 32}[rng.Intn(6)]
	c.PerCaller = 8 + rng.Intn(24)
	c.Mode = []string{"mixed", "mixed", "busy", "saturated", "winddown", "equal"}[rng.Intn(6)]
	return c
}

func runRound(c roundCfg) (fs []tmon.Finding, nFut int, stats map[string]int64, inconclusive string) {
	stats = map[string]int64{}
	if c.Native {
		timeout.VerifSetIdle(c.Idle)
	} else {
		timeout.VerifReset(c.Idle, c.MaxWorkers)
	}
	mon := tmon.New()
	var heapErr atomic.Value
	stop := make(chan struct{})
	var hwg sync.WaitGroup
	hwg.Add(1)
	var heapChecks int64
	go func() { // structure monitor
		defer hwg.Done()
		r := rand.New(rand.NewSource(c.Seed ^ 0x5ca1ab1e))
		for {
			select {
			case <-stop:
				return
			default:
			}
			if err := timeout.VerifCheckHeap(); err != nil && heapErr.Load() == nil {
				heapErr.Store(err.Error())
			}
			heapChecks++
			time.Sleep(time.Duration(50+r.Intn(400)) * time.Microsecond)
		}
	}()
	var lmu sync.Mutex
	var later []*tmon.Fut // futures left for somebody else to cancel
	var wg sync.WaitGroup
	equalD := time.Duration(3+c.Seed%5) * time.Millisecond
	for g := 0; g < c.Callers; g++ {
		wg.Add(1)
		go func(g int) {
			defer wg.Done()
			r := rand.New(rand.NewSource(c.Seed*131 + int64(g)))
			for i := 0; i < c.PerCaller; i++ {
				var d, block time.Duration
				far := false
				switch x := r.Intn(100); {
				case x < 6:
					d = -time.Duration(r.Intn(5000)) * time.Microsecond
				case x < 14:
					d = 0
				case x < 30 || c.Mode == "equal" && x < 80:
					d = equalD
				case x < 90:
					d = time.Duration(1000+r.Intn(49000)) * time.Microsecond
				case x < 96:
					d = time.Duration(10+r.Intn(50)) * time.Second
					far = true
				default:
					// "never": the largest durations there are (and a few hundred years); must not start
					d = []time.Duration{math.MaxInt64, math.MaxInt64 - 1, math.MaxInt64 - time.Duration(r.Int63n(int64(2*time.Millisecond))), 290 * 365 * 24 * time.Hour, math.MaxInt64 / 2}[r.Intn(5)]
					far = true
				}
				switch c.Mode {
				case "busy":
					if r.Intn(3) == 0 {
						block = time.Duration(1+r.Intn(20)) * time.Millisecond
					}
				case "saturated":
					d, far = equalD, false
					block = time.Duration(1+r.Intn(8)) * time.Millisecond
				}
				fu := mon.Call(d, block, far)
				// cancellation patterns
				switch y := r.Intn(100); {
				case far && y < 40:
					mon.Cancel(fu)
				case far:
					lmu.Lock()
					later = append(later, fu)
					lmu.Unlock()
				case y < 12: // at once (front/middle/back of the queue, whatever it is now)
					mon.Cancel(fu)
				case y < 18: // twice
					mon.Cancel(fu)
					mon.Cancel(fu)
				case y < 30: // by somebody else, later
					lmu.Lock()
					later = append(later, fu)
					lmu.Unlock()
				case y < 36: // after it fired
					go func() {
						time.Sleep(d + 5*time.Millisecond)
						mon.Cancel(fu)
					}()
				}
				// cancel something another goroutine left
				if r.Intn(4) == 0 {
					lmu.Lock()
					var victim *tmon.Fut
					if n := len(later); n > 0 {
						k := r.Intn(n)
						victim = later[k]
						if r.Intn(3) != 0 { // sometimes leave it for a second Cancel
							later = append(later[:k], later[k+1:]...)
						}
					}
					lmu.Unlock()
					if victim != nil {
						mon.Cancel(victim)
					}
				}
				switch {
				case c.Mode == "winddown" && r.Intn(4) == 0:
					time.Sleep(c.Idle + time.Duration(r.Intn(int(2*c.Idle))))
				case r.Intn(3) == 0:
					time.Sleep(time.Duration(r.Intn(3000)) * time.Microsecond)
				case r.Intn(2) == 0:
					runtime.Gosched()
				}
			}
		}(g)
	}
	wg.Wait()
	// nothing is issued any more; whatever is far must go
	for _, fu := range mon.Futures() {
		if fu.Far {
			mon.Cancel(fu)
		}
	}
	time.Sleep(60 * time.Millisecond) // let the "after it fired" cancellers run (not a verdict)
	final, lost := tmon.Drain(60 * time.Second)
	close(stop)
	hwg.Wait()
	stats["heap_checks"] = heapChecks
	if !final {
		return nil, len(mon.Futures()), stats, "drain watchdog: " + lost
	}
	if lost != "" {
		fs = append(fs, tmon.Finding{Sig: "timer/pending-without-worker", What: lost})
	}
	if e := heapErr.Load(); e != nil {
		fs = append(fs, tmon.Finding{Sig: "timer/heap-invariant", What: "the queue invariant was broken under the package lock: " + e.(string)})
	}
	jf, worst := mon.Judge(0)
	fs = append(fs, jf...)
	stats["worst_lateness_us"] = int64(worst / time.Microsecond)
	for _, f := range mon.Futures() {
		switch {
		case f.Started() > 0 && len(f.Cancels()) > 0:
			stats["started_and_cancelled_later"]++
		case f.Started() > 0:
			stats["started"]++
		case len(f.Cancels()) > 0:
			stats["cancelled_never_started"]++
		}
		if f.D <= 0 {
			stats["zero_or_negative_delay"]++
		}
		if len(f.Cancels()) > 1 {
			stats["cancelled_more_than_once"]++
		}
	}
	return fs, len(mon.Futures()), stats, ""
}

func nRounds(run *report.Run) int {
	if os.Getenv("VERIF_PASS") == "asynctimerchan" {
		return run.Pick(200, 800)
	}
	return run.Pick(640, 24000)
}

// TestChildGoexit: tmon.GoexitScenario in a child of its own.
func TestChildGoexit(t *testing.T) {
	idx, _, _, ok := shard.Child()
	if !ok {
		t.Skip("not a shard child")
	}
	res := shard.NewResult()
	defer shard.Emit(res)
	sig, what, phase, evals := tmon.GoexitScenario(idx)
	res.Evals += int64(evals)
	if sig != "" {
		res.Violation(sig, what, map[string]any{"scenario": "goexit", "phase": phase, "variant": idx % 3})
		return
	}
	res.Counters["goexit_children"]++
	res.Counters["callbacks_that_ended_their_goroutine"] += 21
	res.Classes = append(res.Classes, fmt.Sprintf("goexit-child-%d", idx%3))
}

// TestChild runs one shard of rounds (the timer package's state is per process).
func TestChild(t *testing.T) {
	idx, total, _, ok := shard.Child()
	if !ok {
		t.Skip("not a shard child")
	}
	run := report.New("C12", "exploration")
	res := shard.NewResult()
	n := nRounds(run)
	for i := idx; i < n; i += total {
		c := genRound(run.Seed(), i)
		if idx%4 == 0 { // every fourth child never replaces the package state
			c.Native, c.MaxWorkers = true, 10
		}
		fs, nf, stats, inc := runRound(c)
		res.Evals += int64(nf)
		res.Counters["rounds"]++
		if c.Native {
			res.Counters["rounds_on_the_package_own_initial_state"]++
		}
		res.Counters["rounds_"+c.Mode]++
		for k, v := range stats {
			if k == "worst_lateness_us" {
				if v > res.Maxes[k] {
					res.Maxes[k] = v
				}
				continue
			}
			res.Counters[k] += v
		}
		b, _ := json.Marshal(c)
		res.Classes = append(res.Classes, string(b))
		if inc != "" {
			res.Inconcl = append(res.Inconcl, fmt.Sprintf("round %d: %s", i, inc))
			break
		}
		for _, f := range fs {
			res.Violation(f.Sig, f.What, map[string]any{"round": c, "future": f.Fut})
		}
		if len(fs) > 0 {
			break // the package state may be damaged
		}
		if i < 2 {
			res.Samples = append(res.Samples, c)
		}
	}
	shard.Emit(res)
}

func TestCheck(t *testing.T) {
	run := report.New("C12", "exploration")
	defer run.Finish(t)
	run.Rule("rounds on the real clock: 1-32 goroutines issue Call with delays from {negative, 0, one equal value, 1-50 ms, 10-60 s, and 'never' (MaxInt64 and neighbours, centuries; always cancelled)}, callbacks that return at once or block 1-20 ms, pool limit 1/2/10, idle timeout 20/50 ms (hook), modes mixed/busy/saturated/winding-down/equal-delays; cancellation at once, twice, later by another goroutine, after firing. Per future: start >= call time + delay (one-sided), started at most once, never started if a Cancel returned before it was due, started if never cancelled - decided after the drain detector saw the final state (nothing pending, no worker, read under the package lock); the heap-index invariant hook is sampled concurrently. evaluations = futures; distinct = distinct round configurations")
	run.Assume("never-early compares the callback's start with a timestamp taken before Call, so machine load cannot produce a false alarm; lateness is only reported, not judged (C13)")

	if p := os.Getenv("VERIF_REPLAY"); p != "" {
		replay(run, p)
		return
	}
	nsh := runtime.NumCPU()
	if run.Thorough() {
		nsh = 2 * runtime.NumCPU() // rounds mostly sleep
	}
	gx := make(chan struct{})
	go func() {
		defer close(gx)
		for c := range shard.Run(run, "TestChildGoexit", "goexit", 3, 5*time.Minute) {
			run.DistinctStr(c)
		}
	}()
	defer func() { <-gx }()
	for c := range shard.Run(run, "TestChild", "rounds", nsh, 45*time.Minute) {
		run.DistinctStr(c)
	}
}

func replay(run *report.Run, path string) {
	b, err := os.ReadFile(path)
	if err != nil {
		run.Inconclusive("cannot read replay file: " + err.Error())
		return
	}
	var doc struct {
		Witness struct {
			Round roundCfg `json:"round"`
		} `json:"witness"`
	}
	if err := json.Unmarshal(b, &doc); err != nil || doc.Witness.Round.Callers == 0 {
		run.Inconclusive("cannot parse replay file")
		return
	}
	run.DistinctAdd(2)
	run.Sample(doc.Witness.Round)
	for i := 0; i < 20; i++ { // real scheduling: repeat the round configuration
		fs, nf, _, inc := runRound(doc.Witness.Round)
		run.Eval(nf)
		if inc != "" {
			run.Inconclusive(inc)
			return
		}
		for _, f := range fs {
			run.Violation(f.Sig, f.What, map[string]any{"round": doc.Witness.Round, "future": f.Fut})
		}
		if len(fs) > 0 {
			return
		}
	}
	fmt.Println("REPLAY: no violation on this tree")
}
