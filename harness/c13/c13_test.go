// C13 — timers: every live future fires; the pool adapts and winds down (DESIGN §3 C13).
// Real clock. Bounded-progress restatement: with callbacks that return at once every non-cancelled future
// starts within B of its due time, and once nothing is pending the worker count reaches 0 (hook + goroutine
// census) within (pool limit + 3) idle periods + slack; both bounds are guarded by a stall canary. Lost
// futures are decided logically by the drain detector (pending > 0 with no worker is final).
package c13

import (
	"encoding/json"
	"fmt"
	"math"
	"math/rand"
	"os"
	"runtime"
	"sort"
	"strings"
	"sync"
	"sync/atomic"
	"testing"
	"time"

	"github.com/acquirecloud/golibs/timeout"

	"verifharness/internal/report"
	"verifharness/internal/shard"
	"verifharness/internal/tmon"
)

func TestMain(m *testing.M) { os.Exit(report.ExitCode(m.Run())) }

const lateBound = 1500 * time.Millisecond

type scen struct {
	Order      []string      `json:"order"` // permutation of far near burst cancelhead idlegap
	Callers    int           `json:"callers"`
	Idle       time.Duration `json:"idle"`
	MaxWorkers int           `json:"max_workers"`
	// PauseBeforeNear lets a burst finish and the grown pool go idle (not wind down) before "near" is issued
	PauseBeforeNear time.Duration `json:"pause_before_near,omitempty"`
	Trials          int           `json:"trials,omitempty"` // idleedge only
	// Native: runs on the package state built by the package's own init() (pool limit 10; only the idle timeout is
	// changed through the hook) instead of a fresh state built by the hook
	Native bool `json:"native,omitempty"`
}

var elements = []string{"far", "near", "burst", "cancelhead", "idlegap"}

func perms(a []string) [][]string {
	if len(a) <= 1 {
		return [][]string{append([]string(nil), a...)}
	}
	var res [][]string
	for i := range a {
		rest := append(append([]string(nil), a[:i]...), a[i+1:]...)
		for _, p := range perms(rest) {
			res = append(res, append([]string{a[i]}, p...))
		}
	}
	return res
}

func scenarios(run *report.Run) []scen {
	all := perms(elements)
	var res []scen
	idles := []time.Duration{20 * time.Millisecond, 200 * time.Millisecond}
	if run.Thorough() {
		idles = append(idles, 5*time.Second)
	}
	for pi, p := range all {
		if !run.Thorough() && (pi+int(run.Seed()))%5 != 0 { // 24 of the 120 orders in the quick tier
			continue
		}
		for _, callers := range []int{1, 4} {
			for ii, idle := range idles {
				for wi, mw := range []int{1, 2, 10} {
					if idle >= 200*time.Millisecond && !run.Thorough() && (pi+wi+callers)%3 != 0 {
						continue // the slower configurations are sampled in the quick tier
					}
					if idle >= 5*time.Second && (pi+wi+ii+callers)%6 != 0 {
						continue
					}
					res = append(res, scen{Order: p, Callers: callers, Idle: idle, MaxWorkers: mw})
				}
			}
		}
	}
	// a missed or misdirected wake-up costs up to one idle timeout: with a long idle timeout it becomes
	// visible as lateness. Short patterns (no idle gap, which would take 12 s) in every tier.
	for _, p := range [][]string{{"burst", "near"}, {"far", "burst", "near"}, {"burst", "cancelhead", "near"}, {"burst", "near", "burst", "near"}, {"burst", "pause", "mid", "near"}, {"mid", "burst", "pause", "near", "near"}} {
		for _, callers := range []int{1, 4} {
			for _, mw := range []int{2, 10} {
				res = append(res, scen{Order: p, Callers: callers, Idle: 3 * time.Second, MaxWorkers: mw, PauseBeforeNear: 300 * time.Millisecond})
			}
		}
	}
	// pool wind-down under lock contention: a far future stays pending, a blocking burst grows the pool to its
	// limit, then all surplus workers leave at about the same time while four goroutines hammer the package
	// lock (hook reads). Exactly one worker has to stay as long as the far future is pending.
	// long watchdogs mixed with short calls, watchdogs cancelled from the middle of the queue
	for _, p := range [][]string{{"watchdogs", "near", "cancelwatchdog", "near", "burst", "near"}, {"near", "watchdogs", "burst", "cancelwatchdog", "near", "near"}, {"watchdogs", "cancelwatchdog", "near", "cancelhead", "near"}} {
		for _, callers := range []int{1, 4} {
			for _, mw := range []int{1, 10} {
				res = append(res, scen{Order: p, Callers: callers, Idle: 20 * time.Millisecond, MaxWorkers: mw})
			}
		}
	}
	// calls landing at the very moment the last worker gives up for idleness (about two idle periods after its
	// last callback): the queue invariant (pending>0 => a worker exists) is checked after every trial
	for rep := 0; rep < run.Pick(4, 16); rep++ {
		res = append(res, scen{Order: []string{"idleedge"}, Callers: 1 + rep%4, Idle: []time.Duration{300, 150, 600, 1000}[rep/4%4] * time.Microsecond, MaxWorkers: 1 + rep%3, Trials: run.Pick(2500, 10000)})
	}
	for rep := 0; rep < run.Pick(16, 32) && os.Getenv("VERIF_PASS") == "asynctimerchan"; rep++ { // old timer-channel semantics only
		res = append(res, scen{Order: []string{"stalephase"}, Callers: 1, Idle: 400 * time.Millisecond, MaxWorkers: 2, Trials: run.Pick(8, 40) + rep})
	}
	for rep := 0; rep < run.Pick(3, 8); rep++ {
		res = append(res, scen{Order: []string{"rendezvous"}, Callers: 1, Idle: []time.Duration{20, 200}[rep%2] * time.Millisecond, MaxWorkers: []int{10, 2, 5}[rep%3], Trials: run.Pick(10, 40)})
	}
	for rep := 0; rep < run.Pick(3, 9); rep++ {
		res = append(res, scen{Order: []string{"chase"}, Callers: 1, Idle: 3 * time.Second, MaxWorkers: 1 + rep%3, Trials: run.Pick(20000, 200000)})
	}
	for rep := 0; rep < run.Pick(2, 8); rep++ {
		res = append(res, scen{Order: []string{"idleconvoy"}, Callers: 1, Idle: []time.Duration{40, 80, 25, 60}[rep%4] * time.Millisecond, MaxWorkers: 1 + rep%3, Trials: run.Pick(4, 10)})
	}
	for _, mw := range []int{2, 10} {
		for rep := 0; rep < run.Pick(3, 12); rep++ {
			res = append(res, scen{Order: []string{"contended"}, Callers: 1 + rep%3, Idle: 20 * time.Millisecond, MaxWorkers: mw})
		}
	}
	return res
}

// idleEdge: see scenarios().
func idleEdge(sc scen) (fs []tmon.Finding, nFut int, stats map[string]int64, inconclusive string) {
	stats = map[string]int64{}
	setup(sc)
	mon := tmon.New()
	rng := rand.New(rand.NewSource(int64(sc.Callers)*7919 + int64(sc.Idle)))
	started := func(fus []*tmon.Fut, limit time.Duration) bool {
		t0 := time.Now()
		for {
			open := false
			for _, f := range fus {
				if f.Started() == 0 {
					open = true
				}
			}
			if !open {
				return true
			}
			if time.Since(t0) > limit {
				return false
			}
			runtime.Gosched()
		}
	}
	// calibration: when, after its last callback, does the last worker actually leave? (observed through the
	// hook; whatever the number of idle rounds is, the trials aim at the observed moment)
	var offs []time.Duration
	for i := 0; i < 40; i++ {
		first := mon.Call(0, 0, false)
		if !started([]*tmon.Fut{first}, lateBound+time.Second) {
			break
		}
		fired := time.Now()
		for {
			if w, p := timeout.VerifState(); w == 0 && p == 0 {
				offs = append(offs, time.Since(fired))
				break
			}
			if time.Since(fired) > 10*time.Second {
				return nil, len(mon.Futures()), stats, "idle-edge calibration: the worker did not leave within 10 s"
			}
		}
	}
	if len(offs) < 40 {
		jf, _ := mon.Judge(lateBound)
		return jf, len(mon.Futures()), stats, ""
	}
	sort.Slice(offs, func(i, j int) bool { return offs[i] < offs[j] })
	lo, hi := offs[4]-80*time.Microsecond, offs[35]+10*time.Microsecond
	stats["idle_edge_exit_offset_p10_us"], stats["idle_edge_exit_offset_p90_us"] = int64(offs[4]/time.Microsecond), int64(offs[35]/time.Microsecond)
	for tr := 0; tr < sc.Trials; tr++ {
		first := mon.Call(0, 0, false)
		if !started([]*tmon.Fut{first}, lateBound+time.Second) {
			break
		}
		fired := time.Now()
		target := lo + time.Duration(rng.Int63n(int64(hi-lo)))
		fus := make([]*tmon.Fut, sc.Callers)
		var wg sync.WaitGroup
		for c := 0; c < sc.Callers; c++ {
			wg.Add(1)
			go func(c int) {
				defer wg.Done()
				for time.Since(fired) < target {
				}
				fus[c] = mon.Call(0, 0, false)
			}(c)
		}
		wg.Wait()
		stats["idle_edge_trials"]++
		if err := timeout.VerifCheckHeap(); err != nil {
			fs = append(fs, tmon.Finding{Sig: "timer/heap-invariant", What: fmt.Sprintf("a Call landed while the last worker was leaving for idleness (idle timeout %v, trial %d): the queue invariant (pending>0 => a worker exists) is broken: %v", sc.Idle, tr, err)})
			break
		}
		if !started(fus, lateBound+time.Second) {
			break
		}
	}
	if len(fs) > 0 {
		// nothing would ever start the stranded futures: empty the queue so that the process can go on
		timeout.VerifDrain()
		return fs, len(mon.Futures()), stats, ""
	}
	final, lost := tmon.Drain(60 * time.Second)
	if !final {
		return nil, len(mon.Futures()), stats, "drain watchdog after idle-edge trials: " + lost
	}
	if lost != "" {
		fs = append(fs, tmon.Finding{Sig: "timer/pending-without-worker", What: lost})
	}
	jf, worst := mon.Judge(lateBound)
	fs = append(fs, jf...)
	stats["worst_lateness_us"] = int64(worst / time.Microsecond)
	return fs, len(mon.Futures()), stats, ""
}

var setupMu sync.RWMutex // VerifReset replaces the package state: the lock probe must not read it meanwhile

func setup(sc scen) {
	setupMu.Lock()
	defer setupMu.Unlock()
	if sc.Native {
		timeout.VerifSetIdle(sc.Idle)
		return
	}
	timeout.VerifReset(sc.Idle, sc.MaxWorkers)
}

// nativeScenarios run in children that never replace the package state.
func nativeScenarios(run *report.Run) []scen {
	var res []scen
	for _, sc := range scenarios(run) {
		if sc.MaxWorkers != 10 {
			continue
		}
		switch sc.Order[0] {
		case "chase", "idleconvoy", "idleedge", "contended", "rendezvous":
		default:
			if len(res)%3 != 0 && sc.Idle > 200*time.Millisecond {
				continue
			}
		}
		sc.Native = true
		res = append(res, sc)
	}
	for rep := 0; rep < 3; rep++ {
		res = append(res, scen{Order: []string{"chase"}, Callers: 1, Idle: 3 * time.Second, MaxWorkers: 10, Trials: run.Pick(20000, 200000), Native: true})
	}
	return res
}

// rendezvous: k futures become due together and each callback waits (up to 300 ms) until all k are running: the
// pool grows by what the backlog visible at pop time needs. The statement bounds the lateness only for callbacks
// that return promptly - these do not (a future that becomes due microseconds after a worker went off into a
// waiting callback is served when that callback gives up, on the unchanged library too) - so only "every one of
// them is started eventually" is judged: within k waits + the usual bound.
func rendezvous(sc scen) (fs []tmon.Finding, nFut int, stats map[string]int64, inconclusive string) {
	stats = map[string]int64{}
	setup(sc)
	mon := tmon.New()
	var mu sync.Mutex
	var need int
	var arrived int
	var all chan struct{}
	mon.OnStart = func(*tmon.Fut) {
		mu.Lock()
		arrived++
		ch := all
		if arrived == need {
			close(all)
		}
		mu.Unlock()
		select {
		case <-ch:
		case <-time.After(300 * time.Millisecond):
		}
	}
	for tr := 0; tr < sc.Trials; tr++ {
		k := []int{2, 3, 5, 2, 4}[tr%5]
		if k > sc.MaxWorkers {
			k = sc.MaxWorkers
		}
		mu.Lock()
		need, arrived, all = k, 0, make(chan struct{})
		ch := all
		mu.Unlock()
		for i := 0; i < k; i++ {
			mon.Call(5*time.Millisecond, 0, false)
		}
		select {
		case <-ch:
		case <-time.After(5*300*time.Millisecond + lateBound):
		}
		stats["rendezvous_bursts"]++
		final, lost := tmon.Drain(60 * time.Second)
		if !final {
			return nil, len(mon.Futures()), stats, "drain watchdog after a rendezvous burst: " + lost
		}
		if lost != "" {
			fs = append(fs, tmon.Finding{Sig: "timer/pending-without-worker", What: lost})
			break
		}
	}
	jf, worst := mon.Judge(5*300*time.Millisecond + lateBound)
	fs = append(fs, jf...)
	stats["worst_lateness_with_waiting_callbacks_us"] = int64(worst / time.Microsecond)
	return fs, len(mon.Futures()), stats, ""
}

// stalePhase: two idle workers out of phase by half an idle timeout (400 ms); a job 30 ms ahead is scheduled at
// the very moment the older sleeper's idle timer expires (swept by +-100 us), so that its wake-up and its timer
// tick arrive together. Whoever takes the wake-up has to serve the job on time: with callbacks that return at
// once it must start within 100 ms of its due time (healthy: < 5 ms; a worker that goes away on a stale tick
// leaves it to the other worker's idle round, about 170 ms later). Trials during which the canary saw a stall
// above 25 ms are discarded. Meaningful under the old timer-channel semantics (pass asynctimerchan).
func stalePhase(sc scen) (fs []tmon.Finding, nFut int, stats map[string]int64, inconclusive string) {
	stats = map[string]int64{}
	setup(sc)
	rng := rand.New(rand.NewSource(int64(sc.Trials)*31 + int64(sc.MaxWorkers)))
	total := 0
	for tr := 0; tr < sc.Trials; tr++ {
		mon := tmon.New()
		cn := tmon.StartCanary()
		// two workers: two jobs due together, each busy for 2 ms
		a, b := mon.Call(time.Millisecond, 2*time.Millisecond, false), mon.Call(time.Millisecond, 2*time.Millisecond, false)
		t0 := time.Now()
		for a.Started() == 0 || b.Started() == 0 {
			if time.Since(t0) > lateBound+time.Second {
				break
			}
			time.Sleep(100 * time.Microsecond)
		}
		time.Sleep(3 * time.Millisecond)
		idleFrom := time.Now() // both workers are idle from about now on
		time.Sleep(sc.Idle / 2)
		mon.Call(0, 0, false) // one of them serves this and starts its idle period anew
		target := idleFrom.Add(sc.Idle + time.Duration(rng.Intn(200)-100)*time.Microsecond)
		for time.Now().Before(target) {
		}
		n := mon.Call(30*time.Millisecond, 0, false)
		final, lost := tmon.Drain(60 * time.Second)
		stall := cn.Stop()
		total += len(mon.Futures())
		if !final {
			return nil, total, stats, "drain watchdog after a stale-phase trial: " + lost
		}
		stats["stale_phase_trials"]++
		if stall > 25*time.Millisecond {
			stats["stale_phase_trials_discarded_for_a_stall"]++
			continue
		}
		if n.Started() == 0 {
			fs = append(fs, tmon.Finding{Sig: "timer/never-started", What: "the job scheduled at an idle-timer expiry was never started"})
			break
		}
		if late := n.StartAt() - n.Due(); late > 100*time.Millisecond {
			fs = append(fs, tmon.Finding{Sig: "timer/late-after-wake-up-at-idle-expiry", What: fmt.Sprintf("two idle workers, out of phase by %v; a job 30 ms ahead was scheduled at the moment the older sleeper's idle timer expired: it started %v late (healthy < 5 ms, bound 100 ms, canary stall %v)", sc.Idle/2, late, stall), TimeBound: true})
			break
		}
	}
	return fs, total, stats, ""
}

// chase: a goroutine schedules the next call the moment it sees the previous callback run (swept by 0..2 us):
// its wake-up reaches the only worker while that worker is on its way from the callback back to sleep. With a
// 3 s idle timeout a wake-up that gets lost there shows as seconds of lateness.
func chase(sc scen) (fs []tmon.Finding, nFut int, stats map[string]int64, inconclusive string) {
	stats = map[string]int64{}
	setup(sc)
	mon := tmon.New()
	started := func(f *tmon.Fut) bool {
		t0 := time.Now()
		for n := 0; f.Started() == 0; n++ {
			if n%1024 == 1023 && time.Since(t0) > lateBound+time.Second {
				return false
			}
		}
		return true
	}
	var sink atomic.Int64
	for tr := 0; tr < sc.Trials; tr++ {
		first := mon.Call(0, 0, false)
		if !started(first) {
			break
		}
		for i := 0; i < (tr%128)*4; i++ {
			sink.Add(1)
		}
		second := mon.Call(0, 0, false)
		stats["chase_trials"]++
		if !started(second) {
			break
		}
		if tr%16 == 15 { // now and then let the worker really go to sleep
			time.Sleep(50 * time.Microsecond)
		}
	}
	final, lost := tmon.Drain(60*time.Second + 4*sc.Idle)
	if !final {
		return nil, len(mon.Futures()), stats, "drain watchdog after chase trials: " + lost
	}
	if lost != "" {
		fs = append(fs, tmon.Finding{Sig: "timer/pending-without-worker", What: lost})
	}
	jf, worst := mon.Judge(lateBound)
	fs = append(fs, jf...)
	stats["worst_lateness_us"] = int64(worst / time.Microsecond)
	return fs, len(mon.Futures()), stats, ""
}

// idleConvoy: a lock convoy at the moment the last worker gives up for idleness. The harness holds the package
// lock (hook) while first a caller of Call and then the expiring worker queue up on it; the lock is released
// with one barging re-lock, which puts the mutex into its FIFO hand-off mode (caller, worker, caller ...).
// Afterwards the queue invariant must hold and the future must start.
func idleConvoy(sc scen) (fs []tmon.Finding, nFut int, stats map[string]int64, inconclusive string) {
	stats = map[string]int64{}
	setup(sc)
	mon := tmon.New()
	waitStarted := func(f *tmon.Fut, limit time.Duration) bool {
		t0 := time.Now()
		for f.Started() == 0 {
			if time.Since(t0) > limit {
				return false
			}
			time.Sleep(200 * time.Microsecond)
		}
		return true
	}
	// calibration: the moment the last worker leaves after its last callback (observed through the hook)
	var exit time.Duration
	for i := 0; i < 3; i++ {
		first := mon.Call(0, 0, false)
		if !waitStarted(first, lateBound+time.Second) {
			jf, _ := mon.Judge(lateBound)
			return jf, len(mon.Futures()), stats, ""
		}
		fired := time.Now()
		for {
			if w, p := timeout.VerifState(); w == 0 && p == 0 {
				break
			}
			if time.Since(fired) > 20*sc.Idle+10*time.Second {
				return nil, len(mon.Futures()), stats, "idle-convoy calibration: the worker did not leave"
			}
			time.Sleep(200 * time.Microsecond)
		}
		if d := time.Since(fired); i == 0 || d < exit {
			exit = d
		}
	}
	stats["idle_convoy_exit_offset_ms"] = int64(exit / time.Millisecond)
	margin := sc.Idle / 4
	for tr := 0; tr < sc.Trials; tr++ {
		first := mon.Call(0, 0, false)
		if !waitStarted(first, lateBound+time.Second) {
			break
		}
		fired := time.Now()
		time.Sleep(time.Until(fired.Add(exit - margin)))
		locked, release := make(chan struct{}), make(chan struct{})
		holder := make(chan struct{})
		go func() {
			timeout.VerifWithLock(func() { close(locked); <-release })
			// barge once: the woken waiter finds the lock taken again and turns the mutex to FIFO hand-off
			timeout.VerifWithLock(func() { time.Sleep(3 * time.Millisecond) })
			close(holder)
		}()
		<-locked
		var fu *tmon.Fut
		called := make(chan struct{})
		go func() { fu = mon.Call(0, 0, false); close(called) }() // queues up on the lock
		time.Sleep(time.Until(fired.Add(exit + margin)))          // by now the worker has woken up and queued behind the caller
		close(release)
		<-holder
		<-called
		stats["idle_convoy_trials"]++
		if err := timeout.VerifCheckHeap(); err != nil {
			fs = append(fs, tmon.Finding{Sig: "timer/heap-invariant", What: fmt.Sprintf("lock convoy while the last worker was leaving for idleness (idle timeout %v, trial %d: the harness held the package lock while a Call and then the expiring worker queued up on it): the queue invariant (pending>0 => a worker exists) is broken: %v", sc.Idle, tr, err)})
			break
		}
		if !waitStarted(fu, lateBound+time.Second) {
			break
		}
	}
	if len(fs) > 0 {
		timeout.VerifDrain() // nothing would ever start the stranded future
		return fs, len(mon.Futures()), stats, ""
	}
	final, lost := tmon.Drain(60 * time.Second)
	if !final {
		return nil, len(mon.Futures()), stats, "drain watchdog after idle-convoy trials: " + lost
	}
	if lost != "" {
		fs = append(fs, tmon.Finding{Sig: "timer/pending-without-worker", What: lost})
	}
	jf, worst := mon.Judge(lateBound)
	fs = append(fs, jf...)
	stats["worst_lateness_us"] = int64(worst / time.Microsecond)
	return fs, len(mon.Futures()), stats, ""
}

// contendedWindDown: see scenarios().
func contendedWindDown(sc scen) (fs []tmon.Finding, nFut int, stats map[string]int64, inconclusive string) {
	stats = map[string]int64{}
	for round := 0; round < 25; round++ {
		setup(sc)
		mon := tmon.New()
		stop := make(chan struct{})
		var lost atomic.Value
		var hwg sync.WaitGroup
		for g := 0; g < 4; g++ {
			hwg.Add(1)
			go func() {
				defer hwg.Done()
				for {
					select {
					case <-stop:
						return
					default:
					}
					if err := timeout.VerifCheckHeap(); err != nil && lost.Load() == nil {
						lost.Store(err.Error())
					}
				}
			}()
		}
		far := mon.Call(30*time.Second, 0, true)
		var wg sync.WaitGroup
		for c := 0; c < sc.Callers; c++ {
			wg.Add(1)
			go func() {
				defer wg.Done()
				for i := 0; i < 60; i++ {
					mon.Call(time.Millisecond, 2*time.Millisecond, false)
				}
			}()
		}
		wg.Wait()
		// the burst drains, the surplus workers wind down; with the far future pending one worker must stay
		deadline := time.Now().Add(60 * time.Second)
		for {
			w, p := timeout.VerifState()
			if w > int(stats["max_workers_seen"]) {
				stats["max_workers_seen"] = int64(w)
			}
			if (p == 1 && w <= 1) || lost.Load() != nil {
				break
			}
			if time.Now().After(deadline) {
				close(stop)
				hwg.Wait()
				mon.Cancel(far)
				return nil, nFut, stats, fmt.Sprintf("contended wind-down: workers=%d pending=%d after 60 s", w, p)
			}
			time.Sleep(500 * time.Microsecond)
		}
		time.Sleep(3 * sc.Idle) // stay there for a few idle periods: the last worker must not leave
		w, p := timeout.VerifState()
		close(stop)
		hwg.Wait()
		nFut += len(mon.Futures())
		if e := lost.Load(); e != nil {
			fs = append(fs, tmon.Finding{Sig: "timer/heap-invariant", What: "under lock contention during the pool wind-down the queue invariant (pending>0 => a worker exists) was broken: " + e.(string)})
		} else if p >= 1 && w < 1 {
			fs = append(fs, tmon.Finding{Sig: "timer/pending-without-worker", What: fmt.Sprintf("after the surplus workers left: %d future pending and %d workers", p, w)})
		}
		mon.Cancel(far)
		if final, l := tmon.Drain(60 * time.Second); !final {
			return fs, nFut, stats, "drain watchdog after contended wind-down: " + l
		}
		jf, _ := mon.Judge(0)
		fs = append(fs, jf...)
		if len(fs) > 0 {
			return fs, nFut, stats, ""
		}
	}
	return fs, nFut, stats, ""
}

func runScenario(sc scen) (fs []tmon.Finding, nFut int, stats map[string]int64, inconclusive string) {
	if len(sc.Order) == 1 && sc.Order[0] == "contended" {
		return contendedWindDown(sc)
	}
	if len(sc.Order) == 1 && sc.Order[0] == "stalephase" {
		return stalePhase(sc)
	}
	if len(sc.Order) == 1 && sc.Order[0] == "rendezvous" {
		return rendezvous(sc)
	}
	if len(sc.Order) == 1 && sc.Order[0] == "chase" {
		return chase(sc)
	}
	if len(sc.Order) == 1 && sc.Order[0] == "idleconvoy" {
		return idleConvoy(sc)
	}
	if len(sc.Order) == 1 && sc.Order[0] == "idleedge" {
		return idleEdge(sc)
	}
	stats = map[string]int64{}
	setup(sc)
	mon := tmon.New()
	var heapErr atomic.Value
	stop := make(chan struct{})
	var hwg sync.WaitGroup
	hwg.Add(1)
	go func() {
		defer hwg.Done()
		for {
			select {
			case <-stop:
				return
			default:
			}
			if err := timeout.VerifCheckHeap(); err != nil && heapErr.Load() == nil {
				heapErr.Store(err.Error())
			}
			time.Sleep(300 * time.Microsecond)
		}
	}()
	var maxWorkersSeen int64
	var watchdogs []*tmon.Fut
	for ei, el := range sc.Order {
		if el == "near" && sc.PauseBeforeNear > 0 {
			time.Sleep(sc.PauseBeforeNear)
		}
		if ei > 0 && (ei+sc.Callers)%2 == 0 {
			// late and repeated cancels: futures that have fired or were cancelled already are cancelled (again);
			// whatever is scheduled afterwards must not be affected
			for _, f := range mon.Futures() {
				if f.Started() > 0 || len(f.Cancels()) > 0 {
					mon.Cancel(f)
				}
			}
		}
		switch el {
		case "watchdogs":
			// several long timeouts with different deadlines (the far part of the queue gets a shape)
			for i, d := range []time.Duration{40, 90, 50, 80, 60, 70, 45} {
				_ = i
				watchdogs = append(watchdogs, mon.Call(d*time.Second, 0, true))
			}
			continue
		case "cancelwatchdog":
			// cancel watchdogs from the middle / the leaves of the queue, not the head
			for _, i := range []int{3, 1} {
				if i < len(watchdogs) && len(watchdogs[i].Cancels()) == 0 {
					mon.Cancel(watchdogs[i])
				}
			}
			continue
		}
		var wg sync.WaitGroup
		for c := 0; c < sc.Callers; c++ {
			wg.Add(1)
			go func(c int) {
				defer wg.Done()
				switch el {
				case "far":
					if (len(sc.Order)+sc.Callers+sc.MaxWorkers)%2 == 0 {
						mon.Call(30*time.Second, 0, true)
					} else {
						mon.Call(time.Duration(math.MaxInt64)-time.Duration(sc.MaxWorkers), 0, true) // "never"
					}
				case "pause":
					time.Sleep(100 * time.Millisecond) // a burst has fired by now, its workers linger idle
				case "mid":
					// a deadline inside the idle timeout of the slow patterns: whoever sleeps towards it must not keep
					// the pool from noticing an earlier one
					if c == 0 {
						mon.Call(2500*time.Millisecond, 0, false)
					}
				case "near":
					// in half of the configurations the near deadline lies just beyond the idle timeout (a pool that
					// relies on "nobody sleeps longer than the idle timeout" must still notice it)
					d := 20 * time.Millisecond
					if sc.Idle <= 200*time.Millisecond && (sc.Callers+sc.MaxWorkers+int(sc.Idle/time.Millisecond))%2 == 1 {
						d = sc.Idle + 10*time.Millisecond
					}
					mon.Call(d, 0, false)
				case "burst":
					for i := 0; i < 50; i++ {
						mon.Call(5*time.Millisecond, 0, false)
					}
				case "cancelhead":
					// the head of the queue: the not yet started, not cancelled future with the earliest due time
					var head *tmon.Fut
					for _, f := range mon.Futures() {
						if f.Started() == 0 && len(f.Cancels()) == 0 && (head == nil || f.Due() < head.Due()) {
							head = f
						}
					}
					if head != nil {
						mon.Cancel(head)
					}
				case "idlegap":
					time.Sleep(sc.Idle*5/2 + 5*time.Millisecond)
				}
			}(c)
		}
		wg.Wait()
		if w, _ := timeout.VerifState(); int64(w) > maxWorkersSeen {
			maxWorkersSeen = int64(w)
		}
	}
	// observe: everything that is not far and not cancelled has to start; wait for that, but no longer than
	// well beyond the lateness bound, so that a missed wake-up shows as lateness and not as a hang
	waitStarted := func(limit time.Duration) {
		deadline := time.Now().Add(limit)
		for time.Now().Before(deadline) {
			open := 0
			for _, f := range mon.Futures() {
				if !f.Far && f.Started() == 0 && len(f.Cancels()) == 0 {
					open++
				}
			}
			if open == 0 {
				return
			}
			time.Sleep(time.Millisecond)
		}
	}
	extra := time.Duration(0)
	for _, el := range sc.Order {
		if el == "mid" {
			extra = 2500 * time.Millisecond
		}
	}
	waitStarted(lateBound + time.Second + extra)
	for _, f := range mon.Futures() {
		if f.Far {
			mon.Cancel(f)
		}
	}
	idleFrom := time.Now()
	// the watchdog is far above the wind-down bound ((limit+3) idle periods + 2 s): nothing pending and
	// workers still alive when it fires means the package does not wind down
	watchdog := 4*(time.Duration(sc.MaxWorkers+3)*sc.Idle+2*time.Second) + 20*time.Second
	final, lost := tmon.Drain(watchdog)
	windDown := time.Since(idleFrom)
	if !final {
		close(stop)
		hwg.Wait()
		if strings.HasPrefix(lost, "NO-WIND-DOWN") {
			return []tmon.Finding{{Sig: "timer/no-wind-down", What: fmt.Sprintf("nothing is pending, but %v later (idle timeout %v, pool limit %d) the package still has workers: %s", watchdog, sc.Idle, sc.MaxWorkers, lost), TimeBound: true}}, len(mon.Futures()), stats, ""
		}
		return nil, len(mon.Futures()), stats, "drain watchdog: " + lost
	}
	if lost != "" {
		fs = append(fs, tmon.Finding{Sig: "timer/pending-without-worker", What: lost})
	}
	bound := time.Duration(sc.MaxWorkers+3)*sc.Idle + 2*time.Second
	if lost == "" && windDown > bound {
		fs = append(fs, tmon.Finding{Sig: "timer/slow-wind-down", What: fmt.Sprintf("after the last future was gone the workers needed %v to wind down (idle timeout %v, pool limit %d, bound %v)", windDown, sc.Idle, sc.MaxWorkers, bound), TimeBound: true})
	}
	// goroutine census must agree with the counter (the counter drops just before the goroutine returns)
	cens := -1
	for i := 0; i < 400; i++ {
		if cens = tmon.Census(); cens == 0 {
			break
		}
		time.Sleep(5 * time.Millisecond)
	}
	if lost == "" && cens != 0 {
		fs = append(fs, tmon.Finding{Sig: "timer/goroutines-left-after-wind-down", What: fmt.Sprintf("the worker counter is 0 but %d goroutines are still inside the package's worker function 2 s later", cens)})
	}
	// restart after the wind-down
	if len(fs) == 0 {
		mon.Call(10*time.Millisecond, 0, false)
		waitStarted(lateBound + time.Second)
		final, lost = tmon.Drain(90 * time.Second)
		if !final {
			close(stop)
			hwg.Wait()
			return nil, len(mon.Futures()), stats, "drain watchdog after restart: " + lost
		}
		if lost != "" {
			fs = append(fs, tmon.Finding{Sig: "timer/pending-without-worker/after-restart", What: lost})
		}
	}
	close(stop)
	hwg.Wait()
	if e := heapErr.Load(); e != nil {
		fs = append(fs, tmon.Finding{Sig: "timer/heap-invariant", What: "the queue invariant (incl. pending>0 => a worker exists) was broken under the package lock: " + e.(string)})
	}
	jf, worst := mon.Judge(lateBound)
	fs = append(fs, jf...)
	stats["worst_lateness_us"] = int64(worst / time.Microsecond)
	stats["max_workers_seen"] = maxWorkersSeen
	stats["wind_down_ms_max"] = int64(windDown / time.Millisecond)
	return fs, len(mon.Futures()), stats, ""
}

// runGuarded runs the scenario and, beside it, a probe that reads the package state through the hook (i.e. takes
// the package lock) every 100 ms. A scenario that is still running after its budget while the probe has been
// waiting for the package lock for more than 30 s means: somebody holds the package lock and never gives it back -
// every Call and Cancel blocks, nothing is started any more. That is final and reported as a violation (the
// scenario itself can only hang in that state); a scenario that overruns with the lock available is inconclusive.
func runGuarded(sc scen) (fs []tmon.Finding, nFut int, stats map[string]int64, inconclusive string) {
	type res struct {
		fs    []tmon.Finding
		n     int
		stats map[string]int64
		inc   string
	}
	done := make(chan res, 1)
	go func() {
		f, n, st, inc := runScenario(sc)
		done <- res{f, n, st, inc}
	}()
	var lastProbe atomic.Int64 // unix nano of the last hook call that came back
	lastProbe.Store(time.Now().UnixNano())
	stop := make(chan struct{})
	defer close(stop)
	go func() {
		for {
			select {
			case <-stop:
				return
			default:
			}
			setupMu.RLock()
			timeout.VerifState()
			setupMu.RUnlock()
			lastProbe.Store(time.Now().UnixNano())
			time.Sleep(100 * time.Millisecond)
		}
	}()
	budget := 10 * time.Minute
	deadline := time.After(budget)
	tick := time.NewTicker(time.Second)
	defer tick.Stop()
	for {
		select {
		case r := <-done:
			return r.fs, r.n, r.stats, r.inc
		case <-tick.C:
			if blocked := time.Since(time.Unix(0, lastProbe.Load())); blocked > 30*time.Second {
				return []tmon.Finding{{Sig: "timer/package-lock-never-released", What: fmt.Sprintf("the package lock of the timeout package has not been available for %v (a hook that only reads two counters under it does not come back) while the scenario hangs: every Call and Cancel blocks, nothing can be started any more", blocked.Round(time.Second))}}, 0, map[string]int64{}, ""
			}
		case <-deadline:
			return nil, 0, map[string]int64{}, fmt.Sprintf("scenario still running after %v (the package lock is available)", budget)
		}
	}
}

func TestChild(t *testing.T) {
	idx, total, part, ok := shard.Child()
	if !ok {
		t.Skip("not a shard child")
	}
	run := report.New("C13", "exploration")
	res := shard.NewResult()
	list := scenarios(run)
	if part == "native" {
		list = nativeScenarios(run)
	}
	if os.Getenv("VERIF_PASS") == "asynctimerchan" {
		var short []scen
		for i, s := range list {
			if (i%8 == 0 && s.Idle < time.Second) || s.Order[0] == "idleedge" || s.Order[0] == "idleconvoy" || s.Order[0] == "stalephase" {
				short = append(short, s)
			}
		}
		list = short
	}
	for i := idx; i < len(list); i += total {
		sc := list[i]
		var fs []tmon.Finding
		var nf int
		var stats map[string]int64
		var inc string
		for attempt := 1; ; attempt++ {
			cn := tmon.StartCanary()
			fs, nf, stats, inc = runGuarded(sc)
			stall := cn.Stop()
			if int64(stall/time.Microsecond) > res.Maxes["canary_worst_stall_us"] {
				res.Maxes["canary_worst_stall_us"] = int64(stall / time.Microsecond)
			}
			guarded := false
			for _, f := range fs {
				if f.TimeBound && stall > lateBound/4 {
					guarded = true
				}
			}
			if !guarded {
				break
			}
			if attempt == 3 {
				inc = fmt.Sprintf("time bound broken 3 times while the canary saw stalls (last %v)", stall)
				fs = nil
				break
			}
			res.Counters["scenarios_repeated_because_of_a_stall"]++
		}
		res.Evals += int64(nf)
		res.Counters["scenarios"]++
		if sc.Native {
			res.Counters["scenarios_on_the_package_own_initial_state"]++
		}
		res.Counters[fmt.Sprintf("scenarios_idle_%v", sc.Idle)]++
		for k, v := range stats {
			if v > res.Maxes[k] {
				res.Maxes[k] = v
			}
		}
		b, _ := json.Marshal(sc)
		res.Classes = append(res.Classes, string(b))
		if inc != "" {
			res.Inconcl = append(res.Inconcl, fmt.Sprintf("scenario %d: %s", i, inc))
			break
		}
		for _, f := range fs {
			res.Violation(f.Sig, f.What, map[string]any{"scenario": sc, "future": f.Fut})
		}
		if len(fs) > 0 {
			break
		}
		if i < 2 {
			res.Samples = append(res.Samples, sc)
		}
	}
	shard.Emit(res)
}

// TestChildGoexit: tmon.GoexitScenario in a child of its own.
func TestChildGoexit(t *testing.T) {
	idx, _, _, ok := shard.Child()
	if !ok {
		t.Skip("not a shard child")
	}
	res := shard.NewResult()
	defer shard.Emit(res)
	sig, what, phase, evals := tmon.GoexitScenario(idx)
	res.Evals += int64(evals)
	if sig != "" {
		res.Violation(sig, what, map[string]any{"scenario": "goexit", "phase": phase, "variant": idx % 3})
		return
	}
	res.Counters["goexit_children"]++
	res.Counters["callbacks_that_ended_their_goroutine"] += 21
	res.Classes = append(res.Classes, fmt.Sprintf("goexit-child-%d", idx%3))
}

func TestCheck(t *testing.T) {
	run := report.New("C13", "exploration")
	defer run.Finish(t)
	run.Rule("arrival patterns: permutations of {far future (30 s, or 'never' = MaxInt64), near future 20 ms (in half of the configurations: idle timeout + 10 ms), burst of 50 futures (> pool), cancel the head of the queue, idle gap of 2.5 idle timeouts} (24 orders quick, all 120 thorough) x 1 or 4 concurrent callers x idle timeout 20 ms / 200 ms (/ 5 s thorough) x pool limit 1/2/10, callbacks return at once; between the elements futures that fired or were cancelled already are cancelled again (late / repeated cancels); extra patterns with seven long watchdogs of different deadlines, two of which are cancelled from the middle of the queue, mixed with near futures and bursts. Monitors: every non-cancelled future starts (drain detector on hook state; pending>0 with no worker is final), lateness <= 1.5 s, hook invariant pending>0 => workers>=1 sampled under the package lock, workers reach 0 within (limit+3) idle periods + 2 s and the goroutine census agrees, a Call after the wind-down fires again; contended wind-down rounds: a far future pending, a blocking burst grows the pool to its limit, four goroutines hammer the package lock while the surplus workers leave - one worker must stay. a third of the 10-worker scenarios and rendezvous bursts (2-5 futures due together whose callbacks wait up to 300 ms for each other; only eventual start is judged, the statement bounds lateness for prompt callbacks only); slow patterns with a deadline 2.5 s ahead (inside the 3 s idle timeout) pending when a near one arrives; the chase trials (a Call issued the moment the previous callback is seen running, swept by 0-2 us, 3 s idle timeout) also run in children that never replace the package state built by the package's own init(). beside every scenario a probe takes the package lock through the hook every 100 ms: a lock that is not available for 30 s while the scenario hangs is reported (the package is dead-locked). evaluations = futures; distinct = distinct scenario configurations")
	run.Assume("lateness and wind-down bounds are two orders of magnitude above the healthy values and guarded by a stall canary (repeat up to 3 times, then inconclusive)")

	if p := os.Getenv("VERIF_REPLAY"); p != "" {
		replay(run, p)
		return
	}
	nsh := 2 * runtime.NumCPU() // scenarios mostly sleep
	var nwg sync.WaitGroup
	nwg.Add(1)
	go func() {
		defer nwg.Done()
		for c := range shard.Run(run, "TestChild", "native", runtime.NumCPU(), 45*time.Minute) {
			run.DistinctStr(c)
		}
	}()
	nwg.Add(1)
	go func() {
		defer nwg.Done()
		for c := range shard.Run(run, "TestChildGoexit", "goexit", 3, 5*time.Minute) {
			run.DistinctStr(c)
		}
	}()
	for c := range shard.Run(run, "TestChild", "patterns", nsh, 45*time.Minute) {
		run.DistinctStr(c)
	}
	nwg.Wait()
}

func replay(run *report.Run, path string) {
	b, err := os.ReadFile(path)
	if err != nil {
		run.Inconclusive("cannot read replay file: " + err.Error())
		return
	}
	var doc struct {
		Witness struct {
			Scenario scen `json:"scenario"`
		} `json:"witness"`
	}
	if err := json.Unmarshal(b, &doc); err != nil || len(doc.Witness.Scenario.Order) == 0 {
		run.Inconclusive("cannot parse replay file")
		return
	}
	run.DistinctAdd(2)
	run.Sample(doc.Witness.Scenario)
	for i := 0; i < 5; i++ {
		fs, nf, _, inc := runScenario(doc.Witness.Scenario)
		run.Eval(nf)
		if inc != "" {
			run.Inconclusive(inc)
			return
		}
		for _, f := range fs {
			run.Violation(f.Sig, f.What, map[string]any{"scenario": doc.Witness.Scenario, "future": f.Fut})
		}
		if len(fs) > 0 {
			return
		}
	}
	fmt.Println("REPLAY: no violation on this tree")
}
