// C19 — error classes survive wrapping and the gRPC boundary (exhaustive cross product, DESIGN §3 C19).
//
// Every general error class that has a gRPC code (the sentinel itself, and real OS errors that are of
// the class through an Is method) is wrapped in every chain of wrapping layers up to a depth bound. A
// layer is fmt.Errorf with one %w and a text from a fixed corpus, or one of the non-linear shapes
// (two %w, errors.Join, a custom type with Unwrap() []error, each with the class on either side of an
// unrelated error). An object is embedded at the innermost level, at the outermost level or not at
// all. Each chain is sent through GRPCWrap and the result is asked for every one of the twelve
// classes. The code -> class direction is enumerated over all 17 gRPC codes.
//
// stress_test.go adds the text-stress family: layers that carry the text of a class sentinel or of a
// gRPC code, long texts and big embedded objects.
package c19

import (
	"encoding/json"
	"errors"
	"fmt"
	"io/fs"
	"os"
	"path/filepath"
	"reflect"
	"runtime"
	"strings"
	"sync"
	"sync/atomic"
	"syscall"
	"testing"

	gerrors "github.com/acquirecloud/golibs/errors"
	"google.golang.org/grpc/codes"
	"google.golang.org/grpc/status"

	"verifharness/internal/report"
)

func TestMain(m *testing.M) { os.Exit(report.ExitCode(m.Run())) }

const marker = "\x1bjson" // the embed marker of errors.EmbedObject (errors/errors.go:103)

type class struct {
	name string
	err  error
	base bool // the class is a key of the class -> code table of the unchanged library (errors/grpc.go:38-49)
	// derived: the tree under test gives the class a gRPC code of its own - the code that GRPCWrap gives
	// an error of the class maps back to the class (deriveCoded)
	derived bool
	coded   bool // base || derived: the per-class monitors are applied to the class
}

// classes are all exported class sentinels of the errors package (errors/errors.go:52-91).
var classes = []class{
	{name: "ErrExist", err: gerrors.ErrExist, base: true},
	{name: "ErrNotExist", err: gerrors.ErrNotExist, base: true},
	{name: "ErrClosed", err: gerrors.ErrClosed},
	{name: "ErrInvalid", err: gerrors.ErrInvalid, base: true},
	{name: "ErrNotAuthorized", err: gerrors.ErrNotAuthorized, base: true},
	{name: "ErrDataLoss", err: gerrors.ErrDataLoss, base: true},
	{name: "ErrCommunication", err: gerrors.ErrCommunication},
	{name: "ErrInternal", err: gerrors.ErrInternal, base: true},
	{name: "ErrConflict", err: gerrors.ErrConflict, base: true},
	{name: "ErrExhausted", err: gerrors.ErrExhausted, base: true},
	{name: "ErrUnimplemented", err: gerrors.ErrUnimplemented, base: true},
	{name: "ErrCanceled", err: gerrors.ErrCanceled, base: true},
}

// deriveCoded determines, from the tree under test, which classes "have a gRPC code": class c has one
// iff the code k that GRPCWrap gives an error of class c (the sentinel itself) maps back to c, i.e.
// errors.Is(FromGRPCError(status.Error(k, "x")), c). A class that only falls to the default code
// (Internal, which maps back to ErrInternal) has none. It sets derived and coded of every class and
// returns what it saw per class (for the evidence) and the names of the derived set.
func deriveCoded() (perClass map[string]any, derived []string) {
	perClass = map[string]any{}
	for i := range classes {
		c := &classes[i]
		var k codes.Code
		var back error
		c.derived = false
		if f := guarded("GRPCWrap/FromGRPCError", func() {
			k = status.Code(gerrors.GRPCWrap(c.err))
			back = gerrors.FromGRPCError(status.Error(k, "x"))
		}); f != nil {
			perClass[c.name] = map[string]any{"panic": f.what, "has_code": false, "in_unchanged_library": c.base}
		} else {
			c.derived = back != nil && errors.Is(back, c.err)
			perClass[c.name] = map[string]any{"wrapped_code": k.String(), "code_maps_back_to": fmt.Sprint(back), "has_code": c.derived, "in_unchanged_library": c.base}
		}
		c.coded = c.base || c.derived
		if c.derived {
			derived = append(derived, c.name)
		}
	}
	return
}

func classByName(n string) (int, bool) {
	for i, c := range classes {
		if c.name == n {
			return i, true
		}
	}
	return 0, false
}

// layer is one wrapping layer: the message becomes Pre + inner message + Suf. Shape "" is
// fmt.Errorf with a single %w; the other shapes put the unrelated error sideErr next to the inner one.
type layer struct {
	Name  string `json:"name"`
	Shape string `json:"shape,omitempty"`
	Pre   string `json:"pre"`
	Suf   string `json:"suf"`
	Rep   int    `json:"rep,omitempty"` // > 1: Pre and Suf stand for themselves repeated Rep times (long texts)
}

// texts are the texts the layer really puts in front of and behind the inner message.
func (l layer) texts() (pre, suf string) {
	if l.Rep > 1 {
		return strings.Repeat(l.Pre, l.Rep), strings.Repeat(l.Suf, l.Rep)
	}
	return l.Pre, l.Suf
}

// sideErr is the unrelated error of the non-linear shapes: a plain text error that is in no class.
var sideErr = errors.New("side failure")

const (
	shapeWWLeft     = "ww-left"     // fmt.Errorf("%w: and %w", side, inner)
	shapeWWRight    = "ww-right"    // fmt.Errorf("%w: caused by %w", inner, side)
	shapeJoinLeft   = "join-left"   // errors.Join(side, inner)
	shapeJoinRight  = "join-right"  // errors.Join(inner, side)
	shapeMultiPtr   = "multi-ptr"   // *multiPtr{side, inner}: only Unwrap() []error, comparable type
	shapeMultiSlice = "multi-slice" // multiSlice{inner, side}: only Unwrap() []error, slice type (not comparable)
)

var shapes = []layer{
	{"two-w-side-first", shapeWWLeft, "side failure: and ", "", 0},
	{"two-w-side-last", shapeWWRight, "", ": caused by side failure", 0},
	{"join-side-first", shapeJoinLeft, "side failure\n", "", 0},
	{"join-side-last", shapeJoinRight, "", "\nside failure", 0},
	{"multi-unwrap-pointer", shapeMultiPtr, "several: side failure; ", " (2 errors)", 0},
	{"multi-unwrap-slice", shapeMultiSlice, "[", " | side failure]", 0},
}

// multiPtr and multiSlice implement only Unwrap() []error.
type multiPtr struct{ errs []error }

func (m *multiPtr) Error() string {
	return "several: " + m.errs[0].Error() + "; " + m.errs[1].Error() + " (2 errors)"
}
func (m *multiPtr) Unwrap() []error { return m.errs }

type multiSlice []error

func (m multiSlice) Error() string   { return "[" + m[0].Error() + " | " + m[1].Error() + "]" }
func (m multiSlice) Unwrap() []error { return m }

var corpus = []layer{
	{"empty", "", "", "", 0},
	{"colons", "", "a: b:: c:", "", 0},
	{"json-text", "", `{"k":"v","n":[1,2.5e3],"o":{"x":null}}: `, "", 0},
	{"esc", "", "\x1b", "", 0},        // the marker's first byte directly in front of the inner text
	{"json-word", "", "json", "", 0},  // the marker's tail directly in front of the inner text
	{"esc-jso", "", "\x1bjso", "", 0}, // all of the marker but its last byte
	{"son-esc", "", "son\x1b", "", 0}, // tail + head
	{"unicode", "", "héllo wörld ✓ 日本語 \U0001F642: ", "", 0},
	{"newlines", "", "line1\nline2\r\n\t: ", "\n", 0},
	{"suffix-esc", "", "", "\x1b", 0}, // inner text directly followed by the marker's first byte
	{"suffix-json-word", "", "(", ")json", 0},
	{"looks-like-grpc", "", "rpc error: code = NotFound desc = 100%: ", "", 0},
}

// layer texts added in the thorough tier
var corpusThorough = []layer{
	{"plain", "", "cannot do it: ", "", 0},
	{"suffix-jso", "", "", " \x1bjso", 0},
	{"esc-j", "", "\x1bj", "", 0}, // meets "son..." to form the complete marker: such chains are excluded
	{"long", "", strings.Repeat("0123456789abcdef", 64) + ": ", "", 0},
}

func (l layer) wrap(inner error) error {
	switch l.Shape {
	case shapeWWLeft:
		return fmt.Errorf("%w: and %w", sideErr, inner)
	case shapeWWRight:
		return fmt.Errorf("%w: caused by %w", inner, sideErr)
	case shapeJoinLeft:
		return errors.Join(sideErr, inner)
	case shapeJoinRight:
		return errors.Join(inner, sideErr)
	case shapeMultiPtr:
		return &multiPtr{[]error{sideErr, inner}}
	case shapeMultiSlice:
		return multiSlice{inner, sideErr}
	}
	esc := func(s string) string { return strings.ReplaceAll(s, "%", "%%") }
	pre, suf := l.texts()
	return fmt.Errorf(esc(pre)+"%w"+esc(suf), inner)
}

// objects that get embedded
type payload struct {
	Name  string   `json:"name"`
	N     int64    `json:"n"`
	Tags  []string `json:"tags"`
	Inner *payload `json:"inner,omitempty"`
}

type object struct {
	name string
	deep bool // crossed with every chain; the others with the chains of depth <= shallowDepth
	val  any
	out  func() any        // fresh pointer to decode into
	get  func(ptr any) any // the decoded value
}

var objects = []object{
	{"hostile-struct", true,
		payload{Name: "\x1bjson: {\"a\":1} \x1bjso son\x1b \"quoted\"", N: -1 << 63, Tags: []string{"", ":", "\n", "日本語", "\x1b", "json"}, Inner: &payload{Name: "in", N: 7, Tags: []string{"x"}}},
		func() any { return new(payload) }, func(p any) any { return *p.(*payload) }},
	{"map", true,
		map[string]any{"k": "v: w", "n": 1.5, "l": []any{"a", true, nil, "\x1bjson"}, "o": map[string]any{}},
		func() any { return new(map[string]any) }, func(p any) any { return *p.(*map[string]any) }},
	{"marker-string", true,
		"just \x1bjson text with the marker \x1bjson in it",
		func() any { return new(string) }, func(p any) any { return *p.(*string) }},
	// objects whose JSON contains the per cent sign
	strObject("pct-full", "97% full"),
	strObject("pct-v", "%v"),
	strObject("pct-url", "a%20b"),
	strObject("pct-w", "%w"),
	strObject("pct-pct", "100%%"),
	{"pct-map", false,
		map[string]any{"50%": "half", "k%d": 1.0, "q": "x%", "%s": []any{"%!", "%"}},
		func() any { return new(map[string]any) }, func(p any) any { return *p.(*map[string]any) }},
	{"pct-struct", false,
		payload{Name: "disk is 97% full; %s %d %+v %[1]w %", N: 100, Tags: []string{"%", "%%", "a%20b"}},
		func() any { return new(payload) }, func(p any) any { return *p.(*payload) }},
}

func strObject(name, v string) object {
	return object{name, false, v, func() any { return new(string) }, func(p any) any { return *p.(*string) }}
}

const shallowDepth = 2

const (
	embNone  = "none"
	embInner = "inner" // EmbedObject(o, class), then the layers
	embOuter = "outer" // the layers, then EmbedObject(o, chain)
)

// kase is one wrapping chain (the witness of a violation).
type kase struct {
	Class  string  `json:"class"`
	Root   string  `json:"root,omitempty"` // a real OS error of the class instead of the sentinel
	Layers []layer `json:"layers"`         // innermost first
	Embed  string  `json:"embed"`
	Object string  `json:"object,omitempty"`
	Code   *int    `json:"code,omitempty"` // set for a case of the code -> class direction instead
	Msg    string  `json:"msg,omitempty"`
}

type finding struct{ sig, what string }

func guarded(name string, f func()) (pan *finding) {
	defer func() {
		if p := recover(); p != nil {
			pan = &finding{"errors/panic/" + name, fmt.Sprintf("%s panicked: %v", name, p)}
		}
	}()
	f()
	return nil
}

func objectByName(n string) *object {
	for i := range objects {
		if objects[i].name == n {
			return &objects[i]
		}
	}
	for i := range bigObjects {
		if bigObjects[i].name == n {
			return &bigObjects[i]
		}
	}
	return nil
}

// root is the innermost error of a chain: the sentinel of a class or a real OS error of that class.
type root struct {
	name string // "" for the sentinel
	ci   int
	err  error
}

func (r root) label() string {
	if r.name == "" {
		return classes[r.ci].name
	}
	return classes[r.ci].name + "<-" + r.name
}

// osRoots produces real OS errors at run time under dir (which must exist and be writable).
func osRoots(dir string) []root {
	ci := func(n string) int { i, _ := classByName(n); return i }
	var out []root
	add := func(name, class string, err error) {
		if err != nil {
			out = append(out, root{name, ci(class), err})
		}
	}
	file := filepath.Join(dir, "file")
	_ = os.WriteFile(file, []byte("x"), 0o600)
	_ = os.WriteFile(filepath.Join(dir, "sub-file"), nil, 0o600)
	sub := filepath.Join(dir, "nonempty")
	_ = os.Mkdir(sub, 0o700)
	_ = os.WriteFile(filepath.Join(sub, "f"), nil, 0o600)

	_, e := os.Open(filepath.Join(dir, "missing"))
	add("os.Open(missing)", "ErrNotExist", e)
	_, e = os.Stat(filepath.Join(dir, "missing", "deeper"))
	add("os.Stat(missing)", "ErrNotExist", e)
	add("os.Mkdir(existing)", "ErrExist", os.Mkdir(sub, 0o700))
	_, e = os.OpenFile(file, os.O_CREATE|os.O_EXCL|os.O_WRONLY, 0o600)
	add("os.OpenFile(O_EXCL,existing)", "ErrExist", e)
	add("os.Remove(non-empty dir)", "ErrExist", os.Remove(sub))
	add("PathError{EACCES}", "ErrNotAuthorized", &fs.PathError{Op: "open", Path: "p", Err: syscall.EACCES})
	add("syscall.EPERM", "ErrNotAuthorized", syscall.EPERM)
	add("LinkError{EPERM}", "ErrNotAuthorized", &os.LinkError{Op: "link", Old: "a", New: "b", Err: syscall.EPERM})
	add("PathError{EINVAL}", "ErrInvalid", &fs.PathError{Op: "seek", Path: "p", Err: syscall.EINVAL})
	var nf *os.File
	add("(*os.File)(nil).Close()", "ErrInvalid", nf.Close())
	_, e = nf.Seek(-1, 0)
	add("(*os.File)(nil).Seek(-1)", "ErrInvalid", e)
	if f, err := os.Open(file); err == nil {
		f.Close()
		_, e = f.Read(make([]byte, 1))
		add("Read(closed file)", "ErrClosed", e)
	}
	return out
}

// qualifies is the precondition for a real OS error: before any wrapping it is of its class and of no
// other class (standard errors.Is).
func (r root) qualifies() bool {
	for ti, t := range classes {
		if errors.Is(r.err, t.err) != (ti == r.ci) {
			return false
		}
	}
	return true
}

// buildChain constructs the error of a case from scratch (used by the replayer and for samples).
func buildChain(k kase, roots []root) (error, *finding) {
	ci, ok := classByName(k.Class)
	if !ok {
		return nil, &finding{"harness/unknown-class", k.Class}
	}
	err := classes[ci].err
	if k.Root != "" {
		err = nil
		for _, r := range roots {
			if r.name == k.Root && r.ci == ci {
				err = r.err
			}
		}
		if err == nil {
			return nil, &finding{"harness/unknown-root", k.Root}
		}
	}
	var f *finding
	if k.Embed == embInner {
		o := objectByName(k.Object)
		if o == nil {
			return nil, &finding{"harness/unknown-object", k.Object}
		}
		if f = guarded("EmbedObject", func() { err = gerrors.EmbedObject(o.val, err) }); f != nil {
			return nil, f
		}
	}
	for _, l := range k.Layers {
		err = l.wrap(err)
	}
	if k.Embed == embOuter {
		o := objectByName(k.Object)
		if o == nil {
			return nil, &finding{"harness/unknown-object", k.Object}
		}
		if f = guarded("EmbedObject", func() { err = gerrors.EmbedObject(o.val, err) }); f != nil {
			return nil, f
		}
	}
	return err, nil
}

// checkChain applies every oracle of the wrapping direction to one chain err around classes[ci];
// obj is the embedded object or nil. It returns all findings (one per failing oracle / class pair).
//
// seen (may be nil) holds the signatures this worker has reported already: a repeated signature is
// neither formatted nor returned again, so that a broken tree does not spend its time on messages.
//
// asked is the number of classes the wrapped chain was asked for.
func checkChain(ci int, err error, emb string, obj *object, seen map[string]int) (out []finding, asked int) {
	c := classes[ci]
	add := func(sig, format string, args ...any) {
		if seen != nil {
			seen[sig]++
			if seen[sig] > 1 {
				return
			}
		}
		out = append(out, finding{sig, clip(fmt.Sprintf(format, args...))})
	}
	var g, g2 error
	if f := guarded("GRPCWrap", func() { g = gerrors.GRPCWrap(err) }); f != nil {
		if !reflect.TypeOf(err).Comparable() {
			// an error whose dynamic type cannot be a map key (slice or map type) as the outermost layer
			add("errors/panic/GRPCWrap/uncomparable-error-type", "GRPCWrap(e) panics for e of type %T (%q) wrapping %s: %s", err, err.Error(), c.name, f.what)
			return
		}
		return append(out, *f), 0
	}
	if g == nil {
		add("errors/grpcwrap-nil/"+c.name, "GRPCWrap(%q) is nil", err.Error())
		return
	}
	// class in -> same class out, no other class out
	for ti, t := range classes {
		var got bool
		if f := guarded("Is", func() { got = gerrors.Is(g, t.err) }); f != nil {
			out = append(out, *f)
			continue
		}
		asked++
		switch {
		case ti == ci && !got:
			add("errors/is-class/"+c.name, "Is(GRPCWrap(e), %s) is false for e=%q wrapping %s (wrapped code %v)", c.name, err.Error(), c.name, status.Code(g))
		case ti != ci && got:
			add("errors/is-other/"+c.name+"-vs-"+t.name, "Is(GRPCWrap(e), %s) is true for e=%q wrapping %s (wrapped code %v)", t.name, err.Error(), c.name, status.Code(g))
		}
	}
	// the code computed for the chain maps back to the class (several codes may map to one class,
	// so the codes themselves are not compared)
	var cw codes.Code
	var back error
	if f := guarded("GRPCStatusCode", func() {
		cw = gerrors.GRPCStatusCode(err)
		back = gerrors.FromGRPCError(status.Error(cw, "x"))
	}); f != nil {
		out = append(out, *f)
	} else if back != c.err {
		add("errors/status-code-wrapped/"+c.name, "GRPCStatusCode(e)=%v which maps back to %v, not to %s, for e=%q", cw, back, c.name, err.Error())
	}
	// idempotence
	if f := guarded("GRPCWrap", func() { g2 = gerrors.GRPCWrap(g) }); f != nil {
		out = append(out, *f)
	} else if g2 != g { // the very same error value needs no comparison
		if g2 == nil || status.Code(g2) != status.Code(g) || gerrors.FromGRPCErrorMsg(g2) != gerrors.FromGRPCErrorMsg(g) || g2.Error() != g.Error() {
			add("errors/grpcwrap-not-idempotent", "GRPCWrap(GRPCWrap(e))=%q (code %v) but GRPCWrap(e)=%q (code %v)", fmt.Sprint(g2), status.Code(g2), g.Error(), status.Code(g))
		}
	}
	// the embedded object
	if obj != nil {
		for i, e := range []error{g, g2} {
			if e == nil || (i == 1 && g2 == g) {
				continue
			}
			ptr := obj.out()
			var ok bool
			if f := guarded("ExtractObject", func() { ok = gerrors.ExtractObject(e, ptr) }); f != nil {
				out = append(out, *f)
				break
			}
			which := []string{"GRPCWrap(e)", "GRPCWrap(GRPCWrap(e))"}[i]
			if !ok {
				add("errors/extract-after-wrap/"+emb+"/not-found", "ExtractObject(%s) is false; object %s embedded at the %s level; wrapped message %q", which, obj.name, emb, e.Error())
				break
			}
			if got := obj.get(ptr); !reflect.DeepEqual(got, obj.val) {
				add("errors/extract-after-wrap/"+emb+"/different", "ExtractObject(%s) gives %#v, embedded %#v", which, got, obj.val)
				break
			}
		}
	}
	return
}

// checkCode applies the oracles of the code -> class direction to one (code, message).
func checkCode(code codes.Code, msg string) (out []finding) {
	add := func(sig, format string, args ...any) {
		out = append(out, finding{sig, fmt.Sprintf(format, args...)})
	}
	e := status.Error(code, msg)
	var r error
	if f := guarded("FromGRPCError", func() { r = gerrors.FromGRPCError(e) }); f != nil {
		return append(out, *f)
	}
	if code == codes.OK {
		if r != nil {
			add("errors/from-grpc/non-nil-for-OK", "FromGRPCError(status.Error(OK, %q))=%v want nil", msg, r)
		}
		return
	}
	if r == nil {
		add("errors/from-grpc/nil-for-"+code.String(), "FromGRPCError(status.Error(%v, %q)) is nil", code, msg)
		return
	}
	n := 0
	for _, c := range classes {
		if r == c.err {
			n++
		}
	}
	if n != 1 {
		add("errors/from-grpc/not-a-class/"+code.String(), "FromGRPCError(status.Error(%v, %q))=%q which is none of the twelve classes", code, msg, r.Error())
	}
	var is []string
	for _, c := range classes {
		var got bool
		if f := guarded("Is", func() { got = gerrors.Is(e, c.err) }); f != nil {
			out = append(out, *f)
			continue
		}
		if got {
			is = append(is, c.name)
		}
	}
	if len(is) != 1 {
		add(fmt.Sprintf("errors/code-maps-to-%d-classes/%s", len(is), code), "status.Error(%v, %q) is of the classes %v, want exactly one", code, msg, is)
	}
	return
}

// checkCodeSame: "maps back to exactly one class" - the class is a function of the code, whatever the
// message says: the message msg gives the same class as the reference message ref.
func checkCodeSame(code codes.Code, msg, ref string) (out []finding) {
	var r, first error
	if guarded("FromGRPCError", func() {
		r = gerrors.FromGRPCError(status.Error(code, msg))
		first = gerrors.FromGRPCError(status.Error(code, ref))
	}) != nil {
		return nil // reported by checkCode
	}
	if r != first {
		out = append(out, finding{"errors/from-grpc/class-depends-on-message/" + code.String(),
			clip(fmt.Sprintf("FromGRPCError(status.Error(%v, %q))=%v but FromGRPCError(status.Error(%v, %q))=%v: the code maps back to two classes", code, msg, r, code, ref, first))})
	}
	return
}

// checkRoundTrip: the code of a coded class maps back to that class.
func checkRoundTrip(ci int) (out []finding) {
	c := classes[ci]
	var code codes.Code
	var back error
	if f := guarded("GRPCStatusCode/FromGRPCError", func() {
		code = gerrors.GRPCStatusCode(c.err)
		back = gerrors.FromGRPCError(status.Error(code, "x"))
	}); f != nil {
		return append(out, *f)
	}
	if back != c.err {
		out = append(out, finding{"errors/class-round-trip/" + c.name, fmt.Sprintf("GRPCStatusCode(%s)=%v and FromGRPCError(status.Error(%v))=%v, not %s", c.name, code, code, back, c.name)})
	}
	return
}

// ---------------------------------------------------------------------------------------------

const maxDepth = 4

type counters struct {
	chains, tuples, pruned, embInner, embOuter, embNone int64
	shapeChains, osChains, pctChains                    int64
	stressChains, classTextChains, codeTextChains       int64 // the text-stress family, see stress.go
	longTextChains, bigObjChains, maxMsg                int64
	byDepth                                             [maxDepth + 1]int64
	seen                                                map[string]int
}

func (c *counters) add(o *counters) {
	c.chains += o.chains
	c.tuples += o.tuples
	c.pruned += o.pruned
	c.embInner += o.embInner
	c.embOuter += o.embOuter
	c.embNone += o.embNone
	c.shapeChains += o.shapeChains
	c.osChains += o.osChains
	c.pctChains += o.pctChains
	c.stressChains += o.stressChains
	c.classTextChains += o.classTextChains
	c.codeTextChains += o.codeTextChains
	c.longTextChains += o.longTextChains
	c.bigObjChains += o.bigObjChains
	c.maxMsg = max(c.maxMsg, o.maxMsg)
	for i := range c.byDepth {
		c.byDepth[i] += o.byDepth[i]
	}
}

// walk describes one family of chains: a root, an optional inner embedding, the objects for the outer
// embedding, and the depth bounds. Layers of any kind (texts and shapes) are used up to mixedDepth;
// beyond it and up to maxDepth a chain is extended only by text layers and only if it consists of
// text layers so far.
type walk struct {
	rt         root
	base       *object   // inner embedding or nil
	outer      []*object // outer embeddings (only used when base is nil); shallow objects up to shallowDepth
	maxDepth   int
	mixedDepth int
}

func (w *walk) allowed(d int, allText bool, next layer) bool {
	if d+1 > w.maxDepth {
		return false
	}
	return d+1 <= w.mixedDepth || (allText && next.Shape == "")
}

func (w *walk) outerAt(d int) (out []*object) {
	if w.base != nil || d == 0 { // at depth 0 the outer embedding is the inner one
		return nil
	}
	for _, o := range w.outer {
		if o.deep || d <= shallowDepth {
			out = append(out, o)
		}
	}
	return
}

// size is the number of chains of the walk at a node of depth d and below it.
func (w *walk) size(d int, allText bool) int64 {
	n := int64(1 + len(w.outerAt(d)))
	for _, l := range alphabet {
		if w.allowed(d, allText, l) {
			n += w.size(d+1, allText && l.Shape == "")
		}
	}
	return n
}

var alphabet []layer // corpus texts followed by the shapes

// explore evaluates the chain err (text without embedding: plainMsg) and every allowed extension.
func (w *walk) explore(run *report.Run, err error, plainMsg string, layers []layer, allText bool, cnt *counters) {
	d := len(layers)
	// generator restriction: layer texts may contain parts of the marker but the text of the chain
	// (without the embedding) must not contain the complete marker, also not by two texts meeting
	if strings.Contains(plainMsg, marker) {
		cnt.pruned += w.size(d, allText)
		return
	}
	witness := func(emb string, obj *object) kase {
		k := kase{Class: classes[w.rt.ci].name, Root: w.rt.name, Layers: append([]layer(nil), layers...), Embed: emb}
		if obj != nil {
			k.Object = obj.name
		}
		return k
	}
	eval := func(e error, emb string, obj *object) {
		fs, asked := checkChain(w.rt.ci, e, emb, obj, cnt.seen)
		cnt.chains++
		cnt.tuples += int64(asked)
		cnt.byDepth[d]++
		switch emb {
		case embNone:
			cnt.embNone++
		case embInner:
			cnt.embInner++
		default:
			cnt.embOuter++
		}
		if !allText {
			cnt.shapeChains++
		}
		if w.rt.name != "" {
			cnt.osChains++
		}
		if obj != nil && !obj.deep {
			cnt.pctChains++
		}
		for _, f := range fs {
			run.Violation(f.sig, f.what, witness(emb, obj))
		}
	}
	if w.base != nil {
		eval(err, embInner, w.base)
	} else {
		eval(err, embNone, nil)
		for _, o := range w.outerAt(d) {
			var oe error
			if f := guarded("EmbedObject", func() { oe = gerrors.EmbedObject(o.val, err) }); f != nil {
				run.Violation(f.sig, f.what, witness(embOuter, o))
				continue
			}
			eval(oe, embOuter, o)
		}
	}
	for _, l := range alphabet {
		if w.allowed(d, allText, l) {
			w.explore(run, l.wrap(err), l.Pre+plainMsg+l.Suf, append(layers, l), allText && l.Shape == "", cnt)
		}
	}
}

func TestCheck(t *testing.T) {
	run := report.New("C19", "exploration")
	defer run.Finish(t)
	run.Rule("the classes that have a gRPC code are determined from the tree under test, over all twelve exported class sentinels (see the assumptions); for each of them: distinct (innermost error {class sentinel, real OS error of the class}, asked class, wrapping chain, embedding {none, inner x object, outer x object}) tuples for which Is(GRPCWrap(chain), asked class) was evaluated, plus distinct (gRPC code, message) pairs of the code -> class direction; the enumeration visits each tuple once. " +
		"Chains: every sequence of depth <= 3 over the alphabet {single-%w x corpus texts, two-%w with the class last, two-%w with the class first, errors.Join with the class last / first, pointer type with Unwrap() []error, slice type with Unwrap() []error}, plus every depth-4 sequence of single-%w texts. " +
		"Objects: 3 crossed with every chain; 7 whose JSON contains '%' crossed with the chains of depth <= 2. " +
		"Real OS errors (produced at run time): chains of depth <= 3 without object, depth <= 2 with the objects hostile-struct and pct-struct. " +
		"Text-stress family: chains of depth <= 2 (thorough 3) with exactly one layer whose text is the text of one of the twelve class sentinels (first, last, quoted), the rendering of one of the 17 gRPC codes, or a long text (5 KB, 70 KB), the other layers from the alphabet above, with the 3 objects and two big objects (JSON of 5 KB and 70 KB; those also under plain chains); the code -> class direction also over messages that are / end with / start with each class text and long messages, and the class of a code must not depend on the message")
	run.Assume("the layer texts contain parts of the embed marker but a chain whose text (without the embedding) contains the complete marker \\x1bjson - possible only where two corpus texts meet - is outside EmbedObject's contract and is not generated (counted in chains_excluded_marker_formed)")
	run.Assume("'a class that has a gRPC code' is decided by the tree under test for each of the twelve exported class sentinels: class c has one iff the code k that GRPCWrap gives an error of class c maps back to c, errors.Is(FromGRPCError(status.Error(k, \"x\")), c) (a class that only falls to the default Internal -> ErrInternal has none); the derived set is recorded in classes_with_a_grpc_code. " +
		"Every monitor (is-class, is-other, code maps back, idempotence, extractability) is applied to every class of the derived set and, so that a class which loses its code is noticed, also to the ten classes that have a code in the unchanged library (keys of errorsToCode, errors/grpc.go:38-49); on the unchanged library the two sets are the same ten. The remaining classes (there: ErrClosed and ErrCommunication) take part as asked classes only")
	run.Assume("idempotence of GRPCWrap is judged on code, status message and Error() text, not on pointer identity; the object is compared after JSON decoding into its own type")
	run.Assume("the second error of the non-linear shapes is errors.New(\"side failure\"), which is in no class; a real OS error is used only if, before wrapping, errors.Is says it is of its class and of no other class (otherwise listed in os_errors_not_used)")

	dir, derr := os.MkdirTemp("", "verif-c19-")
	if derr != nil {
		run.Inconclusive("no temp dir: " + derr.Error())
		return
	}
	defer os.RemoveAll(dir)
	allOS := osRoots(dir)

	perClass, derived := deriveCoded()
	var monitored []string
	for _, c := range classes {
		if c.coded {
			monitored = append(monitored, c.name)
		}
	}
	run.Note("classes_with_a_grpc_code", map[string]any{"derived_from_the_tree_under_test": derived, "monitored": monitored, "per_class": perClass})
	if len(derived) == 0 {
		run.Inconclusive("no class of the tree under test has a gRPC code that maps back to it: the set of classes to judge could not be derived")
		return
	}

	if p := os.Getenv("VERIF_REPLAY"); p != "" {
		replay(run, p, allOS)
		return
	}

	if run.Thorough() {
		corpus = append(corpus, corpusThorough...)
	}
	alphabet = append(append([]layer(nil), corpus...), shapes...)
	// harness self-checks: layers distinct, marker-free and formatted as declared; objects survive plain JSON
	seen := map[string]bool{}
	for _, l := range alphabet {
		key := l.Shape + "\x00" + l.Pre + "\x00" + l.Suf
		if seen[key] || strings.Contains(l.Pre, marker) || strings.Contains(l.Suf, marker) {
			run.Inconclusive("layer " + l.Name + " is a duplicate or contains the complete marker")
			return
		}
		seen[key] = true
		if got := l.wrap(errors.New("X")).Error(); got != l.Pre+"X"+l.Suf {
			run.Inconclusive(fmt.Sprintf("layer %s formats as %q, declared %q", l.Name, got, l.Pre+"X"+l.Suf))
			return
		}
	}
	for _, c := range classes {
		if errors.Is(sideErr, c.err) {
			run.Inconclusive("the side error is of class " + c.name)
			return
		}
	}
	names := map[string]bool{}
	for _, o := range objects {
		b, err := json.Marshal(o.val)
		ptr := o.out()
		if err != nil || json.Unmarshal(b, ptr) != nil || !reflect.DeepEqual(o.get(ptr), o.val) || strings.Contains(string(b), marker) || names[o.name] {
			run.Inconclusive("object " + o.name + " does not survive encoding/json")
			return
		}
		if !o.deep && !strings.Contains(string(b), "%") {
			run.Inconclusive("object " + o.name + " was meant to contain a per cent sign")
			return
		}
		names[o.name] = true
	}

	// the families of chains
	var walks []*walk
	var deep, shallow []*object
	for i := range objects {
		if objects[i].deep {
			deep = append(deep, &objects[i])
		} else {
			shallow = append(shallow, &objects[i])
		}
	}
	all := append(append([]*object(nil), deep...), shallow...)
	coded := 0
	for ci, c := range classes {
		if !c.coded {
			continue
		}
		coded++
		rt := root{"", ci, c.err}
		walks = append(walks, &walk{rt: rt, outer: all, maxDepth: maxDepth, mixedDepth: 3})
		for _, o := range deep {
			walks = append(walks, &walk{rt: rt, base: o, maxDepth: maxDepth, mixedDepth: 3})
		}
		for _, o := range shallow {
			walks = append(walks, &walk{rt: rt, base: o, maxDepth: shallowDepth, mixedDepth: shallowDepth})
		}
	}
	var osUsed, osNotUsed []string
	uncoded := map[string]any{}
	osObjects := []*object{objectByName("hostile-struct"), objectByName("pct-struct")}
	for _, rt := range allOS {
		desc := fmt.Sprintf("%s: %T %q", rt.label(), rt.err, rt.err.Error())
		switch {
		case !rt.qualifies():
			osNotUsed = append(osNotUsed, desc)
		case !classes[rt.ci].coded:
			// a class without a code: its survival is not part of the statement, record what happens
			var g error
			if f := guarded("GRPCWrap", func() { g = gerrors.GRPCWrap(rt.err) }); f == nil && g != nil {
				var is []string
				for _, c := range classes {
					if gerrors.Is(g, c.err) {
						is = append(is, c.name)
					}
				}
				uncoded[desc] = map[string]any{"wrapped_code": status.Code(g).String(), "wrapped_is": is}
			}
		default:
			osUsed = append(osUsed, desc)
			// the outer objects of an OS root are used up to shallowDepth only: mark by a shallow copy
			var outer []*object
			for _, o := range osObjects {
				c := *o
				c.deep = false
				outer = append(outer, &c)
			}
			walks = append(walks, &walk{rt: rt, outer: outer, maxDepth: 3, mixedDepth: 3})
			for _, o := range osObjects {
				walks = append(walks, &walk{rt: rt, base: o, maxDepth: shallowDepth, mixedDepth: shallowDepth})
			}
		}
	}

	type unit struct {
		w     *walk
		first int // index into alphabet of the first layer, -1: the depth-0 chain only
	}
	units := make(chan unit, 64)
	var total counters
	var repeats int64 // findings whose signature the same worker had reported before
	var mu sync.Mutex
	var wg sync.WaitGroup
	var sampled atomic.Int32
	for n := 0; n < runtime.NumCPU(); n++ {
		wg.Add(1)
		go func() {
			defer wg.Done()
			cnt := counters{seen: map[string]int{}}
			for u := range units {
				w := u.w
				err := w.rt.err
				plain := err.Error()
				if w.base != nil {
					if f := guarded("EmbedObject", func() { err = gerrors.EmbedObject(w.base.val, w.rt.err) }); f != nil {
						run.Violation(f.sig, f.what, kase{Class: classes[w.rt.ci].name, Root: w.rt.name, Embed: embInner, Object: w.base.name})
						continue
					}
				}
				before := cnt.tuples
				if u.first < 0 {
					only := *w // the depth-0 chain alone
					only.maxDepth, only.mixedDepth = 0, 0
					only.explore(run, err, plain, nil, true, &cnt)
				} else {
					l := alphabet[u.first]
					w.explore(run, l.wrap(err), l.Pre+plain+l.Suf, []layer{l}, l.Shape == "", &cnt)
				}
				run.Eval(int(cnt.tuples - before))
				if u.first >= 0 && w.base != nil && w.rt.name == "" && (alphabet[u.first].Name == "esc-jso" || alphabet[u.first].Shape == shapeJoinLeft) && sampled.Add(1) <= 3 {
					k := kase{Class: classes[w.rt.ci].name, Layers: []layer{alphabet[u.first], corpus[2]}, Embed: embInner, Object: w.base.name}
					if e, f := buildChain(k, nil); f == nil {
						run.Sample(map[string]any{"case": k, "chain_text": e.Error(), "wrapped_text": gerrors.GRPCWrap(e).Error()})
					}
				}
			}
			mu.Lock()
			for _, n := range cnt.seen {
				if n > 1 {
					repeats += int64(n - 1)
				}
			}
			total.add(&cnt)
			mu.Unlock()
		}()
	}
	for _, w := range walks {
		units <- unit{w, -1}
		for first, l := range alphabet {
			if w.allowed(0, true, l) {
				units <- unit{w, first}
			}
		}
	}
	close(units)
	wg.Wait()

	// the text-stress family (stress_test.go)
	var osStress []root
	for _, rt := range allOS {
		if rt.qualifies() && classes[rt.ci].coded {
			osStress = append(osStress, rt)
		}
	}
	stressNames, problem := runStress(run, osStress, &total, &repeats)
	if problem != "" {
		run.Inconclusive(problem)
		return
	}

	// code -> class
	var msgs []string
	for _, l := range corpus {
		msgs = append(msgs, l.Pre+"x"+l.Suf)
	}
	msgs = append(msgs, "", marker+`{"a":1}`+marker+": embedded")
	msgs = append(msgs, stressMessages()...)
	codePairs := 0
	for code := codes.OK; code <= codes.Unauthenticated; code++ {
		for _, m := range msgs {
			codePairs++
			run.Eval(1)
			c := int(code)
			for _, f := range append(checkCode(code, m), checkCodeSame(code, m, msgs[0])...) {
				run.Violation(f.sig, f.what, kase{Code: &c, Msg: m})
			}
		}
	}
	for ci, c := range classes {
		if !c.coded {
			continue
		}
		run.Eval(1)
		for _, f := range checkRoundTrip(ci) {
			run.Violation(f.sig, f.what, kase{Class: c.name, Embed: embNone})
		}
	}

	run.DistinctAdd(total.tuples + int64(codePairs))
	run.Exhaustive(true)
	run.Add("chains", total.chains)
	run.Add("chains_without_object", total.embNone)
	run.Add("chains_object_innermost", total.embInner)
	run.Add("chains_object_outermost", total.embOuter)
	run.Add("chains_with_a_non_linear_layer", total.shapeChains)
	run.Add("chains_around_a_real_os_error", total.osChains)
	run.Add("chains_with_a_percent_object", total.pctChains)
	run.Add("chains_excluded_marker_formed", total.pruned)
	run.Add("class_pairs_asked", total.tuples)
	run.Add("stress_chains", total.stressChains)
	run.Add("stress_chains_with_the_text_of_a_class", total.classTextChains)
	run.Add("stress_chains_with_the_text_of_a_grpc_code", total.codeTextChains)
	run.Add("stress_chains_with_a_long_text", total.longTextChains)
	run.Add("stress_chains_with_a_big_object", total.bigObjChains)
	run.Max("longest_chain_message_bytes", total.maxMsg)
	run.Add("code_message_pairs", int64(codePairs))
	run.Add("repeated_findings_not_reported_again", repeats)
	run.Note("chains_by_depth", total.byDepth)
	var objNames, layerNames []string
	for _, o := range objects {
		objNames = append(objNames, o.name)
	}
	for _, l := range alphabet {
		layerNames = append(layerNames, l.Name)
	}
	run.Note("space", map[string]any{
		"coded_classes": coded, "coded_classes_derived": len(derived), "asked_classes": len(classes), "layer_texts": len(corpus), "layer_shapes": len(shapes),
		"depth_any_layer": 3, "depth_text_layers_only": maxDepth, "depth_percent_objects_and_os_objects": shallowDepth,
		"objects": objNames, "grpc_codes": 17, "messages_per_code": len(msgs),
	})
	run.Note("layers", layerNames)
	run.Note("stress_layers", stressNames)
	run.Note("os_errors_used", osUsed)
	run.Note("os_errors_not_used", osNotUsed)
	run.Note("os_errors_of_a_class_without_code_not_judged", uncoded)
	run.Sample(fmt.Sprintf("code direction: status.Error(Aborted, %q) -> %v", msgs[3], gerrors.FromGRPCError(status.Error(codes.Aborted, msgs[3]))))
	if total.embInner == 0 || total.embOuter == 0 || total.byDepth[maxDepth] == 0 || total.shapeChains == 0 || total.pctChains == 0 {
		run.Inconclusive("a part of the space was not visited")
	}
	if total.classTextChains == 0 || total.codeTextChains == 0 || total.longTextChains == 0 || total.bigObjChains == 0 || total.maxMsg < 65536 {
		run.Inconclusive("a part of the text-stress family was not visited")
	}
	if len(osUsed) < 4 || total.osChains == 0 {
		run.Inconclusive(fmt.Sprintf("too few real OS errors could be produced (%d)", len(osUsed)))
	}
}

func replay(run *report.Run, path string, roots []root) {
	b, err := os.ReadFile(path)
	if err != nil {
		run.Inconclusive("cannot read replay file: " + err.Error())
		return
	}
	var doc struct {
		Witness kase `json:"witness"`
	}
	if err := json.Unmarshal(b, &doc); err != nil {
		run.Inconclusive("cannot parse replay file: " + err.Error())
		return
	}
	k := doc.Witness
	run.Eval(1)
	run.DistinctAdd(2)
	run.Sample(k)
	var fs []finding
	switch {
	case k.Code != nil:
		fs = append(checkCode(codes.Code(*k.Code), k.Msg), checkCodeSame(codes.Code(*k.Code), k.Msg, "x")...)
	default:
		ci, ok := classByName(k.Class)
		if !ok {
			run.Inconclusive("unknown class in the replay file: " + k.Class)
			return
		}
		e, f := buildChain(k, roots)
		if f != nil {
			fs = append(fs, *f)
		} else {
			fs, _ = checkChain(ci, e, k.Embed, objectByName(k.Object), nil)
		}
		if classes[ci].coded {
			fs = append(fs, checkRoundTrip(ci)...)
		}
	}
	for _, f := range fs {
		run.Violation(f.sig, f.what, k)
	}
	if len(fs) == 0 {
		fmt.Println("REPLAY: no violation on this tree")
	}
}
