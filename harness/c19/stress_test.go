// The text-stress family of chains of C19: "arbitrary message texts" beyond the fixed corpus.
//
// The layers here carry texts that the main enumeration does not have:
//   - the text of each of the twelve class sentinels (in front of the inner message, at the very end of
//     the message, quoted in the middle) - a class must not be derived from what a message says;
//   - the rendering of each of the 17 gRPC codes ("rpc error: code = X desc = ") in front;
//   - long texts (kilobytes to tens of kilobytes, in front and behind).
//
// and two big objects (JSON of a few KB and of > 64 KB) are embedded. A chain of this family contains at
// least one such layer or a big object; the other layers come from the main alphabet (texts and shapes).
package c19

import (
	"encoding/json"
	"fmt"
	"reflect"
	"runtime"
	"strings"
	"sync"

	gerrors "github.com/acquirecloud/golibs/errors"
	"google.golang.org/grpc/codes"

	"verifharness/internal/report"
)

const (
	kClassText = 1 << iota
	kCodeText
	kLongText
)

const (
	longUnitPre = "0123456789abcdé✓: " // 21 bytes, multi-byte runes so that a cut may fall inside one
	longUnitSuf = " / 0123456789é✓"    // 18 bytes
)

func layerKind(l layer) int {
	switch {
	case strings.HasPrefix(l.Name, "class-text"):
		return kClassText
	case strings.HasPrefix(l.Name, "code-text"):
		return kCodeText
	case strings.HasPrefix(l.Name, "long-"):
		return kLongText
	}
	return 0
}

func stressLayers(thorough bool) []layer {
	var out []layer
	for _, c := range classes {
		t := c.err.Error()
		out = append(out,
			// fmt.Errorf("<class text>: %w", inner), e.g. a lower level's failure reported as text (%v)
			layer{Name: "class-text-first/" + c.name, Pre: t + ": "},
			// fmt.Errorf("%w: cannot flush the segment: %v", inner, <error of another class>)
			layer{Name: "class-text-last/" + c.name, Suf: ": cannot flush the segment: " + t},
			layer{Name: "class-text-quoted/" + c.name, Pre: `the peer said "` + t + `" and then: `},
		)
	}
	for code := codes.OK; code <= codes.Unauthenticated; code++ {
		out = append(out, layer{Name: "code-text/" + code.String(), Pre: "rpc error: code = " + code.String() + " desc = "})
	}
	out = append(out,
		layer{Name: "long-prefix-5k", Pre: longUnitPre, Rep: 250},
		layer{Name: "long-suffix-5k", Suf: longUnitSuf, Rep: 290},
		layer{Name: "long-prefix-70k", Pre: longUnitPre, Rep: 3400},
	)
	if thorough {
		out = append(out,
			layer{Name: "long-prefix-1k", Pre: longUnitPre, Rep: 50},
			layer{Name: "long-prefix-2k", Pre: longUnitPre, Rep: 100},
			layer{Name: "long-suffix-70k", Suf: longUnitSuf, Rep: 4000},
			layer{Name: "long-prefix-300k", Pre: longUnitPre, Rep: 15000},
		)
	}
	return out
}

// bigObjects are embedded in the text-stress family only.
var bigObjects = func() []object {
	tags := make([]string, 400)
	for i := range tags {
		tags[i] = fmt.Sprintf("id-%04d/é✓", i)
	}
	return []object{
		{"big-struct-5k", false,
			payload{Name: "big", N: 400, Tags: tags, Inner: &payload{Name: "in: \"q\"", N: 1, Tags: []string{"x"}}},
			func() any { return new(payload) }, func(p any) any { return *p.(*payload) }},
		strObject("big-string-70k", strings.Repeat("0123456789 \"abc\" é✓: ", 3200)),
	}
}()

const hugeBytes = 60000 // an object with more JSON / a layer with more text than this is used in chains up to hugeDepth only

type stressObj struct {
	*object
	jsonLen int
	big     bool // one of bigObjects: its chains belong to the family even without a stress layer
}

// stressWalk is one family of text-stress chains: a root, an optional inner embedding, the objects for
// the outer embedding, the depth bound and the number of stress layers a chain may have.
type stressWalk struct {
	rt            root
	base          *stressObj
	outer         []*stressObj
	depth         int
	maxStress     int
	minStress     int // > 0: only chains with at least so many stress layers belong to this walk
	hugeDepth     int
	plain, stress []layer
}

func isHuge(l layer) bool { return l.Rep*(len(l.Pre)+len(l.Suf)) > hugeBytes }

func (w *stressWalk) explore(run *report.Run, err error, plainMsg string, layers []layer, nStress, kinds int, shaped bool, cnt *counters) {
	d := len(layers)
	if strings.Contains(plainMsg, marker) { // same generator restriction as in the main enumeration
		cnt.pruned++
		return
	}
	eval := func(e error, emb string, obj *stressObj) {
		var o *object
		if obj != nil {
			o = obj.object
		}
		fs, asked := checkChain(w.rt.ci, e, emb, o, cnt.seen)
		cnt.chains++
		cnt.stressChains++
		cnt.tuples += int64(asked)
		cnt.byDepth[d]++
		switch emb {
		case embNone:
			cnt.embNone++
		case embInner:
			cnt.embInner++
		default:
			cnt.embOuter++
		}
		if shaped {
			cnt.shapeChains++
		}
		if w.rt.name != "" {
			cnt.osChains++
		}
		if kinds&kClassText != 0 {
			cnt.classTextChains++
		}
		if kinds&kCodeText != 0 {
			cnt.codeTextChains++
		}
		if kinds&kLongText != 0 {
			cnt.longTextChains++
		}
		if obj != nil && obj.big {
			cnt.bigObjChains++
		}
		cnt.maxMsg = max(cnt.maxMsg, int64(len(e.Error())))
		for _, f := range fs {
			k := kase{Class: classes[w.rt.ci].name, Root: w.rt.name, Layers: append([]layer(nil), layers...), Embed: emb}
			if obj != nil {
				k.Object = obj.name
			}
			run.Violation(f.sig, f.what, k)
		}
	}
	usable := func(o *stressObj) bool {
		if o.jsonLen > hugeBytes && d > w.hugeDepth {
			return false
		}
		if w.minStress > 0 {
			return nStress >= w.minStress
		}
		return nStress > 0 || o.big
	}
	if w.base != nil {
		if usable(w.base) {
			eval(err, embInner, w.base)
		}
	} else {
		if nStress > 0 && nStress >= w.minStress {
			eval(err, embNone, nil)
		}
		for _, o := range w.outer {
			if d == 0 || !usable(o) { // at depth 0 the outer embedding is the inner one
				continue
			}
			var oe error
			if f := guarded("EmbedObject", func() { oe = gerrors.EmbedObject(o.val, err) }); f != nil {
				run.Violation(f.sig, f.what, kase{Class: classes[w.rt.ci].name, Root: w.rt.name, Layers: append([]layer(nil), layers...), Embed: embOuter, Object: o.name})
				continue
			}
			eval(oe, embOuter, o)
		}
	}
	if d >= w.depth {
		return
	}
	if w.base != nil && w.base.jsonLen > hugeBytes && d >= w.hugeDepth {
		return
	}
	for _, l := range layers {
		if isHuge(l) && d >= w.hugeDepth {
			return
		}
	}
	for _, l := range w.plain {
		w.explore(run, l.wrap(err), l.Pre+plainMsg+l.Suf, append(layers, l), nStress, kinds, shaped || l.Shape != "", cnt)
	}
	if nStress < w.maxStress {
		for _, l := range w.stress {
			if isHuge(l) && d+1 > w.hugeDepth {
				continue
			}
			pre, suf := l.texts()
			w.explore(run, l.wrap(err), pre+plainMsg+suf, append(layers, l), nStress+1, kinds|layerKind(l), shaped, cnt)
		}
	}
}

// runStress enumerates the text-stress family. It returns the layers used, or "" and a reason when a
// self-check of the generator failed.
func runStress(run *report.Run, osRoots []root, total *counters, repeats *int64) (names []string, problem string) {
	stress := stressLayers(run.Thorough())
	seen := map[string]bool{}
	for _, l := range alphabet {
		seen[l.Shape+"\x00"+l.Pre+"\x00"+l.Suf] = true
	}
	for _, l := range stress {
		pre, suf := l.texts()
		key := "\x00" + pre + "\x00" + suf
		if seen[key] || strings.Contains(pre, marker) || strings.Contains(suf, marker) || layerKind(l) == 0 {
			return nil, "stress layer " + l.Name + " is a duplicate, of no kind or contains the complete marker"
		}
		seen[key] = true
		if got := l.wrap(fmt.Errorf("X")).Error(); got != pre+"X"+suf {
			return nil, "stress layer " + l.Name + " does not format as declared"
		}
		names = append(names, l.Name)
	}
	var objs []*stressObj
	for _, o := range append(append([]object(nil), objects...), bigObjects...) {
		o := o
		isBig := strings.HasPrefix(o.name, "big-")
		if !o.deep && !isBig {
			continue
		}
		b, err := json.Marshal(o.val)
		ptr := o.out()
		if err != nil || json.Unmarshal(b, ptr) != nil || !reflect.DeepEqual(o.get(ptr), o.val) || strings.Contains(string(b), marker) {
			return nil, "object " + o.name + " does not survive encoding/json"
		}
		if isBig && len(b) < 4096 {
			return nil, "object " + o.name + " was meant to be big"
		}
		objs = append(objs, &stressObj{objectByName(o.name), len(b), isBig})
	}

	depth, hugeDepth := run.Pick(2, 3), run.Pick(1, 2)
	var walks []*stressWalk
	for ci, c := range classes {
		if !c.coded {
			continue
		}
		rt := root{"", ci, c.err}
		walks = append(walks, &stressWalk{rt: rt, outer: objs, depth: depth, maxStress: 1, hugeDepth: hugeDepth, plain: alphabet, stress: stress})
		for _, o := range objs {
			walks = append(walks, &stressWalk{rt: rt, base: o, depth: depth, maxStress: 1, hugeDepth: hugeDepth, plain: alphabet, stress: stress})
		}
		if run.Thorough() { // two stress layers on top of each other
			walks = append(walks, &stressWalk{rt: rt, outer: objs, depth: 2, maxStress: 2, minStress: 2, hugeDepth: hugeDepth, stress: stress})
			walks = append(walks, &stressWalk{rt: rt, base: objs[0], depth: 2, maxStress: 2, minStress: 2, hugeDepth: hugeDepth, stress: stress})
		}
	}
	for _, rt := range osRoots {
		walks = append(walks, &stressWalk{rt: rt, depth: 1, maxStress: 1, hugeDepth: 1, stress: stress})
		walks = append(walks, &stressWalk{rt: rt, base: objs[0], depth: 1, maxStress: 1, hugeDepth: 1, stress: stress})
	}

	type unit struct {
		w      *stressWalk
		first  int // index into w.plain followed by w.stress; -1: the depth-0 chain
		sample bool
	}
	units := make(chan unit, 64)
	var mu sync.Mutex
	var wg sync.WaitGroup
	for n := 0; n < runtime.NumCPU(); n++ {
		wg.Add(1)
		go func() {
			defer wg.Done()
			cnt := counters{seen: map[string]int{}}
			for u := range units {
				w := u.w
				err := w.rt.err
				plain := err.Error()
				if w.base != nil {
					if f := guarded("EmbedObject", func() { err = gerrors.EmbedObject(w.base.val, w.rt.err) }); f != nil {
						run.Violation(f.sig, f.what, kase{Class: classes[w.rt.ci].name, Root: w.rt.name, Embed: embInner, Object: w.base.name})
						continue
					}
				}
				before := cnt.tuples
				switch {
				case u.first < 0:
					only := *w
					only.depth = 0
					only.explore(run, err, plain, nil, 0, 0, false, &cnt)
				case u.first < len(w.plain):
					l := w.plain[u.first]
					w.explore(run, l.wrap(err), l.Pre+plain+l.Suf, []layer{l}, 0, 0, l.Shape != "", &cnt)
				default:
					l := w.stress[u.first-len(w.plain)]
					pre, suf := l.texts()
					w.explore(run, l.wrap(err), pre+plain+suf, []layer{l}, 1, layerKind(l), false, &cnt)
					if u.sample {
						e := l.wrap(err)
						run.Sample(map[string]any{"case": kase{Class: classes[w.rt.ci].name, Layers: []layer{l}, Embed: embNone},
							"chain_text": clipN(e.Error(), 400), "wrapped_text": clipN(gerrors.GRPCWrap(e).Error(), 400)})
					}
				}
				run.Eval(int(cnt.tuples - before))
			}
			mu.Lock()
			for _, n := range cnt.seen {
				if n > 1 {
					*repeats += int64(n - 1)
				}
			}
			total.add(&cnt)
			mu.Unlock()
		}()
	}
	for _, w := range walks {
		units <- unit{w, -1, false}
		for i := 0; i < len(w.plain)+len(w.stress); i++ {
			// samples: ErrInternal under the text of another class at the end, and under a long text
			s := classes[w.rt.ci].name == "ErrInternal" && w.rt.name == "" && w.base == nil && w.minStress == 0 && i >= len(w.plain) && (w.stress[i-len(w.plain)].Name == "class-text-last/ErrClosed" || w.stress[i-len(w.plain)].Name == "long-prefix-5k")
			units <- unit{w, i, s}
		}
	}
	close(units)
	wg.Wait()
	return names, ""
}

// stressMessages are the additional messages of the code -> class direction.
func stressMessages() (out []string) {
	for _, c := range classes {
		t := c.err.Error()
		out = append(out, t, "x: "+t, t+": x")
	}
	return append(out, strings.Repeat(longUnitPre, 250)+"x", strings.Repeat(longUnitPre, 3400)+"x")
}

// clip shortens a text for a message or a sample (the witness keeps the complete case).
func clip(s string) string { return clipN(s, 3000) }

func clipN(s string, n int) string {
	if len(s) <= n {
		return s
	}
	k := n/2 - 50
	return fmt.Sprintf("%s ...[%d bytes]... %s", strings.ToValidUTF8(s[:k], ""), len(s)-2*k, strings.ToValidUTF8(s[len(s)-k:], ""))
}
