// C05 — distributed lock: lease is kept while held and lapses after holder death (DESIGN §3 C05).
// Real clock (the timer package cannot run under virtual time), short leases through a verif hook,
// a storage tap per provider (log, delay, fault injection, "death"), a stall canary guarding the
// two-sided bounds.
package c05

import (
	"context"
	"encoding/json"
	"errors"
	"fmt"
	"math/rand"
	"os"
	"sort"
	"strings"
	"sync"
	"sync/atomic"
	"testing"
	"time"

	"github.com/acquirecloud/golibs/container/iterable"
	gerrors "github.com/acquirecloud/golibs/errors"
	"github.com/acquirecloud/golibs/kvs"
	dist "github.com/acquirecloud/golibs/kvs/distlock"
	"github.com/acquirecloud/golibs/kvs/inmem"
	gsync "github.com/acquirecloud/golibs/sync"
	"github.com/acquirecloud/golibs/timeout"

	"verifharness/internal/locksim"
	"verifharness/internal/locktap"
	"verifharness/internal/report"
	"verifharness/internal/shard"
)

func TestMain(m *testing.M) {
	locksim.SilenceLogging()
	os.Exit(report.ExitCode(m.Run()))
}

// ---------------------------------------------------------------- stall canary

type canary struct {
	worst atomic.Int64 // worst overshoot of a 2 ms sleep, ns
	stop  chan struct{}
}

func startCanary() *canary {
	c := &canary{stop: make(chan struct{})}
	go func() {
		for {
			select {
			case <-c.stop:
				return
			default:
			}
			t := time.Now()
			time.Sleep(2 * time.Millisecond)
			over := int64(time.Since(t) - 2*time.Millisecond)
			for {
				w := c.worst.Load()
				if over <= w || c.worst.CompareAndSwap(w, over) {
					break
				}
			}
		}
	}()
	return c
}

// stallBound is the largest stall (of the canary, or of an in-memory Create seen in the tap log of a finding, which
// takes microseconds on a machine that is not stalled) under which a time-bound verdict of the scenario counts. S2
// with two consecutive lost renewals races L/2 + L/8 + L/8 of timers against one lease: its slack of L/4 can be eaten
// by three or four stalls (Create, first timer, the retries), so a single one must stay below L/16; everything else
// has at least 3L/8 of slack.
func stallBound(sc scen) time.Duration {
	if sc.Kind == "S2" {
		return sc.L / 16
	}
	return sc.L / 8
}

// observedStall: the canary's worst oversleep, or the longest in-memory Create in the tap logs of the findings
// (scenarios whose tap delays calls on purpose are left out).
func observedStall(sc scen, canary time.Duration, fs []finding) time.Duration {
	worst := canary
	if sc.SlowBefore != 0 || sc.SlowAfter != 0 {
		return worst
	}
	for _, f := range fs {
		m, ok := f.w.(map[string]any)
		if !ok {
			continue
		}
		evs, ok := m["tap"].([]tapEv)
		if !ok {
			continue
		}
		for _, ev := range evs {
			if ev.Op == "Create" && ev.Fault == "" && ev.Ret-ev.Call > worst {
				worst = ev.Ret - ev.Call
			}
		}
	}
	return worst
}

// ---------------------------------------------------------------- storage tap

type tapEv struct {
	Op    string        `json:"op"`
	Call  time.Duration `json:"call"`
	Ret   time.Duration `json:"ret"`
	Err   string        `json:"err"`
	Ver   string        `json:"ver,omitempty"`     // version given (Cas)
	NewV  string        `json:"new_ver,omitempty"` // version produced
	App   time.Duration `json:"applied,omitempty"` // when the storage executed the call (slow answers: earlier than Ret)
	Exp   time.Duration `json:"expires,omitempty"` // ExpiresAt of the written record, relative to base
	Fault string        `json:"fault,omitempty"`
}

var errTap = errors.New("injected: storage unavailable")

type tap struct {
	inner   kvs.Storage
	base    time.Time
	mu      sync.Mutex
	log     []tapEv
	casN    int
	failCas map[int]bool // fail the k-th CasByVersion (1-based) without executing it
	dead    atomic.Bool  // refuse everything (holder process died)
	// honourCtx: like a network backend, refuse a call whose context is already done
	honourCtx bool
	casDelay  func() time.Duration
	// slowBefore / slowAfter: every CasByVersion takes that long before it is executed / before its answer comes
	// back; a caller whose context ends meanwhile gets the context's error at once (not executed / executed)
	slowBefore, slowAfter time.Duration
	// holdAnswer: the answer of the k-th CasByVersion is kept in flight after the call was applied:
	// applied is closed when the storage has executed it, the call returns when release is closed
	holdAnswer int
	applied    chan struct{}
	release    chan struct{}
}

func (t *tap) now() time.Duration { return time.Since(t.base) }
func (t *tap) add(e tapEv)        { t.mu.Lock(); t.log = append(t.log, e); t.mu.Unlock() }
func (t *tap) events() []tapEv {
	t.mu.Lock()
	defer t.mu.Unlock()
	return append([]tapEv(nil), t.log...)
}
func cls(err error) string {
	switch {
	case err == nil:
		return "nil"
	case errors.Is(err, gerrors.ErrNotExist):
		return "ErrNotExist"
	case errors.Is(err, gerrors.ErrConflict):
		return "ErrConflict"
	case errors.Is(err, gerrors.ErrExist):
		return "ErrExist"
	case errors.Is(err, errTap):
		return "injected"
	}
	return "other:" + err.Error()
}

func (t *tap) Create(ctx context.Context, r kvs.Record) (string, error) {
	c := t.now()
	if t.dead.Load() {
		t.add(tapEv{Op: "Create", Call: c, Ret: t.now(), Err: "injected", Fault: "dead"})
		return "", errTap
	}
	if t.honourCtx && ctx.Err() != nil {
		t.add(tapEv{Op: "Create", Call: c, Ret: t.now(), Err: "ctx", Fault: "context-done"})
		return "", ctx.Err()
	}
	v, err := t.inner.Create(ctx, r)
	e := tapEv{Op: "Create", Call: c, Ret: t.now(), Err: cls(err), NewV: v}
	if err == nil && r.ExpiresAt != nil {
		e.Exp = r.ExpiresAt.Sub(t.base)
	}
	t.add(e)
	return v, err
}

func (t *tap) CasByVersion(ctx context.Context, r kvs.Record) (kvs.Record, error) {
	c := t.now()
	t.mu.Lock()
	t.casN++
	k := t.casN
	fail := t.failCas[k]
	t.mu.Unlock()
	if t.dead.Load() {
		t.add(tapEv{Op: "Cas", Call: c, Ret: t.now(), Err: "injected", Ver: r.Version, Fault: "dead"})
		return kvs.Record{}, errTap
	}
	if fail {
		t.add(tapEv{Op: "Cas", Call: c, Ret: t.now(), Err: "injected", Ver: r.Version, Fault: fmt.Sprintf("renewal-%d-lost", k)})
		return kvs.Record{}, errTap
	}
	if t.casDelay != nil {
		time.Sleep(t.casDelay())
	}
	if t.slowBefore > 0 {
		select {
		case <-time.After(t.slowBefore):
		case <-ctx.Done():
		}
	}
	if t.honourCtx && ctx.Err() != nil {
		t.add(tapEv{Op: "Cas", Call: c, Ret: t.now(), Err: "ctx", Ver: r.Version, Fault: "context-done"})
		return kvs.Record{}, ctx.Err()
	}
	res, err := t.inner.CasByVersion(ctx, r)
	app := t.now()
	if t.holdAnswer == k && t.applied != nil {
		close(t.applied)
		<-t.release
	}
	if t.slowAfter > 0 {
		select {
		case <-time.After(t.slowAfter):
		case <-ctx.Done():
			ne := tapEv{Op: "Cas", Call: c, App: app, Ret: t.now(), Err: "ctx", Ver: r.Version, NewV: res.Version, Fault: "context-done-while-the-answer-was-on-its-way"}
			if err == nil && r.ExpiresAt != nil {
				ne.Exp = r.ExpiresAt.Sub(t.base)
			}
			t.add(ne)
			return kvs.Record{}, ctx.Err()
		}
	}
	e := tapEv{Op: "Cas", Call: c, App: app, Ret: t.now(), Err: cls(err), Ver: r.Version, NewV: res.Version}
	if err == nil && r.ExpiresAt != nil {
		e.Exp = r.ExpiresAt.Sub(t.base)
	}
	t.add(e)
	return res, err
}

func (t *tap) Delete(ctx context.Context, key string) error {
	c := t.now()
	if t.dead.Load() {
		t.add(tapEv{Op: "Delete", Call: c, Ret: t.now(), Err: "injected", Fault: "dead"})
		return errTap
	}
	err := t.inner.Delete(ctx, key)
	t.add(tapEv{Op: "Delete", Call: c, Ret: t.now(), Err: cls(err)})
	return err
}

func (t *tap) WaitForVersionChange(ctx context.Context, key, ver string) error {
	if t.dead.Load() {
		return errTap
	}
	return t.inner.WaitForVersionChange(ctx, key, ver)
}
func (t *tap) Get(ctx context.Context, key string) (kvs.Record, error) { return t.inner.Get(ctx, key) }
func (t *tap) GetMany(ctx context.Context, keys ...string) ([]*kvs.Record, error) {
	return t.inner.GetMany(ctx, keys...)
}
func (t *tap) Put(ctx context.Context, r kvs.Record) (kvs.Record, error) { return t.inner.Put(ctx, r) }
func (t *tap) PutMany(ctx context.Context, rs []kvs.Record) error        { return t.inner.PutMany(ctx, rs) }
func (t *tap) ListKeys(ctx context.Context, p string) (iterable.Iterator[string], error) {
	return t.inner.ListKeys(ctx, p)
}

// ---------------------------------------------------------------- scenarios

type scen struct {
	Kind    string        `json:"kind"` // S1 S2 S3 S4
	L       time.Duration `json:"lease"`
	K       int           `json:"k,omitempty"`         // S2: which renewal fails
	Acquire string        `json:"acquire,omitempty"`   // S1: how the holder acquires: "" Lock, "ctx" LockWithCtx, "try" TryLock - the context is cancelled right after
	Ks      []int         `json:"ks,omitempty"`        // S2: several storage calls of the renewal chain fail (k-th CasByVersion each)
	Phase   time.Duration `json:"phase,omitempty"`     // S3: death phase within the renewal cycle; S4: hold time
	Re      string        `json:"reacquire,omitempty"` // S4: "", "same", "other"
	// S8: every renewal takes SlowBefore until it is executed and SlowAfter until its answer is back
	SlowBefore time.Duration `json:"slow_before,omitempty"`
	SlowAfter  time.Duration `json:"slow_after,omitempty"`
	ShutHolder bool          `json:"shut_holder,omitempty"` // S2: the holder's provider is shut down right after the acquisition
	// S7: before the lock is taken the process already has far timers pending: a lock of another name held with a
	// 30 s lease (its renewal is due in 15 s) and a foreign timeout.Call 20 s ahead
	FarTimers bool  `json:"far_timers,omitempty"`
	Seed      int64 `json:"seed"`
}

type finding struct {
	sig, what string
	timeBound bool // verdict rests on a two-sided time bound: guarded by the canary
	w         any
}

type env struct {
	base  time.Time
	inner kvs.Storage
	key   string
}

func newEnv() *env { return &env{base: time.Now(), inner: inmem.New(), key: "/lk/x"} }

func (e *env) provider(L time.Duration) (*tap, dist.LockProvider) {
	t := &tap{inner: e.inner, base: e.base, failCas: map[int]bool{}, honourCtx: true}
	p := dist.NewKvsLockProvider(t, "/lk/")
	if !dist.VerifSetLeaseTTL(p, L) {
		panic("VerifSetLeaseTTL: unexpected provider type")
	}
	return t, p
}

// successes returns the successful Create / renewal events of a tap in order.
func successes(evs []tapEv) []tapEv {
	var res []tapEv
	for _, e := range evs {
		if (e.Op == "Create" || e.Op == "Cas") && e.Err == "nil" {
			res = append(res, e)
		}
	}
	return res
}

// leaseGaps checks the tenure recorded in evs: every renewal completes before the previous expiry and the
// unlock (or the end of observation) comes before the last expiry.
func leaseGaps(evs []tapEv, end time.Duration) (string, bool) {
	succ := successes(evs)
	for i := 0; i+1 < len(succ); i++ {
		done := succ[i+1].Ret
		if succ[i+1].App != 0 {
			done = succ[i+1].App
		}
		if done >= succ[i].Exp {
			return fmt.Sprintf("renewal %d was executed at %v, after the lease it renews ran out at %v", i+1, done, succ[i].Exp), true
		}
	}
	if len(succ) > 0 && end >= succ[len(succ)-1].Exp {
		return fmt.Sprintf("the lock was still held at %v but the last lease written runs out at %v (%d successful writes)", end, succ[len(succ)-1].Exp, len(succ)), true
	}
	return "", false
}

// guardTenure watches a tenure that is already running (its storage traffic goes through t) for hold:
// a contender of another provider spins TryLock and must never get the lock, the record must stay in the
// store, and the tenure's lease must never have a gap.
func guardTenure(e *env, sc scen, t *tap, spinner gsync.Locker, hold time.Duration, label string) []finding {
	L := sc.L
	var out []finding
	var mu sync.Mutex
	stop := make(chan struct{})
	var wg sync.WaitGroup
	wg.Add(1)
	go func() {
		defer wg.Done()
		for {
			select {
			case <-stop:
				return
			default:
			}
			if spinner.TryLock(context.Background()) {
				mu.Lock()
				out = append(out, finding{sig: "lease/contender-acquired-while-held/" + label, what: fmt.Sprintf("%s L=%v: TryLock of a contender succeeded at %v during the tenure of a caller that had acquired after waiting", sc.Kind, L, time.Since(e.base)), timeBound: true, w: map[string]any{"scenario": sc, "tap": t.events()}})
				mu.Unlock()
				spinner.Unlock()
				return
			}
			time.Sleep(L / 10)
		}
	}()
	deadline := time.Now().Add(hold)
	missing := time.Duration(0)
	for time.Now().Before(deadline) {
		if _, err := e.inner.Get(context.Background(), e.key); err != nil && missing == 0 {
			missing = time.Since(e.base)
		}
		time.Sleep(L / 4)
	}
	end := time.Since(e.base)
	close(stop)
	wg.Wait()
	evs := t.events()
	if missing != 0 {
		out = append(out, finding{sig: "lease/record-gone-while-held/" + label, what: fmt.Sprintf("%s L=%v: the lock record of a caller that acquired after waiting was not in the store at %v although it still held the lock (until %v)", sc.Kind, L, missing, end), timeBound: true, w: map[string]any{"scenario": sc, "tap": evs}})
	}
	// only the part of the log that belongs to the watched tenure: from its successful Create on
	start := -1
	for i, ev := range evs {
		if ev.Op == "Create" && ev.Err == "nil" {
			start = i
		}
	}
	if start >= 0 {
		if msg, bad := leaseGaps(evs[start:], end); bad {
			out = append(out, finding{sig: "lease/gap/" + label, what: fmt.Sprintf("%s L=%v: %s", sc.Kind, L, msg), timeBound: true, w: map[string]any{"scenario": sc, "tap": evs}})
		}
		// measured from the moment the Create was ISSUED (the expiry is computed right before it; judging from its
		// return would blame a call that was slow on a loaded machine)
		if first := evs[start]; first.Exp < first.Call+L*3/4 {
			out = append(out, finding{sig: "lease/short-first-lease/" + label, what: fmt.Sprintf("%s L=%v: the record whose Create was issued at %v for a caller that had waited expires at %v: its first lease is shorter than 3/4 of the lease period", sc.Kind, L, first.Call, first.Exp), w: map[string]any{"scenario": sc, "tap": evs}})
		}
	}
	return out
}

// hold runs S1/S2: a holder keeps the lock for hold while contenders try; returns findings.
func holdScenario(sc scen, hold time.Duration) []finding {
	e := newEnv()
	L := sc.L
	tH, pH := e.provider(L)
	_, pC := e.provider(L)
	tC2, pC2 := e.provider(L)
	var shutH sync.Once
	defer shutH.Do(pH.Shutdown)
	defer pC.Shutdown()
	defer pC2.Shutdown()
	tH.slowBefore, tH.slowAfter = sc.SlowBefore, sc.SlowAfter
	if sc.Kind == "S2" {
		tH.failCas[sc.K] = true
		for _, k := range sc.Ks {
			tH.failCas[k] = true
		}
	}
	h, c1, c2 := pH.NewLocker("x"), pC.NewLocker("x"), pC2.NewLocker("x")
	var out []finding
	var omu sync.Mutex
	add := func(f finding) { omu.Lock(); out = append(out, f); omu.Unlock() }
	var holders atomic.Int32
	switch sc.Acquire {
	case "ctx": // the usual `ctx, cancel := ...; defer cancel()` around the acquisition
		actx, acancel := context.WithTimeout(context.Background(), 5*time.Second)
		if err := h.LockWithCtx(actx); err != nil {
			acancel()
			return []finding{{sig: "harness/acquire-failed", what: err.Error(), timeBound: true, w: sc}}
		}
		acancel()
	case "try":
		actx, acancel := context.WithCancel(context.Background())
		if !h.TryLock(actx) {
			acancel()
			return []finding{{sig: "harness/acquire-failed", what: "TryLock on a free lock failed", timeBound: true, w: sc}}
		}
		acancel()
	default:
		h.Lock()
	}
	holders.Add(1)
	if sc.ShutHolder {
		// the provider is shut down while its Locker is still held: no new attempt succeeds, but the holder holds on
		shutH.Do(pH.Shutdown)
	}
	stop := make(chan struct{})
	ctx, cancel := context.WithCancel(context.Background())
	var wg sync.WaitGroup
	wg.Add(2)
	var tries atomic.Int64
	go func() { // contender spinning TryLock
		defer wg.Done()
		for {
			select {
			case <-stop:
				return
			default:
			}
			tries.Add(1)
			if c1.TryLock(context.Background()) {
				if holders.Add(1) > 1 {
					add(finding{sig: "lease/contender-acquired-while-held/TryLock", what: fmt.Sprintf("%s L=%v: TryLock of a contender succeeded at %v while the holder still holds", sc.Kind, L, time.Since(e.base)), timeBound: true, w: sc})
				}
				holders.Add(-1)
				c1.Unlock()
			}
			time.Sleep(L / 10)
		}
	}()
	lstop := make(chan struct{})
	var lwg sync.WaitGroup
	lwg.Add(1)
	go func() { // goroutines of the holder's own process trying the SAME Locker object: they must not disturb the tenure
		defer lwg.Done()
		for i := 0; ; i++ {
			select {
			case <-lstop:
				return
			default:
			}
			if i%2 == 0 {
				if h.TryLock(context.Background()) {
					add(finding{sig: "lease/local-trylock-on-held-locker-succeeded", what: fmt.Sprintf("%s L=%v: TryLock on the Locker object that is currently held returned true", sc.Kind, L), w: sc})
					return
				}
			} else {
				lctx, lcancel := context.WithTimeout(context.Background(), L/20)
				err := h.LockWithCtx(lctx)
				lcancel()
				if err == nil {
					add(finding{sig: "lease/local-lockwithctx-on-held-locker-succeeded", what: fmt.Sprintf("%s L=%v: LockWithCtx on the Locker object that is currently held returned nil", sc.Kind, L), w: sc})
					h.Unlock()
					return
				}
			}
			time.Sleep(L / 7)
		}
	}()
	c2Got := make(chan bool, 1)
	c2Release := make(chan struct{})
	go func() { // contender parked in LockWithCtx; it takes over after the holder and then holds itself
		defer wg.Done()
		if c2.LockWithCtx(ctx) == nil {
			if holders.Add(1) > 1 {
				add(finding{sig: "lease/contender-acquired-while-held/LockWithCtx", what: fmt.Sprintf("%s L=%v: a parked LockWithCtx of a contender returned nil at %v while the holder still holds", sc.Kind, L, time.Since(e.base)), timeBound: true, w: sc})
			}
			c2Got <- true
			<-c2Release
			holders.Add(-1)
			c2.Unlock()
			return
		}
		c2Got <- false
	}()
	// probe of the record itself
	deadline := time.Now().Add(hold)
	missing := time.Duration(0)
	for time.Now().Before(deadline) {
		if _, err := e.inner.Get(context.Background(), e.key); err != nil && missing == 0 {
			missing = time.Since(e.base)
		}
		time.Sleep(L / 4)
	}
	if _, err := e.inner.Get(context.Background(), e.key); err != nil && missing == 0 {
		missing = time.Since(e.base)
	}
	end := time.Since(e.base)
	close(lstop)
	lwg.Wait() // the local contender is gone before the holder releases (afterwards it could legitimately acquire)
	close(stop)
	holders.Add(-1)
	h.Unlock()
	// the parked contender (it has waited for the whole hold) takes over and holds for 3 L under the same monitors
	select {
	case got := <-c2Got:
		if got {
			out2 := guardTenure(e, sc, tC2, c1, 3*L, sc.Kind+"-second-tenure")
			omu.Lock()
			out = append(out, out2...)
			omu.Unlock()
		}
	case <-time.After(L + 10*time.Second):
		add(finding{sig: "lease/hand-off-missing/" + sc.Kind, what: fmt.Sprintf("%s L=%v: %v after the holder unlocked the parked contender still has not acquired", sc.Kind, L, L+10*time.Second), timeBound: true, w: sc})
	}
	close(c2Release)
	cancel()
	wg.Wait()
	evs := tH.events()
	if missing != 0 {
		add(finding{sig: "lease/record-gone-while-held/" + sc.Kind, what: fmt.Sprintf("%s L=%v k=%d: the lock record was not in the store at %v although the holder still held the lock (held until %v)", sc.Kind, L, sc.K, missing, end), timeBound: true, w: map[string]any{"scenario": sc, "tap": evs}})
	}
	if msg, bad := leaseGaps(evs, end); bad {
		add(finding{sig: "lease/gap/" + sc.Kind, what: fmt.Sprintf("%s L=%v k=%d: %s", sc.Kind, L, sc.K, msg), timeBound: true, w: map[string]any{"scenario": sc, "tap": evs}})
	}
	if n := len(successes(evs)) - 1; n < int(hold/L) {
		add(finding{sig: "lease/too-few-renewals/" + sc.Kind, what: fmt.Sprintf("%s L=%v k=%d: only %d successful renewals during a hold of %v", sc.Kind, L, sc.K, n, hold), timeBound: true, w: map[string]any{"scenario": sc, "tap": evs}})
	}
	if sc.Kind == "S2" {
		injectedAt, later := -1, false
		for i, ev := range evs {
			if ev.Fault != "" && ev.Op == "Cas" {
				injectedAt = i
			}
		}
		if injectedAt < 0 {
			add(finding{sig: "harness/S2-fault-not-reached", what: fmt.Sprintf("renewal %d never happened", sc.K), timeBound: true, w: sc})
		} else {
			for _, ev := range evs[injectedAt+1:] {
				if ev.Op == "Cas" && ev.Err == "nil" {
					later = true
				}
			}
			if !later {
				add(finding{sig: "lease/renewal-chain-ended-by-transient-error", what: fmt.Sprintf("S2 L=%v: after the injected failure of renewal %d no further renewal succeeded although the lock was held for %v more", L, sc.K, end-evs[injectedAt].Ret), w: map[string]any{"scenario": sc, "tap": evs}})
			}
		}
	}
	return out
}

// deathScenario runs S3.
func deathScenario(sc scen) []finding {
	e := newEnv()
	L := sc.L
	tH, pH := e.provider(L)
	tC, pC := e.provider(L)
	defer pC.Shutdown()
	h, c := pH.NewLocker("x"), pC.NewLocker("x")
	_, pS := e.provider(L)
	defer pS.Shutdown()
	spin := pS.NewLocker("x")
	var out []finding
	h.Lock()
	acq := make(chan time.Duration, 1)
	go func() {
		c.Lock()
		acq <- time.Since(e.base)
	}()
	time.Sleep(L + sc.Phase)
	select {
	case at := <-acq:
		// rests on the holder's renewals being on time (a two-sided time bound): guarded by the canary like the others
		out = append(out, finding{sig: "lease/contender-acquired-while-held/Lock", what: fmt.Sprintf("S3 L=%v: the waiting contender acquired at %v while the holder was alive and holding", L, at), timeBound: true, w: sc})
		c.Unlock()
		h.Unlock()
		pH.Shutdown()
		return out
	default:
	}
	tH.dead.Store(true) // the holder's process dies: nothing of it reaches the storage any more
	dieAt := time.Since(e.base)
	var at time.Duration
	select {
	case at = <-acq:
	case <-time.After(L + 10*time.Second):
		evs := tH.events()
		out = append(out, finding{sig: "lease/not-released-after-holder-death", what: fmt.Sprintf("S3 L=%v phase=%v: the holder died at %v; %v later the waiting contender still has not acquired the lock", L, sc.Phase, dieAt, L+10*time.Second), timeBound: true, w: map[string]any{"scenario": sc, "tap": evs}})
		// let the waiter go: remove the record by hand
		_ = e.inner.Delete(context.Background(), e.key)
		<-acq
		c.Unlock()
		tH.dead.Store(false)
		h.Unlock()
		pH.Shutdown()
		return out
	}
	evs := tH.events()
	succ := successes(evs)
	lastE := succ[len(succ)-1].Exp
	if at < lastE {
		out = append(out, finding{sig: "lease/acquired-before-lease-ran-out", what: fmt.Sprintf("S3 L=%v: the contender acquired at %v, before the dead holder's last lease ran out at %v", L, at, lastE), w: map[string]any{"scenario": sc, "tap": evs}})
	}
	if at > lastE+L+2*time.Second {
		out = append(out, finding{sig: "lease/released-late-after-holder-death", what: fmt.Sprintf("S3 L=%v: the dead holder's last lease ran out at %v, the waiting contender acquired only at %v", L, lastE, at), timeBound: true, w: map[string]any{"scenario": sc, "tap": evs}})
	}
	// the caller that took over (after waiting for more than a lease period) must be protected itself
	out = append(out, guardTenure(e, sc, tC, spin, 3*L, "S3-second-tenure")...)
	c.Unlock()
	tH.dead.Store(false)
	h.Unlock() // the zombie finally goes away (its Delete finds nothing)
	pH.Shutdown()
	return out
}

// unlockScenario runs S4.
func unlockScenario(sc scen) []finding {
	e := newEnv()
	L := sc.L
	rng := rand.New(rand.NewSource(sc.Seed))
	tH, pH := e.provider(L)
	_, pO := e.provider(L)
	defer pH.Shutdown()
	defer pO.Shutdown()
	var dmu sync.Mutex
	tH.casDelay = func() time.Duration {
		dmu.Lock()
		defer dmu.Unlock()
		return time.Duration(rng.Intn(5000)) * time.Microsecond
	}
	h, o := pH.NewLocker("x"), pO.NewLocker("x")
	var out []finding
	h.Lock()
	time.Sleep(sc.Phase)
	h.Unlock()
	unlockRet := time.Since(e.base)
	// versions of the first tenure
	chain := map[string]bool{}
	for _, ev := range tH.events() {
		if ev.Err == "nil" && ev.NewV != "" {
			chain[ev.NewV] = true
		}
	}
	var second gsync.Locker
	switch sc.Re {
	case "same":
		second = h
	case "other":
		second = o
	}
	var secondVers map[string]bool
	if second != nil {
		second.Lock()
		// while the second tenure lasts the record must stay and must belong to it
		for i := 0; i < 8; i++ {
			r, err := e.inner.Get(context.Background(), e.key)
			if err != nil {
				out = append(out, finding{sig: "lease/second-tenure-record-gone", what: fmt.Sprintf("S4 L=%v hold=%v re=%s: during the tenure that followed an Unlock the lock record vanished (a stale renewal or Unlock of the previous tenure touched it?)", L, sc.Phase, sc.Re), timeBound: true, w: map[string]any{"scenario": sc, "tap": tH.events()}})
				break
			}
			if chain[r.Version] {
				out = append(out, finding{sig: "lease/second-tenure-record-overwritten", what: fmt.Sprintf("S4: the record of the second tenure carries version %s of the first tenure", r.Version), w: map[string]any{"scenario": sc, "tap": tH.events()}})
				break
			}
			time.Sleep(L / 4)
		}
		secondVers = map[string]bool{}
	} else {
		time.Sleep(3 * L)
	}
	evs := tH.events()
	// renewal attempts of the FIRST tenure that started after Unlock returned
	var late []tapEv
	for _, ev := range evs {
		if ev.Op == "Cas" && ev.Call > unlockRet && chain[ev.Ver] {
			late = append(late, ev)
		}
	}
	if len(late) > 1 {
		out = append(out, finding{sig: "lease/renewal-continues-after-unlock", what: fmt.Sprintf("S4 L=%v hold=%v: %d renewal attempts of the finished tenure reached the storage after Unlock returned at %v", L, sc.Phase, len(late), unlockRet), w: map[string]any{"scenario": sc, "tap": evs}})
	}
	for _, ev := range late {
		if ev.Err == "nil" {
			out = append(out, finding{sig: "lease/renewal-after-unlock-succeeded", what: fmt.Sprintf("S4 L=%v hold=%v: a renewal of the finished tenure issued at %v (Unlock returned at %v) succeeded", L, sc.Phase, ev.Call, unlockRet), w: map[string]any{"scenario": sc, "tap": evs}})
		}
	}
	if second == nil {
		if _, err := e.inner.Get(context.Background(), e.key); err == nil {
			out = append(out, finding{sig: "lease/record-present-after-unlock", what: fmt.Sprintf("S4 L=%v hold=%v: %v after Unlock the lock record is in the store (a renewal re-created or kept it)", L, sc.Phase, 3*L), w: map[string]any{"scenario": sc, "tap": evs}})
		}
	}
	_ = secondVers
	if second != nil {
		second.Unlock()
	}
	return out
}

// inflightScenario runs S5: the answer of the k-th renewal is still in flight (the storage has applied it)
// when the holder unlocks and the same Locker is locked again; then the late answer arrives. The new tenure
// must be renewed and protected like any other: it is held for 3 leases under the usual monitors.
func inflightScenario(sc scen) []finding {
	e := newEnv()
	L := sc.L
	tH, pH := e.provider(L)
	_, pS := e.provider(L)
	defer pH.Shutdown()
	defer pS.Shutdown()
	tH.holdAnswer, tH.applied, tH.release = sc.K, make(chan struct{}), make(chan struct{})
	h, spin := pH.NewLocker("x"), pS.NewLocker("x")
	var out []finding
	h.Lock()
	select {
	case <-tH.applied:
	case <-time.After(time.Duration(sc.K+2)*L + 10*time.Second):
		close(tH.release)
		h.Unlock()
		return []finding{{sig: "harness/S5-renewal-not-reached", what: fmt.Sprintf("renewal %d never happened", sc.K), timeBound: true, w: sc}}
	}
	// renewal k has been applied, its answer is in flight: end the tenure and start the next one
	h.Unlock()
	if sc.Re == "otherholds" {
		// the next tenure belongs to a Locker of another provider; the first Locker stays unlocked
		tO, pO := e.provider(L)
		defer pO.Shutdown()
		o := pO.NewLocker("x")
		o.Lock()
		close(tH.release) // the late answer of the finished tenure's renewal arrives while somebody else holds
		out = append(out, guardTenure(e, sc, tO, spin, 3*L, "S5-foreign-tenure-after-inflight-renewal")...)
		o.Unlock()
		return out
	}
	if sc.Re == "other" {
		// variant: somebody else holds in between for a moment
		if spin.TryLock(context.Background()) {
			spin.Unlock()
		}
	}
	h.Lock()
	close(tH.release) // now the late answer of the previous tenure's renewal arrives
	out = append(out, guardTenure(e, sc, tH, spin, 3*L, "S5-tenure-after-inflight-renewal")...)
	h.Unlock()
	return out
}

func runScenario(sc scen) []finding {
	switch sc.Kind {
	case "S1":
		return holdScenario(sc, 6*sc.L)
	case "S1long":
		s := sc
		s.Kind = "S1"
		return holdScenario(s, 20*sc.L)
	case "S2":
		last := sc.K
		for _, k := range sc.Ks {
			if k > last {
				last = k
			}
		}
		return holdScenario(sc, time.Duration(last/2+4)*sc.L)
	case "S13":
		o := locktap.RelockBehindSlowDeleteAnswer(sc.L)
		if o.Sig != "" {
			return []finding{{sig: "lease/contender-acquired-while-held/relock-behind-a-slow-delete-answer", what: o.What, timeBound: true, w: sc}}
		}
		return nil
	case "S12":
		o := locktap.HandOffVsInflightRenewal(sc.L, sc.K)
		if o.Sig != "" {
			return []finding{{sig: "lease/" + o.Sig, what: o.What, timeBound: true, w: sc}}
		}
		return nil
	case "S11":
		o := locktap.StaleRenewalFailsAfterForeignHolderDied(sc.L, sc.K)
		if o.Sig != "" {
			return []finding{{sig: "lease/" + o.Sig, what: o.What, timeBound: true, w: sc}}
		}
		return nil
	case "S10":
		o := locktap.TwoLocksOneSlowStorage(sc.L)
		if o.Sig != "" {
			return []finding{{sig: "lease/contender-acquired-while-held/beside-a-slow-renewal-of-another-lock", what: o.What, timeBound: true, w: sc}}
		}
		return nil
	case "S8":
		s := sc
		s.Kind = "S1"
		fs := holdScenario(s, 5*sc.L)
		for i := range fs {
			fs[i].sig = strings.Replace(fs[i].sig, "/S1", "/S8", 1)
		}
		return fs
	case "S3":
		return deathScenario(sc)
	case "S4":
		return unlockScenario(sc)
	case "S5":
		return inflightScenario(sc)
	case "S6":
		o := locktap.UnlockVsFailedRenewal(sc.L, sc.K)
		if o.Sig != "" {
			return []finding{{sig: "lease/contender-acquired-while-held/unlock-vs-failed-renewal", what: o.What, timeBound: true, w: sc}}
		}
		return nil
	}
	return nil
}

// quietScenario (S7, runs alone in a child process): before the lock is taken the process's timer pool already
// has W idle workers (W callbacks were due together some time ago); then nothing but the holder's own lease
// timers uses the pool. The holder keeps the lock for 4 L under the tenure monitors.
func quietScenario(sc scen) []finding {
	var wg sync.WaitGroup
	gate := make(chan struct{})
	for i := 0; i < sc.K; i++ {
		wg.Add(1)
		timeout.Call(func() { <-gate; wg.Done() }, time.Millisecond)
	}
	t0 := time.Now()
	for {
		if w, p := timeout.VerifState(); p == 0 && w >= sc.K {
			break
		}
		if time.Since(t0) > 20*time.Second {
			close(gate)
			return nil // the pool did not grow: nothing to observe (counted as not staged)
		}
		time.Sleep(time.Millisecond)
	}
	close(gate)
	wg.Wait()
	time.Sleep(sc.Phase) // the workers are idle now
	e := newEnv()
	if sc.FarTimers {
		_, pFar := e.provider(30 * time.Second)
		defer pFar.Shutdown()
		ly := pFar.NewLocker("y")
		ly.Lock()
		defer ly.Unlock()
		f := timeout.Call(func() {}, 20*time.Second)
		defer f.Cancel()
		time.Sleep(20 * time.Millisecond) // the pool has gone to sleep towards the far deadlines
	}
	tH, pH := e.provider(sc.L)
	_, pC := e.provider(sc.L)
	defer pH.Shutdown()
	defer pC.Shutdown()
	h, c := pH.NewLocker("x"), pC.NewLocker("x")
	h.Lock()
	out := guardTenure(e, sc, tH, c, 4*sc.L, "quiet-process")
	h.Unlock()
	return out
}

// stagePool makes the timer pool of this process hold n idle workers (n callbacks were due together).
func stagePool(n int) bool {
	var wg sync.WaitGroup
	gate := make(chan struct{})
	for i := 0; i < n; i++ {
		wg.Add(1)
		timeout.Call(func() { <-gate; wg.Done() }, time.Millisecond)
	}
	t0 := time.Now()
	for {
		if w, p := timeout.VerifState(); p == 0 && w >= n {
			break
		}
		if time.Since(t0) > 20*time.Second {
			close(gate)
			return false
		}
		time.Sleep(time.Millisecond)
	}
	close(gate)
	wg.Wait()
	return true
}

// relockScenario (S9, a process of its own with a staged pool): the storage answers every renewal d after it
// applied it. The holder unlocks while a renewal is on its way back, the answer arrives (it re-arms a left-over
// timer of the old tenure, which the statement tolerates), and the same Locker is locked again shortly after: the
// left-over attempt of the old tenure is at the storage when the first renewal of the new tenure is due. The new
// tenure is held 4 L under the tenure monitors.
func relockScenario(sc scen) []finding {
	if !stagePool(sc.K) {
		return nil
	}
	e := newEnv()
	L, d := sc.L, sc.SlowAfter
	tH, pH := e.provider(L)
	_, pC := e.provider(L)
	defer pH.Shutdown()
	defer pC.Shutdown()
	tH.slowAfter = d
	h, c := pH.NewLocker("x"), pC.NewLocker("x")
	h.Lock()
	applied := func() bool { // the first renewal has been executed by the storage (its answer is on the way)
		tH.mu.Lock()
		defer tH.mu.Unlock()
		return tH.casN >= 1
	}
	t0 := time.Now()
	for !applied() {
		if time.Since(t0) > L+10*time.Second {
			h.Unlock()
			return []finding{{sig: "harness/S9-renewal-did-not-come", what: "the first renewal did not reach the storage", timeBound: true, w: sc}}
		}
		time.Sleep(200 * time.Microsecond)
	}
	time.Sleep(d / 3)
	h.Unlock()
	for { // the answer of that renewal is back (logged)
		done := false
		for _, ev := range tH.events() {
			if ev.Op == "Cas" {
				done = true
			}
		}
		if done || time.Since(t0) > L+20*time.Second {
			break
		}
		time.Sleep(200 * time.Microsecond)
	}
	time.Sleep(sc.Phase)
	// the lock was released by the Unlock above: the same Locker gets it again at once. Bounded (4 L + 20 s), so that
	// a record that is kept alive after Unlock is a finding here and not a child that hangs until its watchdog.
	ctx, cancel := context.WithTimeout(context.Background(), 4*L+20*time.Second)
	err := h.LockWithCtx(ctx)
	cancel()
	if err != nil {
		return []finding{{sig: "lease/held-after-unlock/S9", what: fmt.Sprintf("S9 L=%v: the holder unlocked while a slow renewal answer was on its way; %v after the answer the same Locker could not lock again within 4 L + 20 s (%v): the released lock is still taken", L, sc.Phase, err), w: map[string]any{"scenario": sc, "tap": tH.events()}}}
	}
	out := guardTenure(e, sc, tH, c, 4*L, "relock-after-slow-renewal-answer")
	h.Unlock()
	return out
}

func TestChild(t *testing.T) {
	idx, total, part, ok := shard.Child()
	if !ok {
		t.Skip("not a shard child")
	}
	res := shard.NewResult()
	list := quietList()
	if part == "slow" {
		list = slowList()
	}
	if part == "relock" {
		list = relockList()
	}
	for i := idx; i < len(list); i += total {
		sc := list[i]
		for attempt := 1; ; attempt++ {
			cn := startCanary()
			var fs []finding
			if sc.Kind == "S7" {
				fs = quietScenario(sc)
			} else if sc.Kind == "S9" {
				fs = relockScenario(sc)
			} else {
				fs = runScenario(sc)
			}
			close(cn.stop)
			stall := observedStall(sc, time.Duration(cn.worst.Load()), fs)
			if stall > stallBound(sc) && len(fs) > 0 && attempt < 3 {
				res.Counters["scenarios_repeated_because_of_a_stall"]++
				continue
			}
			res.Evals++
			res.Counters["scenarios_"+sc.Kind]++
			b, _ := json.Marshal(sc)
			res.Classes = append(res.Classes, string(b))
			for _, f := range fs {
				if stall > stallBound(sc) {
					res.Inconcl = append(res.Inconcl, fmt.Sprintf("%s: %s (canary stall %v)", f.sig, f.what, stall))
					continue
				}
				res.Violation(f.sig, f.what, f.w)
			}
			break
		}
		// back to an empty pool for the next scenario of this child
		timeout.VerifSetIdle(time.Millisecond)
		for t0 := time.Now(); time.Since(t0) < 30*time.Second; time.Sleep(5 * time.Millisecond) {
			if w, p := timeout.VerifState(); w == 0 && p == 0 {
				break
			}
			timeout.Call(func() {}, 0) // wakes a sleeping worker so that it reads the new idle timeout
		}
		timeout.VerifSetIdle(30 * time.Second)
	}
	shard.Emit(res)
}

// slowList: S8 - a storage that answers, but slowly (well inside half a lease): request slow, answer slow, both.
// The renewal callbacks block the workers of the timer pool for that long, so every scenario gets a process of
// its own (a pool shared with dozens of other scenarios would be exhausted: lateness of the harness's making).
func slowList() []scen {
	var list []scen
	for _, L := range []time.Duration{600 * time.Millisecond, time.Second} {
		list = append(list, scen{Kind: "S8", L: L, SlowBefore: L / 6}, scen{Kind: "S8", L: L, SlowAfter: 3 * L / 10}, scen{Kind: "S8", L: L, SlowBefore: L / 8, SlowAfter: L / 8}, scen{Kind: "S8", L: L, SlowAfter: 3 * L / 10, Acquire: "ctx"})
	}
	// S10: two locks taken together in one process; the storage of the other lock answers its renewal only after
	// 0.75 leases, the watched lock's storage at once (a far timer pending, the timer worker busy at the due time)
	for _, L := range []time.Duration{300 * time.Millisecond, 400 * time.Millisecond} {
		list = append(list, scen{Kind: "S10", L: L}, scen{Kind: "S13", L: L})
	}
	return list
}

func relockList() []scen {
	var list []scen
	for _, L := range []time.Duration{400 * time.Millisecond, 600 * time.Millisecond} {
		d := 3 * L / 20
		// re-lock within the answer delay d (the left-over attempt of the old tenure is still at the storage when the
		// new tenure's first renewal is due) and later than d (it has been answered by then)
		for _, ph := range []time.Duration{d / 3, d / 8, 2 * d / 3, 3 * d / 2, 5 * d / 2} {
			list = append(list, scen{Kind: "S9", L: L, K: 3, SlowAfter: d, Phase: ph})
		}
	}
	return list
}

func quietList() []scen {
	var list []scen
	for _, L := range []time.Duration{200 * time.Millisecond, 400 * time.Millisecond} {
		for _, w := range []int{2, 3, 5} {
			list = append(list, scen{Kind: "S7", L: L, K: w, Phase: 30 * time.Millisecond})
		}
		for _, w := range []int{0, 1, 3} {
			list = append(list, scen{Kind: "S7", L: L, K: w, Phase: 30 * time.Millisecond, FarTimers: true})
		}
	}
	return list
}

func TestCheck(t *testing.T) {
	run := report.New("C05", "fault_enumeration")
	defer run.Finish(t)
	run.Rule("real-clock scenarios with lease L set through a hook, one storage tap per provider: S1 hold for 6 L (20 L thorough) with a TryLock-spinning and a parked contender, the holder acquiring through Lock, through LockWithCtx or through TryLock with a context that is cancelled right after the acquisition (the tap refuses calls whose context is done, as a network backend does); S6 a renewal answered with an error while the holder is unlocking, then another caller holds; S2 the k-th renewal CAS answered by an injected error without executing, for every k<=K, and sets of several failing calls in one tenure ({1,3,5}, {2,4,6}, {1,3,5,7}, {1,2}, {3,4}, six, seven and eight non-consecutive failures up to the 14th call); during S1/S2 goroutines of the holder's process keep trying TryLock / LockWithCtx on the SAME (held) Locker object; S3 the holder's storage access dies at a phase of the renewal cycle and a parked contender must take over after the last lease ran out; S5 the answer of the k-th renewal is still in flight (applied by the storage) when the holder unlocks and the same Locker locks again, then the late answer arrives (variants: same Locker locks again / another provider's Locker holds next): the new tenure is held 3 L under the monitors; the order invariant of the timer queue (hook) is sampled throughout; S8 (one child process each) every renewal is slow but well inside half a lease (request slow L/6, answer slow 0.3 L, both L/8; a caller whose context ends meanwhile gets the context's error), hold 5 L; S2 also with the holder's provider shut down right after the acquisition (the holder holds on); S12 the old tenure's renewal request reaches the storage between Unlock and the next caller's Create (same Locker): the next caller must acquire; S11 A's renewal request is on its way when A unlocks, B acquires and dies, A's Locker waits again, then the old request fails transiently: B's record must still run out and A acquire (context 4 L + 3 s); S10 (child processes) two locks taken together in one process, the storage of the OTHER lock answers its renewal after 0.75 leases: the watched lock (its storage answers at once) is held 3 leases against a spinning Locker; S9 (child processes, pool staged to 3 idle workers) the storage answers renewals 0.15 L late, the holder unlocks while an answer is on its way, the answer arrives, the same Locker locks again shortly after and holds 4 L; S7 (one child process each, nothing else uses the timer pool): the pool already has 2/3/5 idle workers when the lock is taken, or the process already has far timers pending (a lock of another name with a 30 s lease, a foreign timer 20 s ahead; 0/1/3 idle workers), hold 4 L; S4 Unlock after hold times around multiples of L/2 with renewals delayed 0-5 ms (Unlock racing a renewal), then nothing / re-acquisition by the same / another Locker. In S1-S3 the caller that takes over after waiting holds for 3 L under the same monitors (its first lease must be a full one). Monitors over the tap log and probes of the record: exclusion, lease gap (each renewal completes before the lease it renews runs out), record present while held, renewal chain survives a transient error, take-over never before and at most L+2 s after the last lease ran out, at most one failing stale renewal after Unlock. distinct = distinct (scenario kind, L, k / phase / re-acquisition) instances run")
	run.Assume("exclusion during a tenure presupposes renewals that are on time, i.e. a machine that does not stall the process for a good part of a lease: like every verdict that rests on a two-sided time bound, a contender that acquires while the holder holds counts only when the canary saw no stall above L/8 (L/16 in S2, whose double-failure sets leave L/4 of slack for three or four timers; an in-memory Create that takes that long in the tap log counts as a stall too); two-sided time bounds are guarded by a stall canary: a bound broken while a stall was seen is repeated (up to 3 times) and only a repeat without stall counts")
	run.Assume("a transient renewal failure is an attempt that was not applied (request lost); unacknowledged but applied renewals are not generated")

	if p := os.Getenv("VERIF_REPLAY"); p != "" {
		replay(run, p)
		return
	}
	var list []scen
	Ls := []time.Duration{200 * time.Millisecond, 400 * time.Millisecond}
	if run.Thorough() {
		Ls = []time.Duration{200 * time.Millisecond, 400 * time.Millisecond, 2 * time.Second}
	}
	rng := rand.New(rand.NewSource(run.Seed()))
	for _, L := range Ls {
		list = append(list, scen{Kind: "S1", L: L}, scen{Kind: "S1", L: L, Acquire: "ctx"}, scen{Kind: "S1", L: L, Acquire: "try"})
		if run.Thorough() {
			list = append(list, scen{Kind: "S1long", L: L})
		}
		K := run.Pick(5, 10)
		for k := 1; k <= K; k++ {
			list = append(list, scen{Kind: "S2", L: L, K: k})
		}
		// several transient failures within one tenure, each followed by a successful retry (and two in a row)
		for _, ks := range [][]int{{1, 3, 5}, {2, 4, 6}, {1, 3, 5, 7}, {1, 2}, {3, 4}, {1, 3, 5, 7, 9, 11}, {2, 4, 6, 8, 10, 12, 14}, {1, 2, 4, 5, 7, 8, 10, 11}} {
			list = append(list, scen{Kind: "S2", L: L, K: ks[0], Ks: ks})
		}
		for i := 0; i < run.Pick(12, 24); i++ {
			list = append(list, scen{Kind: "S3", L: L, Phase: time.Duration(rng.Int63n(int64(L)))})
		}
		for k := 1; k <= run.Pick(3, 6); k++ {
			list = append(list, scen{Kind: "S5", L: L, K: k}, scen{Kind: "S5", L: L, K: k, Re: "other"}, scen{Kind: "S5", L: L, K: k, Re: "otherholds"})
		}
		for k := 1; k <= 2; k++ {
			list = append(list, scen{Kind: "S6", L: L, K: k})
		}
		// the old tenure's renewal request reaches the storage after Unlock, while the same Locker's next caller is
		// about to create its record: that attempt "changes nothing and arms nothing" - the next caller acquires
		for k := 1; k <= 2; k++ {
			list = append(list, scen{Kind: "S12", L: L, K: k})
		}
		// the old tenure's renewal request fails transiently after a foreign holder acquired and died
		for k := 1; k <= 2; k++ {
			list = append(list, scen{Kind: "S11", L: L, K: k})
		}
		// the holder's provider is shut down while the lock is held; later a renewal fails transiently
		for k := 1; k <= 3; k++ {
			list = append(list, scen{Kind: "S2", L: L, K: k, ShutHolder: true})
		}
		for i := 0; i < run.Pick(45, 120); i++ {
			mult := 1 + rng.Intn(4)
			hold := time.Duration(mult)*L/2 + time.Duration(rng.Intn(12000)-6000)*time.Microsecond
			list = append(list, scen{Kind: "S4", L: L, Phase: hold, Re: []string{"", "same", "other"}[i%3], Seed: run.Seed()*1000 + int64(i)})
		}
	}
	for i := range list {
		list[i].Seed += run.Seed()
	}
	// the renewal timers live in the timer package's queue (anchored file timeout/timeout.go): its order
	// invariant is sampled under the package lock for the whole run
	stopHeap := make(chan struct{})
	var heapChecks atomic.Int64
	go func() {
		for {
			select {
			case <-stopHeap:
				return
			default:
			}
			if err := timeout.VerifCheckHeap(); err != nil {
				run.Violation("lease/timer-queue-invariant", "the queue of lease timers is out of order / inconsistent (a renewal can fire late): "+err.Error(), map[string]any{"hook": "timeout.VerifCheckHeap", "error": err.Error()})
				return
			}
			heapChecks.Add(1)
			time.Sleep(200 * time.Microsecond)
		}
	}()
	defer func() { close(stopHeap); run.Add("timer_queue_invariant_checks", heapChecks.Load()) }()
	// S7: scenarios that need a process of their own (nothing else uses the timer pool)
	var cwg sync.WaitGroup
	cwg.Add(1)
	go func() {
		defer cwg.Done()
		for c := range shard.Run(run, "TestChild", "quiet", len(quietList()), 10*time.Minute) {
			run.DistinctStr(c)
		}
	}()
	cwg.Add(1)
	go func() {
		defer cwg.Done()
		for c := range shard.Run(run, "TestChild", "slow", len(slowList()), 10*time.Minute) {
			run.DistinctStr(c)
		}
	}()
	cwg.Add(1)
	go func() {
		defer cwg.Done()
		for c := range shard.Run(run, "TestChild", "relock", len(relockList()), 10*time.Minute) {
			run.DistinctStr(c)
		}
	}()
	defer cwg.Wait()
	var wg sync.WaitGroup
	sem := make(chan struct{}, 48)
	for _, sc := range list {
		wg.Add(1)
		sem <- struct{}{}
		go func(sc scen) {
			defer wg.Done()
			defer func() { <-sem }()
			for attempt := 1; ; attempt++ {
				cn := startCanary()
				fs := runScenario(sc)
				close(cn.stop)
				stall := observedStall(sc, time.Duration(cn.worst.Load()), fs)
				run.Max("canary_worst_stall_us", int64(stall/time.Microsecond))
				retry := false
				for _, f := range fs {
					if f.timeBound && stall > stallBound(sc) {
						retry = true
					}
				}
				if retry && attempt < 3 {
					run.Add("scenarios_repeated_because_of_a_stall", 1)
					continue
				}
				run.Eval(1)
				run.Add("scenarios_"+sc.Kind, 1)
				b, _ := json.Marshal(sc)
				run.DistinctStr(string(b))
				for _, f := range fs {
					if f.timeBound && stall > stallBound(sc) {
						run.Inconclusive(fmt.Sprintf("%s: %s (canary stall %v)", f.sig, f.what, stall))
						continue
					}
					run.Violation(f.sig, f.what, f.w)
				}
				return
			}
		}(sc)
	}
	wg.Wait()
	sort.Slice(list, func(i, j int) bool { return list[i].Kind < list[j].Kind })
	run.Sample(list[0])
	run.Sample(list[len(list)/2])
	run.Sample(list[len(list)-1])
}

func replay(run *report.Run, path string) {
	b, err := os.ReadFile(path)
	if err != nil {
		run.Inconclusive("cannot read replay file: " + err.Error())
		return
	}
	var doc struct {
		Witness json.RawMessage `json:"witness"`
	}
	_ = json.Unmarshal(b, &doc)
	var sc scen
	var wrapped struct {
		Scenario scen `json:"scenario"`
	}
	if json.Unmarshal(doc.Witness, &wrapped) == nil && wrapped.Scenario.Kind != "" {
		sc = wrapped.Scenario
	} else if json.Unmarshal(doc.Witness, &sc) != nil || sc.Kind == "" {
		run.Inconclusive("cannot parse replay file")
		return
	}
	run.DistinctAdd(2)
	run.Sample(sc)
	for i := 0; i < 3; i++ {
		run.Eval(1)
		for _, f := range runScenario(sc) {
			run.Violation(f.sig, f.what, f.w)
		}
	}
}
