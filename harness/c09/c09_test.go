// C09 — LRU cache under concurrency: single-flight, linearizable, nothing leaked (DESIGN §3 C09).
// Controlled part: workers inside a synctest bubble; gates at "start next operation" and inside the
// create callback; after quiescence the scheduler releases one gate (create: ok or fail). Monitors:
// per-key in-progress counter, porcupine against the sequential LRU model (outputs include the delete
// callbacks seen during the call), conservation and hook invariants at every quiescent point.
// Free-running part: real goroutines under the race detector, same monitors.
package c09

import (
	"bytes"
	"encoding/json"
	"errors"
	"fmt"
	"math/rand"
	"os"
	"runtime"
	"sort"
	"strconv"
	"strings"
	"sync"
	"sync/atomic"
	"testing"
	"testing/synctest"
	"time"

	"github.com/acquirecloud/golibs/container/lru"
	"github.com/anishathalye/porcupine"

	"verifharness/internal/locksim"
	"verifharness/internal/report"
	"verifharness/internal/shard"
)

func TestMain(m *testing.M) { os.Exit(report.ExitCode(m.Run())) }

// ---------------------------------------------------------------- sequential LRU model for porcupine

type kv struct {
	K int `json:"k"`
	V int `json:"v"`
}

type opIn struct {
	Op  string `json:"op"` // G R C
	Key int    `json:"key"`
	Cap int    `json:"cap"`
}

type opOut struct {
	Val     int  `json:"val"`     // G: value id returned (0 on error)
	Err     bool `json:"err"`     // G: error returned
	Created bool `json:"created"` // G: the create callback ran in this call
	Bool    bool `json:"bool"`    // R: result
	N       int  `json:"n"`       // C: count
	Deletes []kv `json:"deletes"` // delete callbacks seen during the call, in order
}

type rec struct {
	W    int   `json:"w"`
	In   opIn  `json:"in"`
	Out  opOut `json:"out"`
	Call int64 `json:"call"`
	Ret  int64 `json:"ret"`
}

func encState(l []kv) string {
	var sb strings.Builder
	for _, e := range l {
		fmt.Fprintf(&sb, "%d:%d,", e.K, e.V)
	}
	return sb.String()
}

func decState(s string) []kv {
	var l []kv
	for _, p := range strings.Split(s, ",") {
		if p == "" {
			continue
		}
		f := strings.Split(p, ":")
		k, _ := strconv.Atoi(f[0])
		v, _ := strconv.Atoi(f[1])
		l = append(l, kv{k, v})
	}
	return l
}

func sameKV(a, b []kv) bool {
	if len(a) != len(b) {
		return false
	}
	for i := range a {
		if a[i] != b[i] {
			return false
		}
	}
	return true
}

var lruModel = porcupine.Model{
	Init: func() any { return "" },
	Step: func(state, input, output any) (bool, any) {
		l := decState(state.(string))
		in := input.(opIn)
		out := output.(opOut)
		idx := -1
		for i, e := range l {
			if e.K == in.Key {
				idx = i
			}
		}
		switch in.Op {
		case "G":
			if idx >= 0 { // resident: a hit, no callbacks, becomes most recently used
				if out.Created || out.Err || out.Val != l[idx].V || len(out.Deletes) != 0 {
					return false, state
				}
				e := l[idx]
				l = append(append(l[:idx:idx], l[idx+1:]...), e)
				return true, encState(l)
			}
			if !out.Created {
				return false, state
			}
			if out.Err { // failed creation changes nothing
				return len(out.Deletes) == 0, state
			}
			l = append(l, kv{in.Key, out.Val})
			var want []kv
			if len(l) > in.Cap {
				want = []kv{l[0]}
				l = l[1:]
			}
			if !sameKV(want, out.Deletes) {
				return false, state
			}
			return true, encState(l)
		case "R":
			if idx < 0 {
				return !out.Bool && len(out.Deletes) == 0, state
			}
			if !out.Bool || !sameKV(out.Deletes, []kv{l[idx]}) {
				return false, state
			}
			l = append(l[:idx:idx], l[idx+1:]...)
			return true, encState(l)
		case "C":
			if out.N != len(l) || !sameKV(out.Deletes, l) {
				return false, state
			}
			return true, ""
		}
		return false, state
	},
	DescribeOperation: func(input, output any) string {
		return fmt.Sprintf("%+v -> %+v", input, output)
	},
}

func checkHistory(recs []rec, timeout time.Duration) porcupine.CheckResult {
	ops := make([]porcupine.Operation, len(recs))
	for i, r := range recs {
		ops[i] = porcupine.Operation{ClientId: r.W, Input: r.In, Call: r.Call, Output: r.Out, Return: r.Ret}
	}
	res, _ := porcupine.CheckOperationsVerbose(lruModel, ops, timeout)
	return res
}

// ---------------------------------------------------------------- controlled execution

type cconfig struct {
	Cap      int        `json:"cap"`
	Programs [][]string `json:"programs"` // per worker: "G1" "R2" "C"
}

type cwitness struct {
	Mode    string   `json:"mode"`
	Config  cconfig  `json:"config"`
	Choices []int    `json:"choices"`
	Trace   []string `json:"trace"`
	History []rec    `json:"history,omitempty"`
}

var errCreate = errors.New("scripted creation failure")

func goid() int64 {
	var buf [64]byte
	n := runtime.Stack(buf[:], false)
	b := buf[len("goroutine "):n]
	b = b[:bytes.IndexByte(b, ' ')]
	id, _ := strconv.ParseInt(string(b), 10, 64)
	return id
}

type cgate struct {
	w       int
	kind    string // start create
	key     int
	release chan bool // create: true = ok, false = fail
}

type cvio struct{ sig, what string }

type csim struct {
	cfg      cconfig
	mu       sync.Mutex
	pending  []*cgate
	byGoid   map[int64]int
	cur      map[int]*opOut // op in progress per worker (for callback attribution)
	inflight map[int]int    // per key: creations in progress
	nextVal  int
	created  map[int]int // value id -> key (successful creations)
	deleted  map[int]int // value id -> number of delete callbacks
	step     int64
	recs     []rec
	finished int
	vios     []cvio
	stats    map[string]int
}

func runControlled(cfg cconfig, ch locksim.Chooser) (vios []cvio, trace []string, choices []int, recs []rec, stats map[string]int) {
	s := &csim{cfg: cfg, byGoid: map[int64]int{}, cur: map[int]*opOut{}, inflight: map[int]int{}, created: map[int]int{}, deleted: map[int]int{}, stats: map[string]int{}}
	var cache *lru.Cache[int, int]
	cache, err := lru.NewCache[int, int](cfg.Cap,
		func(k int) (int, error) { // create callback: a gate, called without the cache lock
			id := goid()
			s.mu.Lock()
			w := s.byGoid[id]
			s.inflight[k]++
			if s.inflight[k] > 1 {
				s.vios = append(s.vios, cvio{"lru/two-creations-in-progress", fmt.Sprintf("two creations for key %d are in progress at the same time (second one by worker %d)", k, w)})
			}
			if o := s.cur[w]; o != nil {
				if o.Created {
					s.vios = append(s.vios, cvio{"lru/create-called-twice-in-one-call", fmt.Sprintf("worker %d: the create function was called twice during one GetOrCreate(%d)", w, k)})
				}
				o.Created = true
			}
			g := &cgate{w: w, kind: "create", key: k, release: make(chan bool)}
			s.pending = append(s.pending, g)
			s.mu.Unlock()
			ok := <-g.release
			s.mu.Lock()
			defer s.mu.Unlock()
			s.inflight[k]--
			if !ok {
				return 0, errCreate
			}
			s.nextVal++
			s.created[s.nextVal] = k
			return s.nextVal, nil
		},
		func(k int, v int) { // delete callback: runs under the cache lock, so it only logs
			id := goid()
			s.mu.Lock()
			s.deleted[v]++
			if w, ok := s.byGoid[id]; ok {
				if o := s.cur[w]; o != nil {
					o.Deletes = append(o.Deletes, kv{k, v})
				}
			}
			s.mu.Unlock()
		})
	if err != nil {
		return []cvio{{"harness/NewCache", err.Error()}}, nil, nil, nil, nil
	}
	for w := range cfg.Programs {
		go func(w int) {
			s.mu.Lock()
			s.byGoid[goid()] = w
			s.mu.Unlock()
			for _, o := range cfg.Programs[w] {
				g := &cgate{w: w, kind: "start", release: make(chan bool)}
				s.mu.Lock()
				s.pending = append(s.pending, g)
				s.mu.Unlock()
				<-g.release
				in := opIn{Op: o[:1], Cap: cfg.Cap}
				if len(o) > 1 {
					in.Key, _ = strconv.Atoi(o[1:])
				}
				out := &opOut{}
				s.mu.Lock()
				s.cur[w] = out
				call := s.step
				s.mu.Unlock()
				switch in.Op {
				case "G":
					v, err := cache.GetOrCreate(in.Key)
					out.Val, out.Err = v, err != nil
					if err != nil {
						out.Val = 0
					}
				case "R":
					out.Bool = cache.Remove(in.Key)
				case "C":
					out.N = cache.Clear()
				}
				s.mu.Lock()
				s.cur[w] = nil
				s.recs = append(s.recs, rec{W: w, In: in, Out: *out, Call: call, Ret: s.step})
				s.mu.Unlock()
			}
			s.mu.Lock()
			s.finished++
			s.mu.Unlock()
		}(w)
	}
	for {
		synctest.Wait()
		s.mu.Lock()
		// invariants at the quiescent point
		resident := 0
		for v := range s.created {
			switch n := s.deleted[v]; {
			case n == 0:
				resident++
			case n > 1:
				s.vios = append(s.vios, cvio{"lru/value-deleted-twice", fmt.Sprintf("value %d of key %d was passed to the delete callback %d times", v, s.created[v], n)})
			}
		}
		for v := range s.deleted {
			if _, ok := s.created[v]; !ok {
				s.vios = append(s.vios, cvio{"lru/deleted-unknown-value", fmt.Sprintf("the delete callback received value %d which the create function never produced", v)})
			}
		}
		creating := 0
		for _, g := range s.pending {
			if g.kind == "create" {
				creating++
			}
		}
		nodes, length, infl, herr := cache.VerifRetained()
		_ = nodes
		switch {
		case herr != nil:
			s.vios = append(s.vios, cvio{"lru/list-structure", "recency list broken at a quiescent point: " + herr.Error()})
		case length > cfg.Cap:
			s.vios = append(s.vios, cvio{"lru/over-capacity", fmt.Sprintf("%d values resident, capacity %d", length, cfg.Cap)})
		case length != resident:
			s.vios = append(s.vios, cvio{"lru/resident-count", fmt.Sprintf("the cache holds %d entries, but %d successfully created values have not been passed to the delete callback", length, resident)})
		case infl != creating:
			s.vios = append(s.vios, cvio{"lru/inflight-table", fmt.Sprintf("%d creations are in progress, the in-flight table has %d entries", creating, infl)})
		}
		if len(s.vios) > 0 {
			v := s.vios
			s.mu.Unlock()
			return v, trace, choices, s.recs, s.stats
		}
		if s.finished == len(cfg.Programs) {
			s.mu.Unlock()
			break
		}
		sort.SliceStable(s.pending, func(i, j int) bool { return s.pending[i].w < s.pending[j].w })
		type action struct {
			label string
			g     *cgate
			ok    bool
		}
		var acts []action
		for _, g := range s.pending {
			if g.kind == "start" {
				acts = append(acts, action{fmt.Sprintf("start:w%d", g.w), g, true})
			} else {
				acts = append(acts, action{fmt.Sprintf("create-ok:w%d:k%d", g.w, g.key), g, true}, action{fmt.Sprintf("create-fail:w%d:k%d", g.w, g.key), g, false})
			}
		}
		if len(acts) == 0 {
			s.mu.Unlock()
			return []cvio{{"lru/stuck", fmt.Sprintf("%d workers are unfinished, none is at a gate: a waiter was not woken", len(cfg.Programs)-s.finished)}}, trace, choices, s.recs, s.stats
		}
		labels := make([]string, len(acts))
		for i, a := range acts {
			labels[i] = a.label
		}
		idx := ch.Choose(labels, len(labels))
		if idx < 0 || idx >= len(acts) {
			idx = 0
		}
		a := acts[idx]
		trace = append(trace, a.label)
		choices = append(choices, idx)
		for i, g := range s.pending {
			if g == a.g {
				s.pending = append(s.pending[:i], s.pending[i+1:]...)
				break
			}
		}
		s.step++
		if creating > 0 {
			s.stats["steps_with_creation_in_progress"]++
		}
		if creating > 1 {
			s.stats["steps_with_two_keys_in_creation"]++
		}
		s.mu.Unlock()
		a.g.release <- a.ok
	}
	// the end: Clear, then conservation
	s.mu.Lock()
	s.step++
	out := &opOut{}
	s.byGoid[goid()] = -1
	s.cur[-1] = out
	call := s.step
	s.mu.Unlock()
	n := cache.Clear()
	s.mu.Lock()
	out.N = n
	s.cur[-1] = nil
	s.recs = append(s.recs, rec{W: len(cfg.Programs), In: opIn{Op: "C", Cap: cfg.Cap}, Out: *out, Call: call, Ret: s.step})
	for v, k := range s.created {
		if c := s.deleted[v]; c != 1 {
			s.vios = append(s.vios, cvio{"lru/conservation", fmt.Sprintf("value %d created for key %d was passed to the delete callback %d times by the time the cache was cleared", v, k, c)})
			break
		}
	}
	recs = append([]rec(nil), s.recs...)
	vios = s.vios
	s.mu.Unlock()
	if len(vios) == 0 {
		sort.SliceStable(recs, func(i, j int) bool { return recs[i].Call < recs[j].Call })
		switch checkHistory(recs, 30*time.Second) {
		case porcupine.Illegal:
			vios = append(vios, cvio{"lru/not-linearizable", fmt.Sprintf("the history of %d calls (returned values, create calls, evictions) is not equivalent to any sequential LRU history", len(recs))})
		case porcupine.Unknown:
			s.stats["porcupine_unknown"]++
		}
	}
	return vios, trace, choices, recs, s.stats
}

func genConfig(rng *rand.Rand) cconfig {
	c := cconfig{Cap: 1 + rng.Intn(3)}
	t := 2 + rng.Intn(3)
	for w := 0; w < t; w++ {
		n := 1 + rng.Intn(4)
		var p []string
		for i := 0; i < n; i++ {
			switch x := rng.Intn(10); {
			case x < 7:
				p = append(p, fmt.Sprintf("G%d", 1+rng.Intn(3)))
			case x < 9:
				p = append(p, fmt.Sprintf("R%d", 1+rng.Intn(3)))
			default:
				p = append(p, "C")
			}
		}
		c.Programs = append(c.Programs, p)
	}
	return c
}

func smallConfigs() []cconfig {
	var res []cconfig
	progs := [][]string{{"G1", "G1"}, {"G1", "G2"}, {"G1", "R1"}, {"G2", "C"}, {"G1", "G2", "G1"}, {"R1", "G1"}, {"G1", "G1", "R1"}, {"G2", "G1", "C"}}
	for cap := 1; cap <= 2; cap++ {
		for i, a := range progs {
			for _, b := range progs[i:] {
				res = append(res, cconfig{Cap: cap, Programs: [][]string{a, b}})
			}
		}
	}
	return res
}

func nRandom(run *report.Run) int   { return run.Pick(30000, 2000000) }
func dfsBudget(run *report.Run) int { return run.Pick(400, 100000) }

func TestChild(t *testing.T) {
	idx, total, part, ok := shard.Child()
	if !ok {
		t.Skip("not a shard child")
	}
	run := report.New("C09", "exploration")
	res := shard.NewResult()
	judge := func(mode string, cfg cconfig, vios []cvio, trace []string, choices []int, recs []rec, stats map[string]int) {
		res.Evals++
		b, _ := json.Marshal(cfg)
		res.Hash(report.HashStr(string(b) + strings.Join(trace, ",")))
		res.Counters["scheduler_steps"] += int64(len(trace))
		res.Counters["calls"] += int64(len(recs))
		for k, v := range stats {
			res.Counters[k] += int64(v)
		}
		for _, v := range vios {
			w := cwitness{Mode: mode, Config: cfg, Choices: choices, Trace: trace}
			if len(recs) <= 40 {
				w.History = recs
			}
			res.Violation(v.sig, v.what, w)
		}
		if len(vios) > 0 {
			shard.Emit(res)
			os.Exit(0) // the bubble of a violated execution is not torn down
		}
	}
	synctest.Test(t, func(t *testing.T) {
		switch part {
		case "random":
			n := nRandom(run)
			for e := idx; e < n; e += total {
				rng := rand.New(rand.NewSource(run.Seed()*1_000_003 + int64(e)))
				cfg := genConfig(rng)
				var ch locksim.Chooser = &locksim.RandomChooser{Rng: rng}
				mode := "random"
				if e%3 == 2 {
					mode = "pct"
					ch = locksim.NewPCT(rng, 1+rng.Intn(3), 30, 0)
				}
				vios, trace, choices, recs, stats := runControlled(cfg, ch)
				judge(mode, cfg, vios, trace, choices, recs, stats)
				if e < 2 {
					res.Samples = append(res.Samples, cwitness{Mode: mode, Config: cfg, Trace: trace})
				}
			}
		case "dfs":
			cfgs := smallConfigs()
			budget := dfsBudget(run)
			for ci := idx; ci < len(cfgs); ci += total {
				var prefix []int
				exhausted := false
				for n := 0; n < budget; n++ {
					ch := &locksim.ReplayChooser{Prefix: prefix}
					vios, trace, choices, recs, stats := runControlled(cfgs[ci], ch)
					judge("dfs", cfgs[ci], vios, trace, choices, recs, stats)
					if prefix = locksim.NextDFS(choices, ch.Ns); prefix == nil {
						exhausted = true
						break
					}
				}
				res.Counters["dfs_configs"]++
				if exhausted {
					res.Counters["dfs_configs_exhausted"]++
				}
			}
		}
	})
	shard.Emit(res)
}

// ---------------------------------------------------------------- free-running part

type fwitness struct {
	Mode    string `json:"mode"`
	Seed    int64  `json:"seed"`
	Cap     int    `json:"cap"`
	G       int    `json:"goroutines"`
	History []rec  `json:"history,omitempty"`
}

func freeRound(seed int64, run *report.Run) (string, string, fwitness) {
	rng := rand.New(rand.NewSource(seed))
	cp := 1 + rng.Intn(3)
	G := 3 + rng.Intn(6)
	nops := 3 + rng.Intn(3)
	w := fwitness{Mode: "free", Seed: seed, Cap: cp, G: G}
	base := time.Now()
	var mu sync.Mutex
	cur := map[int64]*opOut{}
	inflight := map[int]int{}
	created := map[int]int{}
	deleted := map[int]int{}
	liveOfKey := map[int]int{} // values of the key handed out by create and not yet reported deleted
	var nextVal atomic.Int64
	var sig, what string
	flag := func(s, wh string) {
		if sig == "" {
			sig, what = s, wh
		}
	}
	cache, _ := lru.NewCache[int, int](cp,
		func(k int) (int, error) {
			id := goid()
			mu.Lock()
			inflight[k]++
			if inflight[k] > 1 {
				flag("lru/two-creations-in-progress", fmt.Sprintf("free-running: two creations for key %d in progress at the same time", k))
			}
			if o := cur[id]; o != nil {
				if o.Created {
					flag("lru/create-called-twice-in-one-call", fmt.Sprintf("free-running: create called twice during one GetOrCreate(%d)", k))
				}
				o.Created = true
			}
			if liveOfKey[k] > 0 {
				// the key is being created again although the delete callback for its previous value has not
				// returned yet: the user sees two live values of one key (callbacks and list updates are not atomic)
				flag("lru/create-while-previous-value-live", fmt.Sprintf("free-running: the create function was called for key %d while the delete callback of its previous value had not finished", k))
			}
			mu.Unlock()
			r := rand.New(rand.NewSource(seed ^ id ^ int64(k)<<20 ^ nextVal.Load()))
			switch r.Intn(3) {
			case 0:
				runtime.Gosched()
			case 1:
				time.Sleep(time.Duration(r.Intn(200)) * time.Microsecond)
			}
			fail := r.Intn(4) == 0
			mu.Lock()
			defer mu.Unlock()
			inflight[k]--
			if fail {
				return 0, errCreate
			}
			v := int(nextVal.Add(1))
			created[v] = k
			liveOfKey[k]++
			return v, nil
		},
		func(k, v int) {
			id := goid()
			if (int64(v)+seed)%3 == 0 {
				time.Sleep(40 * time.Microsecond) // a slow callback: the cache must keep everybody out meanwhile
			}
			mu.Lock()
			deleted[v]++
			liveOfKey[k]--
			if o := cur[id]; o != nil {
				o.Deletes = append(o.Deletes, kv{k, v})
			}
			mu.Unlock()
		})
	var recs []rec
	var wg sync.WaitGroup
	start := make(chan struct{})
	for g := 0; g < G; g++ {
		wg.Add(1)
		go func(g int) {
			defer wg.Done()
			id := goid()
			r := rand.New(rand.NewSource(seed*977 + int64(g)))
			<-start
			for i := 0; i < nops; i++ {
				in := opIn{Cap: cp}
				switch x := r.Intn(10); {
				case x < 7:
					in.Op, in.Key = "G", 1+r.Intn(3)
				case x < 9:
					in.Op, in.Key = "R", 1+r.Intn(3)
				default:
					in.Op = "C"
				}
				out := &opOut{}
				mu.Lock()
				cur[id] = out
				mu.Unlock()
				call := int64(time.Since(base))
				switch in.Op {
				case "G":
					v, err := cache.GetOrCreate(in.Key)
					out.Val, out.Err = v, err != nil
					if err != nil {
						out.Val = 0
					}
				case "R":
					out.Bool = cache.Remove(in.Key)
				case "C":
					out.N = cache.Clear()
				}
				ret := int64(time.Since(base))
				mu.Lock()
				cur[id] = nil
				recs = append(recs, rec{W: g, In: in, Out: *out, Call: call, Ret: ret})
				mu.Unlock()
			}
		}(g)
	}
	close(start)
	wg.Wait()
	id := goid()
	out := &opOut{}
	mu.Lock()
	cur[id] = out
	mu.Unlock()
	call := int64(time.Since(base))
	out.N = cache.Clear()
	mu.Lock()
	cur[id] = nil
	recs = append(recs, rec{W: G, In: opIn{Op: "C", Cap: cp}, Out: *out, Call: call, Ret: int64(time.Since(base))})
	for v, k := range created {
		if c := deleted[v]; c != 1 {
			flag("lru/conservation", fmt.Sprintf("free-running: value %d created for key %d was passed to the delete callback %d times by the time the cache was cleared", v, k, c))
			break
		}
	}
	for v := range deleted {
		if _, ok := created[v]; !ok {
			flag("lru/deleted-unknown-value", fmt.Sprintf("free-running: the delete callback received value %d which the create function never produced", v))
		}
	}
	mu.Unlock()
	if _, length, infl, herr := cache.VerifRetained(); herr != nil || length != 0 || infl != 0 {
		flag("lru/not-empty-after-clear", fmt.Sprintf("free-running: after the final Clear: length=%d inflight=%d err=%v", length, infl, herr))
	}
	run.Add("free_calls", int64(len(recs)))
	if sig == "" {
		sort.SliceStable(recs, func(i, j int) bool { return recs[i].Call < recs[j].Call })
		switch checkHistory(recs, 30*time.Second) {
		case porcupine.Illegal:
			flag("lru/not-linearizable", fmt.Sprintf("free-running: the history of %d calls is not equivalent to any sequential LRU history", len(recs)))
			w.History = recs
		case porcupine.Unknown:
			run.Add("porcupine_unknown", 1)
		}
	}
	return sig, what, w
}

func TestCheck(t *testing.T) {
	run := report.New("C09", "exploration")
	defer run.Finish(t)
	run.Rule("controlled: 2-4 workers x 1-4 operations over {GetOrCreate k, Remove k, Clear}, keys 1-3, capacity 1-3, inside a synctest bubble; gates at the start of every operation and inside the create callback (released as success or failure); one gate per step after quiescence; random / PCT schedules and exhaustive DFS of 72 two-worker configurations. Monitors: at most one creation per key in progress; at every quiescent point resident = created-deleted <= capacity, in-flight table = creations in progress, list structure (hook); at the end Clear and every created value deleted exactly once; the history (returned values, whether create ran, delete callbacks per call) checked by porcupine against the sequential LRU model. free-running: 3-8 goroutines, yielding / sleeping / failing creations, sometimes slow delete callbacks (a key must not be created again before the delete callback of its previous value has returned), same monitors under the race detector, and once more in a second pass built without it (different timing). distinct = distinct (configuration, action trace) pairs")
	run.Assume("logical timestamps (scheduler steps) in the controlled part: operations that overlap a step are treated as concurrent, which can only make the linearizability check more permissive")

	if p := os.Getenv("VERIF_REPLAY"); p != "" {
		replay(t, run, p)
		return
	}
	if os.Getenv("VERIF_PASS") != "norace" { // the second pass (built without the race detector: other timing) repeats the free-running part only
		nsh := runtime.NumCPU()
		shard.Run(run, "TestChild", "random", nsh, 45*time.Minute)
		shard.Run(run, "TestChild", "dfs", nsh, 45*time.Minute)
	}

	n := run.Pick(4000, 300000)
	var wg sync.WaitGroup
	jobs := make(chan int64, 64)
	for w := 0; w < runtime.NumCPU()/2; w++ {
		wg.Add(1)
		go func() {
			defer wg.Done()
			for seed := range jobs {
				run.Eval(1)
				run.Add("free_rounds", 1)
				run.DistinctStr(fmt.Sprint("free", seed))
				if sig, what, w := freeRound(seed, run); sig != "" {
					run.Violation(sig, what, w)
				}
			}
		}()
	}
	for i := 0; i < n; i++ {
		jobs <- run.Seed()*1_000_003 + int64(i)
	}
	close(jobs)
	wg.Wait()
}

func replay(t *testing.T, run *report.Run, path string) {
	b, err := os.ReadFile(path)
	if err != nil {
		run.Inconclusive("cannot read replay file: " + err.Error())
		return
	}
	var doc struct {
		Witness json.RawMessage `json:"witness"`
	}
	_ = json.Unmarshal(b, &doc)
	var cw cwitness
	if json.Unmarshal(doc.Witness, &cw) == nil && len(cw.Config.Programs) > 0 {
		run.Eval(1)
		run.DistinctAdd(2)
		run.Sample(cw)
		synctest.Test(t, func(t *testing.T) {
			vios, trace, choices, recs, _ := runControlled(cw.Config, &locksim.ReplayChooser{Prefix: cw.Choices})
			if len(vios) > 0 {
				for _, v := range vios {
					run.Violation(v.sig, v.what, cwitness{Mode: "replay", Config: cw.Config, Choices: choices, Trace: trace, History: recs})
				}
				run.Finish(t)
				os.Exit(report.ExitCode(1))
			}
		})
		fmt.Println("REPLAY: no violation on this tree")
		return
	}
	var fw fwitness
	if json.Unmarshal(doc.Witness, &fw) == nil && fw.Mode == "free" {
		run.DistinctAdd(2)
		for i := 0; i < 500; i++ {
			run.Eval(1)
			if sig, what, w := freeRound(fw.Seed, run); sig != "" {
				run.Violation(sig, what, w)
				return
			}
		}
		fmt.Println("REPLAY: no violation on this tree")
		return
	}
	run.Inconclusive("unknown witness format")
}
