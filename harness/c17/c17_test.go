// C17 — block allocator: no double allocation, disjoint blocks, recoverable state (DESIGN §3 C17).
//
// Monitors (all compare the real container/bytes.Blocks with a set model, call by call):
//
//	geometry sweep   NewBlocks over block sizes x buffer sizes x fit (inmem, and MMFile for page-multiple sizes)
//	set model        ArrangeBlock / FreeBlock / Block result classes, Available, ErrExhausted iff full
//	byte monitor     index-derived pattern in every allocated block, address ranges inside the buffer, outside
//	                 every segment header, pairwise disjoint
//	reopen monitor   a second allocator on a copy of the bytes (inmem), on a second mapping of the file, after
//	                 Close+reopen of the file, and on os.ReadFile of the file reproduces the model's set; a mapping of
//	                 only the head of the file (live or after Close) reproduces the set of the segments it covers
//	                 and leaves the whole file's set as it was
//	concurrency      G goroutines on one allocator, CAS-claimed owner table (main pass: light; race pass: heavy)
package c17

import (
	"encoding/json"
	"errors"
	"fmt"
	"math"
	"math/rand"
	"os"
	"path/filepath"
	"runtime"
	"runtime/debug"
	"sort"
	"strings"
	"sync"
	"sync/atomic"
	"testing"
	"time"
	"unsafe"

	cbytes "github.com/acquirecloud/golibs/container/bytes"
	gerrors "github.com/acquirecloud/golibs/errors"
	"github.com/acquirecloud/golibs/files"

	"verifharness/internal/report"
)

func TestMain(m *testing.M) { os.Exit(report.ExitCode(m.Run())) }

var page = os.Getpagesize()

type vio struct{ sig, what string }

func vf(sig, format string, a ...any) *vio { return &vio{sig, fmt.Sprintf(format, a...)} }

// guard runs f and returns the recovered panic value (nil if none). Faults on mapped memory are turned
// into panics so that a block slice pointing outside a mapping is reported instead of killing the process.
func guard(f func()) (pan any) {
	old := debug.SetPanicOnFault(true)
	defer func() {
		debug.SetPanicOnFault(old)
		pan = recover()
	}()
	f()
	return nil
}

// ---------------------------------------------------------------------------------------------------
// geometry

// validBS is the documented rule of GetBlocksInSegment: positive and (a power of two below the page size
// or a multiple of the page size).
func validBS(bs int) bool {
	if bs <= 0 {
		return false
	}
	if bs < page {
		return bs&(bs-1) == 0
	}
	return bs%page == 0
}

func segSize(bs int) int64 { return int64(bs*8+1) * int64(bs) }

const (
	opArrange = 0
	opFree    = 1
	opBlock   = 2
)

type op struct {
	K int `json:"k"` // 0 ArrangeBlock, 1 FreeBlock(i), 2 Block(i)
	I int `json:"i"`
}

func (o op) String() string {
	switch o.K {
	case opArrange:
		return "A"
	case opFree:
		return fmt.Sprintf("F%d", o.I)
	}
	return fmt.Sprintf("B%d", o.I)
}

func opsText(ops []op) string {
	s := make([]string, len(ops))
	for i, o := range ops {
		s[i] = o.String()
	}
	return strings.Join(s, " ")
}

// witness is the replayable description of any case of this check.
type witness struct {
	Kind    string `json:"kind"` // geom | seq | walk | conc | long
	BS      int    `json:"bs"`
	Size    int64  `json:"size"`
	Fit     bool   `json:"fit"`
	Backend string `json:"backend"` // inmem | mmfile
	Prefill int    `json:"prefill,omitempty"`
	Ops     []op   `json:"ops,omitempty"`
	Text    string `json:"text,omitempty"`
	Seed    int64  `json:"seed,omitempty"`
	Steps   int    `json:"steps,omitempty"`
	Every   int    `json:"every,omitempty"` // full check (all patterns, all addresses, reopen) every N operations
	G       int    `json:"g,omitempty"`
	Hold    int    `json:"hold,omitempty"`
	Iter    int    `json:"iter,omitempty"`
	FailAt  int    `json:"failed_at_step,omitempty"`
}

// ---------------------------------------------------------------------------------------------------
// backing storage

type store struct {
	backend string
	path    string // mmfile
	dir     string
	size    int64
	buf     cbytes.Buffer
}

var tmpRoot struct {
	sync.Mutex
	dir string
	n   int
}

func tmpFile() (string, error) {
	tmpRoot.Lock()
	defer tmpRoot.Unlock()
	if tmpRoot.dir == "" {
		d, err := os.MkdirTemp("", "c17-")
		if err != nil {
			return "", err
		}
		tmpRoot.dir = d
	}
	tmpRoot.n++
	return filepath.Join(tmpRoot.dir, fmt.Sprintf("f%d", tmpRoot.n)), nil
}

func tmpCleanup() {
	tmpRoot.Lock()
	defer tmpRoot.Unlock()
	if tmpRoot.dir != "" {
		os.RemoveAll(tmpRoot.dir)
		tmpRoot.dir = ""
	}
}

// errHarness marks failures of the environment (temp files, mapping) as opposed to the allocator.
type errHarness struct{ error }

func openStore(backend string, size int64) (*store, error) {
	s := &store{backend: backend, size: size}
	switch backend {
	case "inmem":
		s.buf = cbytes.NewInMemBytes(int(size))
	case "mmfile":
		p, err := tmpFile()
		if err != nil {
			return nil, errHarness{err}
		}
		s.path = p
		mf, err := files.NewMMFile(p, size)
		if err != nil {
			return nil, errHarness{err}
		}
		s.buf = mf
	default:
		return nil, errHarness{fmt.Errorf("unknown backend %q", backend)}
	}
	return s, nil
}

func (s *store) close() {
	if s.buf != nil {
		guard(func() { s.buf.Close() })
		s.buf = nil
	}
	if s.path != "" {
		os.Remove(s.path)
	}
}

// ---------------------------------------------------------------------------------------------------
// the monitored allocator

func patByte(idx, j, salt int) byte {
	return byte(idx + 1 + j*31 + (idx>>8)*7 + (j>>8)*13 + salt*57)
}

// stamp / stamped compute patByte incrementally (j*31 + (j>>8)*13 grows by 31 per byte and by 13 more at every
// multiple of 256).
func stamp(b []byte, idx, salt int) {
	v := patByte(idx, 0, salt)
	for j := range b {
		if j&255 == 0 && j > 0 {
			v += 13
		}
		b[j] = v
		v += 31
	}
}

func stamped(b []byte, idx, salt int) int {
	v := patByte(idx, 0, salt)
	for j := range b {
		if j&255 == 0 && j > 0 {
			v += 13
		}
		if b[j] != v {
			return j
		}
		v += 31
	}
	return -1
}

type mon struct {
	bs    int
	size  int64
	fit   bool
	segs  int
	B     int // blocks per segment
	count int
	segSz int64

	st   *store
	bks  *cbytes.Blocks
	base []byte

	alloc []bool
	n     int
	list  []int32 // allocated indices, unordered
	pos   []int32 // position in list or -1
	offs  []int64

	visit func(tclass)

	// fastProbe selects the cheap form of the reopen probe (see reopenBytes); lightOOB limits the out-of-range
	// probes of full() to one of the four per call. Both exist only to keep millions of enumerated nodes affordable.
	fastProbe bool
	lightOOB  bool
	oobTurn   int
}

func (m *mon) mark(idx int) {
	m.alloc[idx] = true
	m.pos[idx] = int32(len(m.list))
	m.list = append(m.list, int32(idx))
	m.n++
}

func (m *mon) unmark(idx int) {
	p := m.pos[idx]
	last := m.list[len(m.list)-1]
	m.list[p] = last
	m.pos[last] = p
	m.list = m.list[:len(m.list)-1]
	m.pos[idx] = -1
	m.alloc[idx] = false
	m.n--
}

func (m *mon) bits() uint64 { // only meaningful for count <= 64
	var b uint64
	for i, a := range m.alloc {
		if a {
			b |= 1 << uint(i)
		}
	}
	return b
}

// newMon opens an allocator of an ACCEPTABLE geometry on a fresh zeroed store and checks the constructor's
// observables. A harness-side failure is returned as errHarness.
func newMon(bs int, size int64, fit bool, backend string) (*mon, *vio, error) {
	if !validBS(bs) || size < segSize(bs) || (fit && size%segSize(bs) != 0) {
		return nil, nil, errHarness{fmt.Errorf("newMon: geometry bs=%d size=%d fit=%v is not acceptable", bs, size, fit)}
	}
	st, err := openStore(backend, size)
	if err != nil {
		return nil, nil, err
	}
	m := &mon{bs: bs, size: size, fit: fit, st: st, segSz: segSize(bs), B: bs * 8}
	m.segs = int(size / m.segSz)
	m.count = m.segs * m.B
	m.alloc = make([]bool, m.count)
	m.pos = make([]int32, m.count)
	for i := range m.pos {
		m.pos[i] = -1
	}
	m.offs = make([]int64, m.count)
	if v := m.open("new"); v != nil {
		st.close()
		return nil, v, nil
	}
	return m, nil, nil
}

// open builds the allocator on the current store and checks Count/Segments/Available against the model.
func (m *mon) open(how string) *vio {
	var b *cbytes.Blocks
	var err error
	if p := guard(func() { b, err = cbytes.NewBlocks(m.bs, m.st.buf, m.fit) }); p != nil {
		return vf("blocks/"+how+"/panic", "NewBlocks(bs=%d, size=%d, fit=%v) panicked: %v", m.bs, m.size, m.fit, p)
	}
	if err != nil || b == nil {
		return vf("blocks/"+how+"/rejected", "NewBlocks(bs=%d, size=%d, fit=%v) on an acceptable geometry: b=%v err=%v", m.bs, m.size, m.fit, b, err)
	}
	if c := b.Count(); c != m.count {
		return vf("blocks/"+how+"/count", "Count()=%d want %d (bs=%d size=%d segments=%d)", c, m.count, m.bs, m.size, m.segs)
	}
	if s := b.Segments(); s != m.segs {
		return vf("blocks/"+how+"/segments", "Segments()=%d want %d (bs=%d size=%d)", s, m.segs, m.bs, m.size)
	}
	if a := b.Available(); a != m.count-m.n {
		return vf("blocks/"+how+"/available", "Available()=%d want Count-allocated=%d-%d (bs=%d size=%d)", a, m.count, m.n, m.bs, m.size)
	}
	var base []byte
	if p := guard(func() { base, err = b.Bytes().Buffer(0, int(m.size)) }); p != nil || err != nil || int64(len(base)) != m.size {
		return vf("blocks/"+how+"/buffer", "Bytes().Buffer(0,%d): len=%d err=%v panic=%v", m.size, len(base), err, p)
	}
	m.bks, m.base = b, base
	return nil
}

func (m *mon) close() {
	if m.st != nil {
		m.st.close()
	}
}

// where checks the address range of a block slice: inside the buffer and outside every segment header.
func (m *mon) where(blk []byte, idx int) (int64, *vio) {
	if len(blk) != m.bs {
		return 0, vf("blocks/Block/len", "Block(%d) has %d bytes, block size is %d", idx, len(blk), m.bs)
	}
	off := int64(uintptr(unsafe.Pointer(unsafe.SliceData(blk)))) - int64(uintptr(unsafe.Pointer(unsafe.SliceData(m.base))))
	if off < 0 || off+int64(m.bs) > m.size {
		return off, vf("blocks/Block/outside-buffer", "Block(%d) = bytes [%d,%d) of a buffer of %d bytes", idx, off, off+int64(m.bs), m.size)
	}
	s0, s1 := off/m.segSz, (off+int64(m.bs)-1)/m.segSz
	if s1 != s0 && s1 < int64(m.segs) {
		return off, vf("blocks/Block/overlaps-header", "Block(%d) = bytes [%d,%d) runs into the header [%d,%d) of segment %d", idx, off, off+int64(m.bs), s1*m.segSz, s1*m.segSz+int64(m.bs), s1)
	}
	if s0 < int64(m.segs) && off-s0*m.segSz < int64(m.bs) {
		return off, vf("blocks/Block/overlaps-header", "Block(%d) = bytes [%d,%d) overlaps the header [%d,%d) of segment %d", idx, off, off+int64(m.bs), s0*m.segSz, s0*m.segSz+int64(m.bs), s0)
	}
	return off, nil
}

// getBlock calls Block(idx) for an in-range idx and checks everything local to that block.
func (m *mon) getBlock(idx int) (blk []byte, v *vio) {
	if p := guard(func() { blk, v = m.getBlockUnguarded(idx) }); p != nil {
		return nil, vf("blocks/Block/panic", "Block(%d) panicked: %v (count=%d)", idx, p, m.count)
	}
	return blk, v
}

func (m *mon) getBlockUnguarded(idx int) ([]byte, *vio) {
	blk, err := m.bks.Block(idx)
	if err != nil {
		return nil, vf("blocks/Block/in-range-error", "Block(%d) with Count()=%d failed: %v", idx, m.count, err)
	}
	off, v := m.where(blk, idx)
	if v != nil {
		return nil, v
	}
	m.offs[idx] = off
	return blk, nil
}

func (m *mon) checkPattern(idx int) (v *vio) {
	if p := guard(func() { v = m.checkPatternUnguarded(idx) }); p != nil {
		return vf("blocks/Block/panic", "Block(%d) or reading its bytes panicked: %v (count=%d)", idx, p, m.count)
	}
	return v
}

func (m *mon) checkPatternUnguarded(idx int) *vio {
	blk, v := m.getBlockUnguarded(idx)
	if v != nil {
		return v
	}
	bad := stamped(blk, idx, 0)
	if bad >= 0 {
		return vf("blocks/pattern/corrupted", "allocated block %d: byte %d is %#x, the pattern written after allocation has %#x", idx, bad, blk[bad], patByte(idx, bad, 0))
	}
	return nil
}

func (m *mon) checkAvailable(after string) *vio {
	if a := m.bks.Available(); a != m.count-m.n {
		return vf("blocks/Available", "after %s: Available()=%d want Count-allocated=%d-%d=%d", after, a, m.count, m.n, m.count-m.n)
	}
	return nil
}

// tclass is a transition class: what was called, on which kind of index, with which outcome, at which fill level
// relative to the segment boundaries.
type tclass struct {
	bs      int32
	mmf     bool
	op      byte  // A F B
	idxKind uint8 // see idxKinds
	idxSeg  int16
	outcome uint8 // see outcomes
	lvlKind uint8 // see lvlKinds
	lvlSeg  int16
}

var (
	idxKinds = []string{"-", "neg", "beyond", "first", "last", "byte0", "mid"}
	outcomes = []string{"ok", "exhausted", "invalid", "notexist", "allocated", "free"}
	lvlKinds = []string{"empty", "full", "edge", "post", "pre", "mid"}
)

const (
	outOK = iota
	outExhausted
	outInvalid
	outNotExist
	outAllocated
	outFree
)

func (c tclass) String() string {
	be := "inmem"
	if c.mmf {
		be = "mmfile"
	}
	return fmt.Sprintf("bs%d/%s %c idx:%s/s%d %s level:%s/s%d", c.bs, be, c.op, idxKinds[c.idxKind], c.idxSeg, outcomes[c.outcome], lvlKinds[c.lvlKind], c.lvlSeg)
}

func (m *mon) levelClass() (uint8, int16) {
	switch {
	case m.n == 0:
		return 0, 0
	case m.n == m.count:
		return 1, 0
	}
	k, r := m.n/m.B, m.n%m.B
	switch r {
	case 0:
		return 2, int16(k)
	case 1:
		return 3, int16(k)
	case m.B - 1:
		return 4, int16(k + 1)
	}
	return 5, int16(k)
}

func (m *mon) idxClass(idx int) (uint8, int16) {
	if idx < 0 {
		return 1, 0
	}
	if idx >= m.count {
		return 2, 0
	}
	s, r := idx/m.B, idx%m.B
	switch {
	case r == 0:
		return 3, int16(s)
	case r == m.B-1:
		return 4, int16(s)
	case r < 8:
		return 5, int16(s)
	}
	return 6, int16(s)
}

// note records the transition class of the call just made (the fill level is the one after the call, except
// for ArrangeBlock which passes the level before).
func (m *mon) note(o byte, idx int, outcome uint8) {
	if m.visit != nil {
		c := tclass{bs: int32(m.bs), mmf: m.st.backend == "mmfile", op: o, outcome: outcome}
		c.idxKind, c.idxSeg = m.idxClass(idx)
		c.lvlKind, c.lvlSeg = m.levelClass()
		m.visit(c)
	}
}

// arrange = ArrangeBlock + oracle + pattern stamp. Returns the index (-1 when exhausted).
func (m *mon) arrange() (int, *vio) {
	var idx int
	var err error
	if p := guard(func() { idx, err = m.bks.ArrangeBlock() }); p != nil {
		return -1, vf("blocks/Arrange/panic", "ArrangeBlock panicked with %d of %d allocated: %v", m.n, m.count, p)
	}
	if err != nil {
		if !errors.Is(err, gerrors.ErrExhausted) {
			return -1, vf("blocks/Arrange/unexpected-error", "ArrangeBlock with %d of %d allocated: %v", m.n, m.count, err)
		}
		if m.n != m.count {
			return -1, vf("blocks/Arrange/exhausted-with-free-blocks", "ArrangeBlock reports ErrExhausted with %d of %d blocks allocated", m.n, m.count)
		}
		if m.visit != nil {
			m.visit(tclass{bs: int32(m.bs), mmf: m.st.backend == "mmfile", op: 'A', outcome: outExhausted, lvlKind: 1})
		}
		return -1, nil
	}
	if idx < 0 || idx >= m.count {
		return -1, vf("blocks/Arrange/index-out-of-range", "ArrangeBlock returned %d, Count()=%d", idx, m.count)
	}
	if m.alloc[idx] {
		return -1, vf("blocks/Arrange/double-allocation", "ArrangeBlock returned %d which is still allocated (%d of %d allocated)", idx, m.n, m.count)
	}
	if m.n == m.count {
		return -1, vf("blocks/Arrange/not-exhausted-when-full", "ArrangeBlock returned %d with all %d blocks allocated", idx, m.count)
	}
	m.note('A', idx, outOK) // level before the allocation
	m.mark(idx)
	blk, v := m.getBlock(idx)
	if v != nil {
		return idx, v
	}
	if p := guard(func() { stamp(blk, idx, 0) }); p != nil {
		return idx, vf("blocks/Block/unwritable", "writing Block(%d) faulted: %v", idx, p)
	}
	return idx, nil
}

func (m *mon) free(idx int) *vio {
	var err error
	if p := guard(func() { err = m.bks.FreeBlock(idx) }); p != nil {
		return vf("blocks/Free/panic", "FreeBlock(%d) panicked (Count()=%d): %v", idx, m.count, p)
	}
	switch {
	case idx < 0 || idx >= m.count:
		if err == nil {
			return vf("blocks/Free/out-of-range-accepted", "FreeBlock(%d) returned nil, valid indices are [0,%d)", idx, m.count)
		}
		if !errors.Is(err, gerrors.ErrInvalid) {
			return vf("blocks/Free/out-of-range-wrong-class", "FreeBlock(%d) with Count()=%d: error is not ErrInvalid: %v", idx, m.count, err)
		}
		m.note('F', idx, outInvalid)
	case m.alloc[idx]:
		if err != nil {
			return vf("blocks/Free/allocated-refused", "FreeBlock(%d) of an allocated block failed: %v", idx, err)
		}
		m.note('F', idx, outOK)
		m.unmark(idx)
	default:
		if err == nil {
			return vf("blocks/Free/free-block-accepted", "FreeBlock(%d) of a block that is not allocated returned nil", idx)
		}
		if !errors.Is(err, gerrors.ErrNotExist) {
			return vf("blocks/Free/free-block-wrong-class", "FreeBlock(%d) of a free block: error is not ErrNotExist: %v", idx, err)
		}
		m.note('F', idx, outNotExist)
	}
	return nil
}

func (m *mon) block(idx int) *vio {
	if idx >= 0 && idx < m.count {
		if m.alloc[idx] {
			m.note('B', idx, outAllocated)
			return m.checkPattern(idx)
		}
		m.note('B', idx, outFree)
		_, v := m.getBlock(idx)
		return v
	}
	var blk []byte
	var err error
	if p := guard(func() { blk, err = m.bks.Block(idx) }); p != nil {
		return vf("blocks/Block/panic", "Block(%d) panicked: %v (count=%d)", idx, p, m.count)
	}
	if err == nil {
		return vf("blocks/Block/out-of-range-accepted", "Block(%d) returned %d bytes and no error, valid indices are [0,%d)", idx, len(blk), m.count)
	}
	if !errors.Is(err, gerrors.ErrInvalid) {
		return vf("blocks/Block/out-of-range-wrong-class", "Block(%d) with Count()=%d: error is not ErrInvalid: %v", idx, m.count, err)
	}
	m.note('B', idx, outInvalid)
	return nil
}

// light is the O(1) monitor run after every operation of a long walk.
func (m *mon) light(after string, idx int) *vio {
	if v := m.checkAvailable(after); v != nil {
		return v
	}
	for _, i := range [3]int{idx - 1, idx, idx + 1} {
		if i >= 0 && i < m.count && m.alloc[i] {
			if v := m.checkPattern(i); v != nil {
				return v
			}
		}
	}
	return nil
}

// sweep calls Block for every index: length, address range, pattern of allocated ones, pairwise disjointness.
func (m *mon) sweep() (v *vio) {
	cur := 0
	if p := guard(func() {
		for idx := 0; idx < m.count && v == nil; idx++ {
			cur = idx
			if m.alloc[idx] {
				v = m.checkPatternUnguarded(idx)
			} else {
				_, v = m.getBlockUnguarded(idx)
			}
		}
	}); p != nil {
		return vf("blocks/Block/panic", "Block(%d) or reading its bytes panicked: %v (count=%d)", cur, p, m.count)
	}
	if v != nil {
		return v
	}
	mono := true
	for i := 1; i < m.count; i++ {
		if m.offs[i]-m.offs[i-1] < int64(m.bs) {
			mono = false
			break
		}
	}
	if !mono {
		type po struct {
			off int64
			idx int
		}
		l := make([]po, m.count)
		for i := range l {
			l[i] = po{m.offs[i], i}
		}
		sort.Slice(l, func(a, b int) bool { return l[a].off < l[b].off })
		for i := 1; i < len(l); i++ {
			if l[i].off-l[i-1].off < int64(m.bs) {
				return vf("blocks/Block/overlap", "Block(%d) = bytes [%d,%d) and Block(%d) = bytes [%d,%d) overlap", l[i-1].idx, l[i-1].off, l[i-1].off+int64(m.bs), l[i].idx, l[i].off, l[i].off+int64(m.bs))
			}
		}
	}
	return nil
}

// oob probes the out-of-range classes of Block and FreeBlock (they must not change anything).
func (m *mon) oob() *vio {
	if m.lightOOB {
		m.oobTurn++
		i := [2]int{-1, m.count}[m.oobTurn&1]
		if m.oobTurn&2 == 0 {
			return m.block(i)
		}
		return m.free(i)
	}
	for _, i := range [2]int{-1, m.count} {
		if v := m.block(i); v != nil {
			return v
		}
		if v := m.free(i); v != nil {
			return v
		}
	}
	return nil
}

// reopenBytes opens a second, private allocator on a copy of data and requires that it reproduces the model:
// Count, Available, the patterns of the allocated blocks and — probed destructively by FreeBlock on every
// index — exactly the allocated set.
func (m *mon) reopenBytes(data []byte, how string) *vio {
	if int64(len(data)) != m.size {
		return vf("blocks/reopen/"+how+"/size", "the reopened bytes have length %d, the buffer had %d", len(data), m.size)
	}
	ib := cbytes.NewInMemBytes(len(data))
	dst, err := ib.Buffer(0, len(data))
	if err != nil || len(dst) != len(data) {
		return vf("blocks/reopen/"+how+"/buffer", "inmem Buffer(0,%d): len=%d err=%v", len(data), len(dst), err)
	}
	copy(dst, data)
	var b *cbytes.Blocks
	if p := guard(func() { b, err = cbytes.NewBlocks(m.bs, ib, m.fit) }); p != nil {
		return vf("blocks/reopen/"+how+"/panic", "NewBlocks on a copy of the bytes panicked: %v", p)
	}
	if err != nil || b == nil {
		return vf("blocks/reopen/"+how+"/rejected", "NewBlocks(bs=%d, fit=%v) on a copy of the %d bytes failed: %v", m.bs, m.fit, m.size, err)
	}
	if c := b.Count(); c != m.count {
		return vf("blocks/reopen/"+how+"/count", "reopened Count()=%d want %d", c, m.count)
	}
	if a := b.Available(); a != m.count-m.n {
		return vf("blocks/reopen/"+how+"/available", "reopened Available()=%d, the model has %d of %d allocated (want %d)", a, m.n, m.count, m.count-m.n)
	}
	for _, i := range m.list {
		blk, err := b.Block(int(i))
		if err != nil || len(blk) != m.bs {
			return vf("blocks/reopen/"+how+"/block", "reopened Block(%d): len=%d err=%v", i, len(blk), err)
		}
		if bad := stamped(blk, int(i), 0); bad >= 0 {
			return vf("blocks/reopen/"+how+"/pattern", "reopened block %d: byte %d is %#x want %#x", i, bad, blk[bad], patByte(int(i), bad, 0))
		}
	}
	var v *vio
	if p := guard(func() {
		if m.fastProbe {
			// same decision without building count-n error values: every block the model has allocated must be
			// released by FreeBlock (nil), ...
			for _, i := range m.list {
				if err := b.FreeBlock(int(i)); err != nil {
					v = vf("blocks/reopen/"+how+"/set", "reopened allocator does not have block %d allocated (FreeBlock: %v), the model has (%d of %d allocated)", i, err, m.n, m.count)
					return
				}
			}
			// ... after which the reopened allocator must be empty: ArrangeBlock hands out every index exactly
			// once before ErrExhausted. A block that the reopened bytes have allocated but the model has free
			// would not come back.
			seen := make([]bool, m.count)
			for k := 0; k < m.count; k++ {
				idx, err := b.ArrangeBlock()
				if err == nil && idx >= 0 && idx < m.count && seen[idx] {
					v = vf("blocks/reopen/"+how+"/set", "reopened allocator (emptied, then filled again) returned index %d twice, at its allocation #%d of %d", idx, k+1, m.count)
					return
				}
				if err != nil || idx < 0 || idx >= m.count {
					missing := -1
					for i, s := range seen {
						if !s {
							missing = i
							break
						}
					}
					v = vf("blocks/reopen/"+how+"/set", "reopened allocator, after freeing the %d blocks the model has allocated, hands out only %d of %d blocks (ArrangeBlock: idx=%d err=%v; e.g. block %d never came back): it has blocks allocated that the model has free", m.n, k, m.count, idx, err, missing)
					return
				}
				seen[idx] = true
			}
			if _, err := b.ArrangeBlock(); !errors.Is(err, gerrors.ErrExhausted) {
				v = vf("blocks/reopen/"+how+"/set", "reopened allocator is not exhausted after %d allocations: %v", m.count, err)
			}
			return
		}
		for i := 0; i < m.count; i++ {
			err := b.FreeBlock(i)
			switch {
			case err == nil && !m.alloc[i]:
				v = vf("blocks/reopen/"+how+"/set", "reopened allocator has block %d allocated, the model has it free (%d of %d allocated)", i, m.n, m.count)
			case err != nil && m.alloc[i]:
				v = vf("blocks/reopen/"+how+"/set", "reopened allocator does not have block %d allocated (FreeBlock: %v), the model has (%d of %d allocated)", i, err, m.n, m.count)
			case err != nil && !errors.Is(err, gerrors.ErrNotExist):
				v = vf("blocks/reopen/"+how+"/probe-class", "reopened FreeBlock(%d) of a free block: %v", i, err)
			}
			if v != nil {
				return
			}
		}
	}); p != nil {
		return vf("blocks/reopen/"+how+"/panic", "probing the reopened allocator panicked: %v", p)
	}
	if v != nil {
		return v
	}
	if a := b.Available(); !m.fastProbe && a != m.count {
		return vf("blocks/reopen/"+how+"/available-after-free-all", "reopened allocator after freeing every block: Available()=%d want %d", a, m.count)
	}
	return nil
}

func (m *mon) reopenCopy() *vio {
	var data []byte
	var err error
	if p := guard(func() { data, err = m.bks.Bytes().Buffer(0, int(m.size)) }); p != nil || err != nil {
		return vf("blocks/reopen/copy/buffer", "Bytes().Buffer(0,%d): err=%v panic=%v", m.size, err, p)
	}
	return m.reopenBytes(data, "copy")
}

// full = every monitor.
func (m *mon) full(after string) *vio {
	if v := m.checkAvailable(after); v != nil {
		return v
	}
	if v := m.sweep(); v != nil {
		return v
	}
	if v := m.oob(); v != nil {
		return v
	}
	if v := m.checkAvailable(after + " + out-of-range probes"); v != nil {
		return v
	}
	return m.reopenCopy()
}

// mmfile crash points ---------------------------------------------------------------------------

// secondMapping maps the file a second time while the first mapping is live.
func (m *mon) secondMapping() (v *vio, herr error) {
	mf2, err := files.NewMMFile(m.st.path, -1)
	if err != nil {
		return nil, errHarness{err}
	}
	defer mf2.Close()
	if mf2.Size() != m.size {
		return vf("blocks/reopen/second-mapping/size", "second mapping has size %d, file was created with %d", mf2.Size(), m.size), nil
	}
	var b *cbytes.Blocks
	if p := guard(func() { b, err = cbytes.NewBlocks(m.bs, mf2, m.fit) }); p != nil {
		return vf("blocks/reopen/second-mapping/panic", "NewBlocks on a second mapping panicked: %v", p), nil
	}
	if err != nil {
		return vf("blocks/reopen/second-mapping/rejected", "NewBlocks on a second mapping failed: %v", err), nil
	}
	if a := b.Available(); a != m.count-m.n || b.Count() != m.count {
		return vf("blocks/reopen/second-mapping/available", "second mapping: Available()=%d Count()=%d, model has %d of %d allocated", a, b.Count(), m.n, m.count), nil
	}
	var data []byte
	if p := guard(func() { data, err = mf2.Buffer(0, int(m.size)) }); p != nil || err != nil {
		return vf("blocks/reopen/second-mapping/buffer", "Buffer(0,%d) of the second mapping: err=%v panic=%v", m.size, err, p), nil
	}
	return m.reopenBytes(data, "second-mapping"), nil
}

// closeReopen closes the allocator (and the mapping) and continues on a fresh mapping of the same file.
func (m *mon) closeReopen() (v *vio, herr error) {
	var err error
	if p := guard(func() { err = m.bks.Close() }); p != nil || err != nil {
		return vf("blocks/reopen/close", "Close: err=%v panic=%v", err, p), nil
	}
	m.bks, m.base, m.st.buf = nil, nil, nil
	mf, err := files.NewMMFile(m.st.path, -1)
	if err != nil {
		return nil, errHarness{err}
	}
	m.st.buf = mf
	if mf.Size() != m.size {
		return vf("blocks/reopen/close-reopen/size", "reopened mapping has size %d, file was created with %d", mf.Size(), m.size), nil
	}
	if v := m.open("reopen/close-reopen"); v != nil {
		return v, nil
	}
	return m.full("Close + reopen of the file"), nil
}

func (m *mon) readFile() (v *vio, herr error) {
	data, err := os.ReadFile(m.st.path)
	if err != nil {
		return nil, errHarness{err}
	}
	return m.reopenBytes(data, "readfile"), nil
}

// prefixLens lists the lengths (multiples of files.BlockSize, shorter than the file) at which the head of the file
// is mapped on its own: one file block, the file less one file block, and every segment boundary rounded down and up.
func (m *mon) prefixLens() []int64 {
	bsz := int64(files.BlockSize)
	set := map[int64]bool{}
	add := func(p int64) {
		if p >= bsz && p < m.size && p%bsz == 0 {
			set[p] = true
		}
	}
	add(bsz)
	add(m.size - bsz)
	for s := 1; s <= m.segs && len(set) < 16; s++ {
		e := int64(s) * m.segSz
		add(e / bsz * bsz)
		add(roundUp(e, bsz))
	}
	l := make([]int64, 0, len(set))
	for p := range set {
		l = append(l, p)
	}
	sort.Slice(l, func(i, j int) bool { return l[i] < l[j] })
	return l
}

// checkPrefix opens an allocator on a mapping of the first p bytes of the file: the whole segments inside the
// mapped region are the same bytes as the head of the full buffer, so it must reproduce exactly the model's blocks
// of those segments; a region shorter than one segment must be rejected with ErrInvalid.
func (m *mon) checkPrefix(mfp *files.MMFile, p int64) *vio {
	const how = "partial-mapping"
	if mfp.Size() != p {
		return vf("blocks/reopen/"+how+"/size", "a mapping of the first %d bytes has Size()=%d", p, mfp.Size())
	}
	k := int(p / m.segSz)
	var b *cbytes.Blocks
	var err error
	if pan := guard(func() { b, err = cbytes.NewBlocks(m.bs, mfp, false) }); pan != nil {
		return vf("blocks/reopen/"+how+"/panic", "NewBlocks(bs=%d, fit=false) on a mapping of the first %d bytes panicked: %v", m.bs, p, pan)
	}
	if k == 0 {
		if err == nil {
			return vf("blocks/reopen/"+how+"/undersized-accepted", "NewBlocks(bs=%d, fit=false) on a mapping of %d bytes yields an allocator although one segment needs %d bytes", m.bs, p, m.segSz)
		}
		if !errors.Is(err, gerrors.ErrInvalid) {
			return vf("blocks/reopen/"+how+"/wrong-error-class", "NewBlocks(bs=%d, fit=false) on a mapping of %d bytes (< one segment): the error is not ErrInvalid: %v", m.bs, p, err)
		}
		return nil
	}
	if err != nil || b == nil {
		return vf("blocks/reopen/"+how+"/rejected", "NewBlocks(bs=%d, fit=false) on a mapping of the first %d bytes (%d whole segments) failed: %v", m.bs, p, k, err)
	}
	sub := &mon{bs: m.bs, size: p, fit: false, segs: k, B: m.B, count: k * m.B, segSz: m.segSz, fastProbe: m.fastProbe}
	sub.alloc = m.alloc[:sub.count]
	for _, i := range m.list {
		if int(i) < sub.count {
			sub.list = append(sub.list, i)
		}
	}
	sub.n = len(sub.list)
	if b.Count() != sub.count || b.Segments() != k || b.Available() != sub.count-sub.n {
		return vf("blocks/reopen/"+how+"/available", "mapping of the first %d bytes: Segments()=%d Count()=%d Available()=%d, the model has %d of the %d blocks of the first %d segments allocated", p, b.Segments(), b.Count(), b.Available(), sub.n, sub.count, k)
	}
	var data []byte
	if pan := guard(func() { data, err = mfp.Buffer(0, int(p)) }); pan != nil || err != nil {
		return vf("blocks/reopen/"+how+"/buffer", "Buffer(0,%d) of the partial mapping: err=%v panic=%v", p, err, pan)
	}
	return sub.reopenBytes(data, how)
}

// partialMapping maps only the first p bytes of the file - while the full mapping is live, or between Close and
// the reopen of the whole file - and opens an allocator there (checkPrefix). Looking at the head of the buffer
// must not change the state that lives in it: afterwards the bytes of the file (read(2)), the live allocator and
// a reopen of the whole file must still reproduce the model's set.
func (m *mon) partialMapping(turn int, cnt map[string]int64) (v *vio, herr error) {
	lens := m.prefixLens()
	if len(lens) == 0 {
		return nil, errHarness{fmt.Errorf("partialMapping: a file of %d bytes has no shorter mappable head", m.size)}
	}
	p := lens[(turn/2)%len(lens)]
	live := turn%2 == 0
	what := fmt.Sprintf("mapping the first %d of the %d bytes of the file (%d whole segments of %d; full mapping live: %v)", p, m.size, p/m.segSz, m.segs, live)
	if cnt != nil {
		if live {
			cnt["mmfile_partial_mapping_live"]++
		} else {
			cnt["mmfile_partial_mapping_after_close"]++
		}
		if p < m.segSz {
			cnt["mmfile_partial_mapping_below_one_segment"]++
		}
		if k := p / m.segSz; k > cnt["max_partial_mapping_segments"] {
			cnt["max_partial_mapping_segments"] = k
		}
	}
	if !live {
		var err error
		if pan := guard(func() { err = m.bks.Close() }); pan != nil || err != nil {
			return vf("blocks/reopen/close", "Close: err=%v panic=%v", err, pan), nil
		}
		m.bks, m.base, m.st.buf = nil, nil, nil
	}
	mfp, err := files.NewMMFile(m.st.path, p)
	if err != nil {
		return nil, errHarness{err}
	}
	v = m.checkPrefix(mfp, p)
	guard(func() { mfp.Close() })
	if v == nil {
		// read(2) first: it cannot fault whatever happened to the file
		var data []byte
		if data, err = os.ReadFile(m.st.path); err != nil {
			return nil, errHarness{err}
		}
		v = m.reopenBytes(data, "after-partial-mapping")
	}
	if v == nil && !live {
		mf, err := files.NewMMFile(m.st.path, -1)
		if err != nil {
			return nil, errHarness{err}
		}
		m.st.buf = mf
		if mf.Size() != m.size {
			v = vf("blocks/reopen/after-partial-mapping/size", "reopened mapping has size %d, file was created with %d", mf.Size(), m.size)
		} else {
			v = m.open("reopen/after-partial-mapping")
		}
	}
	if v == nil {
		v = m.full(what)
	}
	if v != nil {
		v.what = "after " + what + ": " + v.what
	}
	return v, nil
}

// ---------------------------------------------------------------------------------------------------
// geometry sweep

func geomCase(w witness) (v *vio, class string, herr error) {
	valid := validBS(w.BS)
	var seg int64
	accept := false
	if valid {
		seg = segSize(w.BS)
		accept = w.Size >= seg && (!w.Fit || w.Size%seg == 0)
	}
	st, err := openStore(w.Backend, w.Size)
	if err != nil {
		return nil, "", err
	}
	defer st.close()
	var b *cbytes.Blocks
	if p := guard(func() { b, err = cbytes.NewBlocks(w.BS, st.buf, w.Fit) }); p != nil {
		return vf("blocks/geometry/panic", "NewBlocks(bs=%d, size=%d, fit=%v) panicked: %v", w.BS, w.Size, w.Fit, p), "", nil
	}
	switch {
	case err != nil && accept:
		return vf("blocks/geometry/valid-rejected", "NewBlocks(bs=%d, size=%d = %d segments of %d + %d, fit=%v) failed: %v", w.BS, w.Size, w.Size/seg, seg, w.Size%seg, w.Fit, err), "", nil
	case err != nil:
		if !errors.Is(err, gerrors.ErrInvalid) {
			return vf("blocks/geometry/wrong-error-class", "NewBlocks(bs=%d, size=%d, fit=%v): the error is not ErrInvalid: %v", w.BS, w.Size, w.Fit, err), "", nil
		}
		switch {
		case !valid:
			return nil, "reject-bs", nil
		case w.Size < seg:
			return nil, "reject-undersized", nil
		}
		return nil, "reject-fit-remainder", nil
	case !valid:
		return vf("blocks/geometry/invalid-bs-accepted", "NewBlocks(bs=%d, size=%d, fit=%v) yields an allocator (Segments=%d Count=%d Available=%d) although the block size is neither a power of two below the page size %d nor a multiple of it", w.BS, w.Size, w.Fit, b.Segments(), b.Count(), b.Available(), page), "", nil
	case w.Size < seg:
		return vf("blocks/geometry/undersized-accepted", "NewBlocks(bs=%d, size=%d, fit=%v) yields an allocator although one segment needs %d bytes", w.BS, w.Size, w.Fit, seg), "", nil
	case !accept:
		return vf("blocks/geometry/fit-remainder-accepted", "NewBlocks(bs=%d, size=%d, fit=true) yields an allocator although size %% %d = %d", w.BS, w.Size, seg, w.Size%seg), "", nil
	case b == nil:
		return vf("blocks/geometry/nil-allocator", "NewBlocks(bs=%d, size=%d, fit=%v) returned nil, nil", w.BS, w.Size, w.Fit), "", nil
	}
	segs := int(w.Size / seg)
	count := segs * w.BS * 8
	if c := b.Count(); c != count {
		return vf("blocks/geometry/count", "NewBlocks(bs=%d, size=%d, fit=%v): Count()=%d want segments*bs*8=%d*%d*8=%d", w.BS, w.Size, w.Fit, c, segs, w.BS, count), "", nil
	}
	if s := b.Segments(); s != segs {
		return vf("blocks/geometry/segments", "NewBlocks(bs=%d, size=%d, fit=%v): Segments()=%d want %d", w.BS, w.Size, w.Fit, s, segs), "", nil
	}
	if a := b.Available(); a != count {
		return vf("blocks/geometry/available", "NewBlocks(bs=%d, size=%d, fit=%v) on zeroed bytes: Available()=%d want Count()=%d", w.BS, w.Size, w.Fit, a, count), "", nil
	}
	// first and last block lie inside the buffer, the index Count() is refused
	m := &mon{bs: w.BS, size: w.Size, fit: w.Fit, st: st, segSz: seg, B: w.BS * 8, segs: segs, count: count, bks: b, offs: make([]int64, count), alloc: make([]bool, count)}
	if p := guard(func() { m.base, err = st.buf.Buffer(0, int(w.Size)) }); p != nil || err != nil || int64(len(m.base)) != w.Size {
		return nil, "", errHarness{fmt.Errorf("Buffer(0,%d): %v %v", w.Size, err, p)}
	}
	for _, i := range []int{0, w.BS*8 - 1, count - 1} {
		if _, v := m.getBlock(i); v != nil {
			return v, "", nil
		}
	}
	if v := m.oob(); v != nil {
		return v, "", nil
	}
	cls := "accept-exact"
	if w.Size%seg != 0 {
		cls = "accept-oversized"
	}
	return nil, fmt.Sprintf("%s-%dseg", cls, segs), nil
}

func bsList() []int {
	l := []int{-8, -1, 0, 1, 2, 3, 4, 5, 6, 7, 8, 12}
	for b := 16; b <= 4096; b *= 2 {
		l = append(l, b)
	}
	l = append(l, 4097, 6000, 8192, page, page+1, 2*page)
	sort.Ints(l)
	out := l[:0]
	for i, b := range l {
		if i == 0 || b != l[i-1] {
			out = append(out, b)
		}
	}
	return out
}

func geomSizes(bs int, thorough bool) []int64 {
	var sz []int64
	add := func(s ...int64) {
		for _, x := range s {
			if x >= 0 {
				sz = append(sz, x)
			}
		}
	}
	a := bs
	if a < 0 {
		a = -a
	}
	var seg int64 = 9
	if a > 0 {
		seg = segSize(a)
	}
	maxSegs := int64(3)
	switch {
	case !validBS(bs) && seg > 64<<20:
		maxSegs = 1 // invalid size: only the class matters, keep the buffers small
	case bs > page:
		maxSegs = 1 // >= 0.5 GB per segment
		if !thorough {
			maxSegs = 0
		}
	}
	add(0, 1, int64(a), seg-1, seg/2)
	for n := int64(1); n <= maxSegs; n++ {
		add(n*seg, n*seg+1)
		if !(bs > page) {
			add(n*seg + seg - 1)
		}
	}
	if !validBS(bs) {
		add(99, 100, 4096, 1<<20)
	}
	sort.Slice(sz, func(i, j int) bool { return sz[i] < sz[j] })
	out := sz[:0]
	for i, s := range sz {
		if i == 0 || s != sz[i-1] {
			out = append(out, s)
		}
	}
	return out
}

func geometrySweep(run *report.Run) {
	var small, big []witness
	for _, bs := range bsList() {
		for _, sz := range geomSizes(bs, run.Thorough()) {
			for _, fit := range []bool{false, true} {
				w := witness{Kind: "geom", BS: bs, Size: sz, Fit: fit, Backend: "inmem"}
				if sz > 32<<20 {
					big = append(big, w)
				} else {
					small = append(small, w)
				}
				// the same geometry on a mapped file where the file layer allows the size
				if sz > 0 && sz%files.BlockSize == 0 && (sz <= 64<<20 || run.Thorough() || bs == page) {
					w.Backend = "mmfile"
					if sz > 32<<20 {
						big = append(big, w)
					} else {
						small = append(small, w)
					}
				}
			}
		}
	}
	var mu sync.Mutex
	classes := map[string]int{}
	maxBytes := int64(0)
	do := func(w witness) {
		v, class, herr := geomCase(w)
		if herr != nil {
			run.Inconclusive(fmt.Sprintf("geometry bs=%d size=%d backend=%s: %v", w.BS, w.Size, w.Backend, herr))
			return
		}
		run.Eval(1)
		run.Add("geometry_cases", 1)
		if v != nil {
			run.Violation(v.sig, v.what, w)
			return
		}
		key := fmt.Sprintf("geom bs=%d %s fit=%v %s", w.BS, class, w.Fit, w.Backend)
		mu.Lock()
		classes[key]++
		if w.Size > maxBytes {
			maxBytes = w.Size
		}
		mu.Unlock()
	}
	var wg sync.WaitGroup
	ch := make(chan witness)
	for i := 0; i < runtime.NumCPU(); i++ {
		wg.Add(1)
		go func() {
			defer wg.Done()
			for w := range ch {
				do(w)
			}
		}()
	}
	wg.Add(1)
	go func() { // buffers above 32 MB one at a time (lazily zeroed, never touched beyond the headers)
		defer wg.Done()
		for _, w := range big {
			do(w)
			debug.FreeOSMemory()
		}
	}()
	for _, w := range small {
		ch <- w
	}
	close(ch)
	wg.Wait()
	for k := range classes {
		run.DistinctStr(k)
	}
	run.Note("geometry_block_sizes", bsList())
	run.Note("geometry_largest_buffer_bytes", maxBytes)
	run.Sample(fmt.Sprintf("geometry: %d cases, e.g. bs=512 size=%d (3 segments + segment-1) fit=false accepted with Count=%d", len(small)+len(big), 3*segSize(512)+segSize(512)-1, 3*512*8))
}

// ---------------------------------------------------------------------------------------------------
// sequences on tiny geometries

// replayRaw applies o without monitors (used for prefixes that were monitored before: the allocator is
// deterministic). It only keeps the model and the patterns in step; anything unexpected is returned as text.
func (m *mon) replayRaw(o op) (bad string) {
	if p := guard(func() {
		switch o.K {
		case opArrange:
			idx, err := m.bks.ArrangeBlock()
			if err == nil {
				if idx < 0 || idx >= m.count || m.alloc[idx] {
					bad = fmt.Sprintf("ArrangeBlock returned %d", idx)
					return
				}
				m.mark(idx)
				blk, err := m.bks.Block(idx)
				if err != nil || len(blk) != m.bs {
					bad = fmt.Sprintf("Block(%d): %v", idx, err)
					return
				}
				stamp(blk, idx, 0)
			}
		case opFree:
			if m.bks.FreeBlock(o.I) == nil {
				if o.I < 0 || o.I >= m.count || !m.alloc[o.I] {
					bad = fmt.Sprintf("FreeBlock(%d) returned nil", o.I)
					return
				}
				m.unmark(o.I)
			}
		case opBlock:
			m.bks.Block(o.I)
		}
	}); p != nil {
		bad = fmt.Sprintf("panic: %v", p)
	}
	return bad
}

// monitored applies o with the result oracle and then the full monitor (all patterns, all address ranges,
// out-of-range probes, reopen on a copy).
func (m *mon) monitored(o op, label string) (v *vio) {
	switch o.K {
	case opArrange:
		_, v = m.arrange()
	case opFree:
		v = m.free(o.I)
	case opBlock:
		v = m.block(o.I)
	}
	if v == nil {
		v = m.full(label)
	}
	return v
}

func (m *mon) describe(w witness, step int, o op, v *vio) {
	v.what = fmt.Sprintf("bs=%d segments=%d extra=%d prefill=%d, step %d %s of [%s]: %s", m.bs, m.segs, m.size-int64(m.segs)*m.segSz, w.Prefill, step, o, opsText(w.Ops), v.what)
}

// runSeq runs w.Prefill Arranges and then w.Ops on a fresh allocator, every step under the full monitor. It is the
// reference execution: replays use it, and every violation found by the snapshot-based enumeration below is
// confirmed through it before it is reported.
func runSeq(w witness, visit func(tclass)) (v *vio, herr error) {
	m, v, herr := newMon(w.BS, w.Size, w.Fit, w.Backend)
	if v != nil || herr != nil {
		return v, herr
	}
	defer m.close()
	m.visit = visit
	if v := m.full("open"); v != nil {
		return v, nil
	}
	for i := 0; i < w.Prefill+len(w.Ops); i++ {
		o := op{opArrange, 0}
		if i >= w.Prefill {
			o = w.Ops[i-w.Prefill]
		}
		if v := m.monitored(o, fmt.Sprintf("step %d %s", i-w.Prefill, o)); v != nil {
			m.describe(w, i-w.Prefill, o, v)
			return v, nil
		}
	}
	return nil, nil
}

type enumUnit struct {
	w     witness // start: geometry, prefill, prefix w.Ops
	depth int     // sequences up to this many operations (prefix included)
	only  bool    // visit only the node w.Ops itself (interior node above the split level)
	alpha []op
	nodes *atomic.Int64
}

func freeIndices(bs, segs int) []int {
	B := bs * 8
	count := B * segs
	set := map[int]bool{0: true, 1: true, 2: true, 3: true, count - 1: true}
	for s := 1; s < segs; s++ {
		set[s*B-1] = true
		set[s*B] = true
	}
	var l []int
	for i := range set {
		if i >= 0 && i < count {
			l = append(l, i)
		}
	}
	sort.Ints(l)
	return l
}

// frame is a snapshot of the complete state of allocator + model: the Blocks value (hint index, counter; its
// mutex is unlocked whenever a snapshot is taken), the bytes of the buffer, and the model's set.
type frame struct {
	blocks cbytes.Blocks
	bytes  []byte
	alloc  []bool
	pos    []int32
	list   []int32
	n      int
}

func (m *mon) save(f *frame) {
	f.blocks = *m.bks // a copy of the struct including its (unlocked) mutex is exactly what is wanted here
	f.bytes = append(f.bytes[:0], m.base...)
	f.alloc = append(f.alloc[:0], m.alloc...)
	f.pos = append(f.pos[:0], m.pos...)
	f.list = append(f.list[:0], m.list...)
	f.n = m.n
}

func (m *mon) restore(f *frame) {
	*m.bks = f.blocks
	copy(m.base, f.bytes)
	copy(m.alloc, f.alloc)
	copy(m.pos, f.pos)
	m.list = append(m.list[:0], f.list...)
	m.n = f.n
}

// enumerate visits every extension of u.w.Ops up to u.depth operations; every node (= every sequence, prefix-
// closed) is one monitored case: the last operation of the sequence is applied under the result oracle and the
// full monitor. The state before each operation is re-established from a snapshot (frame) instead of re-running
// the prefix; a violation found this way is confirmed by the reference execution runSeq before it is reported.
func enumerate(run *report.Run, u enumUnit, visit func(tclass), state func(bs, segs int, bits uint64)) {
	w := u.w
	m, v, herr := newMon(w.BS, w.Size, w.Fit, w.Backend)
	if herr != nil {
		run.Inconclusive(herr.Error())
		return
	}
	if v != nil {
		run.Eval(1)
		run.Violation(v.sig, v.what, w)
		return
	}
	defer m.close()
	report := func(path []op, v *vio) {
		ww := w
		ww.Ops = append([]op(nil), path...)
		ww.Text = opsText(ww.Ops)
		cv, herr := runSeq(ww, nil)
		switch {
		case herr != nil:
			run.Inconclusive(herr.Error())
		case cv != nil:
			run.Violation(cv.sig, cv.what, ww)
		default:
			run.Inconclusive(fmt.Sprintf("enumeration: %s (%s) after prefill=%d [%s] on bs=%d size=%d was not reproduced by the reference execution", v.sig, v.what, w.Prefill, ww.Text, w.BS, w.Size))
		}
	}
	setMode := func(depth int) {
		// deep nodes: cheap form of the reopen probe (same decision, see reopenBytes), one out-of-range probe per node
		m.fastProbe, m.lightOOB = depth > 4, depth > 4
	}
	// reach the unit's own node: everything but its last operation unmonitored (monitored by another unit)
	pre := w.Prefill + len(w.Ops)
	for i := 0; i < pre-1 || (i < pre && len(w.Ops) == 0); i++ {
		o := op{opArrange, 0}
		if i >= w.Prefill {
			o = w.Ops[i-w.Prefill]
		}
		if bad := m.replayRaw(o); bad != "" {
			// a prefix violating the model is reported by the unit that monitors it
			return
		}
	}
	m.visit = visit
	u.nodes.Add(1)
	run.Eval(1)
	setMode(len(w.Ops))
	if len(w.Ops) == 0 {
		v = m.full("start state")
	} else {
		o := w.Ops[len(w.Ops)-1]
		v = m.monitored(o, fmt.Sprintf("step %d %s", len(w.Ops)-1, o))
	}
	if v != nil {
		report(w.Ops, v)
		return
	}
	if state != nil {
		state(m.bs, m.segs, m.bits())
	}
	if u.only || len(w.Ops) >= u.depth {
		return
	}
	frames := make([]frame, u.depth+1)
	path := append(make([]op, 0, u.depth), w.Ops...)
	var dfs func()
	dfs = func() {
		d := len(path)
		f := &frames[d]
		m.save(f)
		for _, o := range u.alpha {
			path = append(path, o)
			u.nodes.Add(1)
			run.Eval(1)
			setMode(d + 1)
			m.oobTurn = d + o.I + o.K
			if v := m.monitored(o, o.String()); v != nil {
				report(path, v)
			} else {
				if state != nil {
					state(m.bs, m.segs, m.bits())
				}
				if d+1 < u.depth {
					dfs()
				}
			}
			path = path[:d]
			m.restore(f)
		}
	}
	dfs()
}

// enumPlan bounds the enumeration: no sequence is longer than maxDepth; the from-empty family of geometry
// (bs, segments) is enumerated to emptyDepth(bs, segments); every aimed family (larger alphabet, prefilled start)
// to the largest depth whose number of sequences of that length stays <= leafCap.
type enumPlan struct {
	maxDepth   int
	emptyDepth func(bs, segs int) int
	leafCap    int64
}

func enumeration(run *report.Run, plan enumPlan) {
	maxDepth, nodeCap := plan.maxDepth, plan.leafCap
	type lstate struct {
		classes map[tclass]struct{}
		states  map[uint64]struct{}
	}
	var mu sync.Mutex
	classes := map[tclass]struct{}{}
	states := map[uint64]struct{}{}

	units := make(chan enumUnit, 4096)
	var wg sync.WaitGroup
	for i := 0; i < runtime.NumCPU(); i++ {
		wg.Add(1)
		go func() {
			defer wg.Done()
			l := lstate{map[tclass]struct{}{}, map[uint64]struct{}{}}
			visit := func(c tclass) { l.classes[c] = struct{}{} }
			state := func(bs, segs int, bits uint64) {
				l.states[bits*0x9e3779b97f4a7c15^uint64(bs*8+segs)*0xc2b2ae3d27d4eb4f] = struct{}{}
			}
			for u := range units {
				enumerate(run, u, visit, state)
			}
			mu.Lock()
			for k := range l.classes {
				classes[k] = struct{}{}
			}
			for k := range l.states {
				states[k] = struct{}{}
			}
			mu.Unlock()
		}()
	}

	type bound struct {
		BS       int    `json:"bs"`
		Segments int    `json:"segments"`
		Extra    int64  `json:"extra_bytes"`
		Prefill  int    `json:"prefill"`
		Alphabet string `json:"alphabet"`
		Depth    int    `json:"depth"`
		nodes    *atomic.Int64
		Nodes    int64 `json:"sequences"`
	}
	var bounds []*bound
	depthFor := func(a int, cap int64) int {
		d, n := 0, int64(1)
		for d < maxDepth && n*int64(a) <= cap {
			n *= int64(a)
			d++
		}
		return d
	}
	emit := func(bs, segs int, extra int64, prefill int, alpha []op, depth int) {
		b := &bound{BS: bs, Segments: segs, Extra: extra, Prefill: prefill, Alphabet: opsText(alpha), Depth: depth, nodes: new(atomic.Int64)}
		bounds = append(bounds, b)
		base := witness{Kind: "seq", BS: bs, Size: int64(segs)*segSize(bs) + extra, Fit: extra == 0, Backend: "inmem", Prefill: prefill}
		// the subtrees below the split level are the work units; the nodes above it are single-node units
		split := 2
		if depth >= 9 {
			split = 4
		}
		if depth < split {
			split = depth
		}
		var gen func(ops []op)
		gen = func(ops []op) {
			if len(ops) == split {
				w := base
				w.Ops = ops
				units <- enumUnit{w: w, depth: depth, alpha: alpha, nodes: b.nodes}
				return
			}
			// interior node above the split: monitored once, here
			w := base
			w.Ops = ops
			units <- enumUnit{w: w, depth: depth, only: true, alpha: alpha, nodes: b.nodes}
			for _, o := range alpha {
				gen(append(append(make([]op, 0, len(ops)+1), ops...), o))
			}
		}
		gen(nil)
	}

	for _, bs := range []int{1, 2} {
		B := bs * 8
		for segs := 1; segs <= 3; segs++ {
			count := B * segs
			// (1) from the empty allocator, full depth, over the indices reachable at that depth
			core := []op{{opArrange, 0}, {opFree, 0}, {opFree, 1}, {opFree, 2}, {opFree, 3}}
			emit(bs, segs, 0, 0, core, min(maxDepth, plan.emptyDepth(bs, segs)))
			// (2) aimed starts: K blocks allocated (just below each segment boundary, and full), every
			// sequence over Arrange and Free of the 4 lowest, the segment-boundary and the highest indices
			var alpha []op
			alpha = append(alpha, op{opArrange, 0})
			for _, i := range freeIndices(bs, segs) {
				alpha = append(alpha, op{opFree, i})
			}
			starts := []int{count}
			for s := 1; s <= segs; s++ {
				starts = append(starts, s*B-2)
			}
			if segs > 1 {
				starts = append(starts, 0)
			}
			sort.Ints(starts)
			for _, k := range starts {
				emit(bs, segs, 0, k, alpha, depthFor(len(alpha), nodeCap))
			}
			// (3) the same on an oversized buffer (fit=false, trailing bytes unused)
			if segs == 2 {
				emit(bs, segs, segSize(bs)-1, B-2, alpha, depthFor(len(alpha), nodeCap/4))
				emit(bs, segs, 1, count, alpha, depthFor(len(alpha), nodeCap/4))
			}
		}
	}
	// (4) headers of more than two bytes (bs=4: 32 blocks per segment), where the free-hint can point into the
	// middle of a header: Free of indices in different header bytes around it
	for segs := 1; segs <= 2; segs++ {
		B := 32
		count := B * segs
		idx := []int{0, 7, 8, 16, 24, B - 1}
		if segs == 2 {
			idx = append(idx, B, count-1)
		}
		alpha := []op{{opArrange, 0}}
		for _, i := range idx {
			alpha = append(alpha, op{opFree, i})
		}
		for _, k := range []int{9, 17, B - 2, count} {
			emit(4, segs, 0, k, alpha, depthFor(len(alpha), nodeCap))
		}
	}
	close(units)
	wg.Wait()

	var total int64
	for _, b := range bounds {
		b.Nodes = b.nodes.Load()
		total += b.Nodes
		run.Max("enum_max_depth", int64(b.Depth))
	}
	run.Note("enumeration_bounds", bounds)
	run.Note("enumeration_method", "depth-first over the alphabet; every node = one sequence whose last operation is applied under the result oracle + full monitor (Available, every block's pattern / length / address range / disjointness, out-of-range probes, reopen on a copy of the bytes). The state before an operation is re-established from a snapshot (Blocks struct value incl. hint index and counter, buffer bytes, model) instead of re-running the prefix; a violation is reported only after the reference execution (fresh allocator, every step monitored) reproduced it")
	run.Note("reopen_probe_forms", "literal: FreeBlock on every index of the reopened copy (nil = allocated, ErrNotExist = free) — used at enumeration nodes of depth <= 4, every 16th full check of walks with a full check every < 100 operations, every full check otherwise; cheap: FreeBlock of the model's allocated indices must return nil, then ArrangeBlock must hand out every index exactly once before ErrExhausted — same decision without constructing an error per free block")
	run.Add("enumerated_sequences", total)
	run.Add("enumerated_model_states", int64(len(states)))
	for k := range states {
		run.Distinct(k)
	}
	for k := range classes {
		run.DistinctStr(k.String())
	}
	run.Sample(fmt.Sprintf("enumeration: bs=1, 3 segments (24 blocks, 27 bytes), 22 blocks allocated, then every sequence over {%s} to depth %d, full monitor + reopen after every operation", opsText(append([]op{{opArrange, 0}}, func() []op {
		var l []op
		for _, i := range freeIndices(1, 3) {
			l = append(l, op{opFree, i})
		}
		return l
	}()...)), depthFor(10, nodeCap)))
}

// ---------------------------------------------------------------------------------------------------
// random long walks

// runWalk: w.Steps operations from seed w.Seed on (w.BS, w.Size, w.Fit, w.Backend). The fill level is steered
// through 0 %, the boundary of each segment, 100 % (with churn at each target) and back to 0 %. The O(1) monitor
// runs after every operation, the full monitor (all patterns, all address ranges, reopen) every w.Every
// operations and whenever a target level is first reached. On a mapped file the full monitor additionally
// rotates through second mapping / Close+reopen / os.ReadFile / a mapping of only the head of the file (partialMapping).
func runWalk(w witness, visit func(tclass), cnt map[string]int64) (v *vio, failAt int, herr error) {
	m, v, herr := newMon(w.BS, w.Size, w.Fit, w.Backend)
	if v != nil || herr != nil {
		return v, -1, herr
	}
	defer m.close()
	m.visit = visit
	rng := rand.New(rand.NewSource(w.Seed))
	B, count := m.B, m.count
	var targets []int
	for s := 0; s <= m.segs; s++ {
		targets = append(targets, s*B)
	}
	targets = append(targets, count-B/2, count, 0, B-1, 2*B+1, count, B, 0)
	for i := range targets {
		if targets[i] > count {
			targets[i] = count
		}
		if targets[i] < 0 {
			targets[i] = 0
		}
	}
	hover := w.Steps / (3 * len(targets))
	if hover < 50 {
		hover = 50
	}
	ti, hovered, reached := 0, 0, false
	oobs := []int{-1, count, count + 1, -count, count + B, math.MaxInt, math.MinInt, -B}
	maxKey := fmt.Sprintf("max_allocated_bs%d", m.bs)
	mmfTurn, partTurn, fulls := 0, 0, 0
	fullCheck := func(after string) (*vio, error) {
		if cnt != nil {
			cnt["full_checks"]++
		}
		fulls++
		if w.Every > 0 && w.Every < 100 {
			// frequent full monitor: the literal FreeBlock-on-every-index form of the reopen probe every 16th time,
			// the cheap form (same decision, see reopenBytes) otherwise
			m.fastProbe = fulls%16 != 1
			m.lightOOB = m.fastProbe
		}
		if v := m.full(after); v != nil {
			return v, nil
		}
		if w.Backend != "mmfile" {
			return nil, nil
		}
		mmfTurn++
		turn := mmfTurn % 4
		if turn == 3 && len(m.prefixLens()) == 0 {
			turn = 2 // a file of one file block has no shorter head
		}
		switch turn {
		case 3:
			partTurn++
			return m.partialMapping(partTurn-1, cnt)
		case 0:
			if cnt != nil {
				cnt["mmfile_second_mapping"]++
			}
			return m.secondMapping()
		case 1:
			if cnt != nil {
				cnt["mmfile_close_reopen"]++
			}
			return m.closeReopen()
		}
		if cnt != nil {
			cnt["mmfile_readfile"]++
		}
		return m.readFile()
	}
	if v, herr := fullCheck("open"); v != nil || herr != nil {
		return v, 0, herr
	}
	for step := 1; step <= w.Steps; step++ {
		target := targets[ti%len(targets)]
		if m.n == target && !reached {
			reached = true
			if cnt != nil {
				cnt["walk_target_levels_reached"]++
				if target == count {
					cnt["walk_reached_100_percent"]++
				}
			}
			if v, herr := fullCheck(fmt.Sprintf("reaching level %d", target)); v != nil || herr != nil {
				return v, step, herr
			}
		}
		if reached {
			hovered++
			if hovered >= hover {
				ti++
				hovered, reached = 0, false
			}
		}
		pArr := 50
		switch {
		case m.n < target-3:
			pArr = 90
		case m.n > target+3:
			pArr = 10
		case target == count:
			pArr = 60
		case target == 0:
			pArr = 40
		}
		var o op
		if rng.Intn(100) < pArr {
			o = op{opArrange, 0}
		} else {
			x := rng.Intn(100)
			switch {
			case x < 55 && m.n > 0:
				o = op{opFree, int(m.list[rng.Intn(len(m.list))])}
			case x < 63 && m.n > 0:
				// lowest / highest allocated, or an allocated index next to a segment boundary
				o = op{opFree, -1}
				switch rng.Intn(3) {
				case 0:
					for i := 0; i < count; i++ {
						if m.alloc[i] {
							o.I = i
							break
						}
					}
				case 1:
					for i := count - 1; i >= 0; i-- {
						if m.alloc[i] {
							o.I = i
							break
						}
					}
				default:
					s := 1 + rng.Intn(m.segs)
					for _, i := range []int{s*B - 1, s * B, s*B - 2, s*B + 1} {
						if i >= 0 && i < count && m.alloc[i] {
							o.I = i
							break
						}
					}
					if o.I < 0 {
						o.I = int(m.list[rng.Intn(len(m.list))])
					}
				}
			case x < 75:
				// an in-range index that is free (if one is found in a few draws)
				o = op{opFree, rng.Intn(count)}
				for t := 0; t < 4 && m.alloc[o.I]; t++ {
					o.I = rng.Intn(count)
				}
			case x < 83:
				o = op{opFree, oobs[rng.Intn(len(oobs))]}
			case x < 95:
				o = op{opBlock, rng.Intn(count)}
			default:
				o = op{opBlock, oobs[rng.Intn(len(oobs))]}
			}
		}
		touched := o.I
		switch o.K {
		case opArrange:
			touched, v = m.arrange()
			if cnt != nil && touched < 0 && v == nil {
				cnt["walk_arrange_exhausted"]++
			}
		case opFree:
			v = m.free(o.I)
		case opBlock:
			v = m.block(o.I)
		}
		if cnt != nil {
			cnt[[]string{"walk_arrange", "walk_free", "walk_block"}[o.K]]++
		}
		if v == nil {
			v = m.light(o.String(), touched)
		}
		if v == nil && w.Every > 0 && step%w.Every == 0 {
			v, herr = fullCheck(fmt.Sprintf("step %d %s", step, o))
			if herr != nil {
				return nil, step, herr
			}
		}
		if v != nil {
			v.what = fmt.Sprintf("walk bs=%d segments=%d size=%d %s seed=%d, step %d %s (%d of %d allocated): %s", m.bs, m.segs, m.size, w.Backend, w.Seed, step, o, m.n, m.count, v.what)
			return v, step, nil
		}
		if cnt != nil && int64(m.n) > cnt[maxKey] {
			cnt[maxKey] = int64(m.n)
		}
	}
	// drain completely, then the allocator must be as good as new
	for m.n > 0 {
		idx := int(m.list[len(m.list)-1])
		if v = m.free(idx); v == nil {
			v = m.light("drain", idx)
		}
		if v != nil {
			v.what = fmt.Sprintf("walk bs=%d segments=%d seed=%d, final drain FreeBlock(%d): %s", m.bs, m.segs, w.Seed, idx, v.what)
			return v, w.Steps + 1, nil
		}
	}
	if v, herr := fullCheck("final drain"); v != nil || herr != nil {
		if v != nil {
			v.what = fmt.Sprintf("walk bs=%d segments=%d seed=%d, after the final drain: %s", m.bs, m.segs, w.Seed, v.what)
		}
		return v, w.Steps + 1, herr
	}
	return nil, -1, nil
}

type walkStats struct {
	mu      sync.Mutex
	classes map[tclass]struct{}
	cnt     map[string]int64
}

func runWalks(run *report.Run, ws []witness, lanes int) {
	st := &walkStats{classes: map[tclass]struct{}{}, cnt: map[string]int64{}}
	var wg sync.WaitGroup
	ch := make(chan witness)
	for i := 0; i < lanes; i++ {
		wg.Add(1)
		go func() {
			defer wg.Done()
			for w := range ch {
				classes := map[tclass]struct{}{}
				cnt := map[string]int64{}
				v, failAt, herr := runWalk(w, func(c tclass) { classes[c] = struct{}{} }, cnt)
				if herr != nil {
					run.Inconclusive(fmt.Sprintf("walk bs=%d %s: %v", w.BS, w.Backend, herr))
					continue
				}
				run.Eval(1)
				run.Add("walks_"+w.Backend, 1)
				if v != nil {
					w.FailAt = failAt
					run.Violation(v.sig, v.what, w)
				}
				st.mu.Lock()
				for k := range classes {
					st.classes[k] = struct{}{}
				}
				for k, n := range cnt {
					if strings.HasPrefix(k, "max_") {
						if n > st.cnt[k] {
							st.cnt[k] = n
						}
					} else {
						st.cnt[k] += n
					}
				}
				st.mu.Unlock()
			}
		}()
	}
	for _, w := range ws {
		ch <- w
	}
	close(ch)
	wg.Wait()
	for k := range st.classes {
		run.DistinctStr(k.String())
	}
	for k, n := range st.cnt {
		if strings.HasPrefix(k, "max_") {
			run.Max(k, n)
		} else {
			run.Add(k, n)
		}
	}
}

func roundUp(x, to int64) int64 { return (x + to - 1) / to * to }

func walkCases(run *report.Run) (inmem, mmf, huge []witness) {
	seed := run.Seed() * 1_000_003
	every := map[int]int{8: 1, 64: 25, 512: 1000}
	per := run.Pick(2, 10)
	for _, bs := range []int{8, 64, 512} {
		for i := 0; i < per; i++ {
			w := witness{Kind: "walk", BS: bs, Backend: "inmem", Steps: 100_000, Every: every[bs], Seed: seed + int64(bs*100+i)}
			switch i % 3 {
			case 0:
				w.Size, w.Fit = 3*segSize(bs), true
			case 1:
				w.Size, w.Fit = 3*segSize(bs)+segSize(bs)-1, false
			default:
				w.Size, w.Fit = 3*segSize(bs)+1, false
			}
			inmem = append(inmem, w)
		}
	}
	// mapped files: sizes are multiples of 4096, so the buffer is oversized unless the segment is a page multiple
	type mg struct {
		bs    int
		size  int64
		fit   bool
		steps int
		every int
	}
	mgs := []mg{
		{1, 4096, false, run.Pick(6000, 40000), 200},                          // 455 segments of 9 bytes + 1
		{8, 4096, false, run.Pick(6000, 40000), 150},                          // 7 segments of 520 bytes + 456
		{64, roundUp(3*segSize(64), 4096), false, run.Pick(6000, 40000), 300}, // 3 segments + remainder
		{8, 3 * 4096, false, run.Pick(6000, 40000), 150},                      // 23 segments + 328; heads of 7 and 15 segments
		{512, roundUp(3*segSize(512), 4096), false, run.Pick(30000, 100000), run.Pick(3000, 2000)},
	}
	for i, g := range mgs {
		mmf = append(mmf, witness{Kind: "walk", BS: g.bs, Size: g.size, Fit: g.fit, Backend: "mmfile", Steps: g.steps, Every: g.every, Seed: seed + 7000 + int64(i)})
	}
	if run.Thorough() {
		// one and two segments of page-sized blocks (134 MB each, sparse file / lazily zeroed memory), one segment
		// of 8192-byte blocks (537 MB). The walks stay far below 100 % so that few pages are touched.
		huge = append(huge,
			witness{Kind: "walk", BS: page, Size: segSize(page), Fit: true, Backend: "inmem", Steps: 100_000, Every: 50_000, Seed: seed + 8001},
			witness{Kind: "walk", BS: page, Size: 2 * segSize(page), Fit: true, Backend: "mmfile", Steps: 150_000, Every: 60_000, Seed: seed + 8002},
			witness{Kind: "walk", BS: 2 * page, Size: segSize(2 * page), Fit: true, Backend: "mmfile", Steps: 20_000, Every: 15_000, Seed: seed + 8003},
			witness{Kind: "walk", BS: 2 * page, Size: segSize(2 * page), Fit: true, Backend: "inmem", Steps: 20_000, Every: 15_000, Seed: seed + 8004},
		)
	}
	return
}

// ---------------------------------------------------------------------------------------------------
// concurrency

// runConc: w.G goroutines share one allocator. Each allocates, stamps, verifies and frees its own blocks
// (at most w.Hold at a time; 0 = unbounded, then ErrExhausted is legitimate and only makes the goroutine free).
// owner[idx] is CAS-claimed 0→gid when ArrangeBlock returns idx and released before FreeBlock(idx).
func runConc(w witness, cnt map[string]int64) (v *vio, herr error) {
	m, v, herr := newMon(w.BS, w.Size, w.Fit, w.Backend)
	if v != nil || herr != nil {
		return v, herr
	}
	defer m.close()
	count := m.count
	owner := make([]atomic.Int32, count)
	var first atomic.Pointer[vio]
	var stop atomic.Bool
	fail := func(x *vio) {
		if first.CompareAndSwap(nil, x) {
			stop.Store(true)
		}
	}
	neverFull := w.Hold > 0 && w.G*(w.Hold+1) < count
	held := make([][]int, w.G)
	var exhausted, allocs, frees atomic.Int64
	var wg sync.WaitGroup
	done := make(chan struct{})
	for g := 0; g < w.G; g++ {
		wg.Add(1)
		go func(g int) {
			defer wg.Done()
			gid := int32(g + 1)
			rng := rand.New(rand.NewSource(w.Seed*131 + int64(g)))
			var mine []int
			defer func() { held[g] = mine }()
			if p := guard(func() {
				for it := 0; it < w.Iter && !stop.Load(); it++ {
					wantAlloc := rng.Intn(100) < 55
					if w.Hold > 0 && len(mine) >= w.Hold {
						wantAlloc = false
					}
					if len(mine) == 0 {
						wantAlloc = true
					}
					if wantAlloc {
						idx, err := m.bks.ArrangeBlock()
						if err != nil {
							if !errors.Is(err, gerrors.ErrExhausted) {
								fail(vf("blocks/conc/Arrange/unexpected-error", "goroutine %d: ArrangeBlock: %v", g, err))
								return
							}
							if neverFull {
								fail(vf("blocks/conc/Arrange/exhausted-with-free-blocks", "goroutine %d: ErrExhausted although at most %d goroutines x (%d held + 1 in flight) = %d of %d blocks can be allocated at any instant", g, w.G, w.Hold, w.G*(w.Hold+1), count))
								return
							}
							exhausted.Add(1)
							// free something so that the run makes progress
							wantAlloc = false
							if len(mine) == 0 {
								runtime.Gosched()
								continue
							}
						} else {
							allocs.Add(1)
							if idx < 0 || idx >= count {
								fail(vf("blocks/conc/Arrange/index-out-of-range", "goroutine %d: ArrangeBlock returned %d, Count()=%d", g, idx, count))
								return
							}
							if !owner[idx].CompareAndSwap(0, gid) {
								fail(vf("blocks/conc/double-allocation", "goroutine %d: ArrangeBlock returned %d which goroutine %d still holds", g, idx, owner[idx].Load()-1))
								return
							}
							blk, err := m.bks.Block(idx)
							if err != nil {
								fail(vf("blocks/conc/Block/in-range-error", "goroutine %d: Block(%d): %v", g, idx, err))
								return
							}
							if _, x := m.whereRO(blk, idx); x != nil {
								fail(x)
								return
							}
							stamp(blk, idx, int(gid))
							mine = append(mine, idx)
							continue
						}
					}
					if !wantAlloc && len(mine) > 0 {
						k := rng.Intn(len(mine))
						idx := mine[k]
						blk, err := m.bks.Block(idx)
						if err != nil || len(blk) != m.bs {
							fail(vf("blocks/conc/Block/in-range-error", "goroutine %d: Block(%d): len=%d err=%v", g, idx, len(blk), err))
							return
						}
						if bad := stamped(blk, idx, int(gid)); bad >= 0 {
							fail(vf("blocks/conc/pattern/corrupted", "goroutine %d: its block %d byte %d is %#x want %#x", g, idx, bad, blk[bad], patByte(idx, bad, int(gid))))
							return
						}
						if rng.Intn(100) < 30 {
							continue // verify only
						}
						if !owner[idx].CompareAndSwap(gid, 0) {
							fail(vf("blocks/conc/owner", "goroutine %d: owner entry of its block %d is %d", g, idx, owner[idx].Load()-1))
							return
						}
						if err := m.bks.FreeBlock(idx); err != nil {
							fail(vf("blocks/conc/Free/allocated-refused", "goroutine %d: FreeBlock(%d) of its own block: %v", g, idx, err))
							return
						}
						frees.Add(1)
						mine[k] = mine[len(mine)-1]
						mine = mine[:len(mine)-1]
						if a := m.bks.Available(); a < 0 || a > count {
							fail(vf("blocks/conc/Available/range", "goroutine %d: Available()=%d outside [0,%d]", g, a, count))
							return
						}
					}
				}
			}); p != nil {
				fail(vf("blocks/conc/panic", "goroutine %d panicked: %v", g, p))
			}
		}(g)
	}
	go func() { wg.Wait(); close(done) }()
	// a goroutine that panicked inside the allocator may have left its mutex locked: once a violation is
	// recorded the others get a grace period and are then abandoned (the verdict is already decided)
	for waiting := true; waiting; {
		select {
		case <-done:
			waiting = false
		case <-time.After(100 * time.Millisecond):
			if first.Load() != nil {
				select {
				case <-done:
				case <-time.After(5 * time.Second):
				}
				waiting = false
			}
		}
	}
	if x := first.Load(); x != nil {
		x.what = fmt.Sprintf("concurrent bs=%d size=%d %s G=%d hold=%d seed=%d: %s", w.BS, w.Size, w.Backend, w.G, w.Hold, w.Seed, x.what)
		return x, nil
	}
	if cnt != nil {
		cnt["conc_allocations"] += allocs.Load()
		cnt["conc_frees"] += frees.Load()
		cnt["conc_exhausted"] += exhausted.Load()
	}
	// quiescent: rebuild the model from what the goroutines still hold and run the sequential monitors
	for g := range held {
		for _, idx := range held[g] {
			if m.alloc[idx] {
				return vf("blocks/conc/double-allocation", "block %d is held by two goroutines at the end", idx), nil
			}
			m.mark(idx)
			if owner[idx].Load() != int32(g+1) {
				return vf("blocks/conc/owner", "owner entry of block %d held by goroutine %d is %d", idx, g, owner[idx].Load()-1), nil
			}
			// restamp with the sequential pattern so that the reopen monitor can verify contents
			blk, err := m.bks.Block(idx)
			if err != nil || len(blk) != m.bs {
				return vf("blocks/conc/Block/in-range-error", "Block(%d): len=%d err=%v", idx, len(blk), err), nil
			}
			if bad := stamped(blk, idx, g+1); bad >= 0 {
				return vf("blocks/conc/pattern/corrupted", "at the end block %d of goroutine %d: byte %d is %#x want %#x", idx, g, bad, blk[bad], patByte(idx, bad, g+1)), nil
			}
			stamp(blk, idx, 0)
		}
	}
	pre := fmt.Sprintf("concurrent bs=%d size=%d %s G=%d hold=%d seed=%d, after the goroutines ended with %d blocks outstanding: ", w.BS, w.Size, w.Backend, w.G, w.Hold, w.Seed, m.n)
	if v := m.full("the concurrent phase"); v != nil {
		v.sig = strings.Replace(v.sig, "blocks/", "blocks/conc/final/", 1)
		v.what = pre + v.what
		return v, nil
	}
	if w.Backend == "mmfile" {
		for _, f := range []func() (*vio, error){m.secondMapping, m.readFile, m.closeReopen} {
			v, herr := f()
			if herr != nil {
				return nil, herr
			}
			if v != nil {
				v.sig = strings.Replace(v.sig, "blocks/", "blocks/conc/final/", 1)
				v.what = pre + v.what
				return v, nil
			}
		}
	}
	// the remaining blocks can all be allocated, each exactly once, then the allocator is exhausted
	for m.n < count {
		if _, v := m.arrange(); v != nil {
			v.sig = strings.Replace(v.sig, "blocks/", "blocks/conc/final/", 1)
			v.what = pre + v.what
			return v, nil
		}
	}
	if _, v := m.arrange(); v != nil {
		v.sig = strings.Replace(v.sig, "blocks/", "blocks/conc/final/", 1)
		v.what = pre + v.what
		return v, nil
	}
	if v := m.full("filling up after the concurrent phase"); v != nil {
		v.sig = strings.Replace(v.sig, "blocks/", "blocks/conc/final/", 1)
		v.what = pre + v.what
		return v, nil
	}
	return nil, nil
}

// whereRO is where() without recording the offset (safe to call from many goroutines).
func (m *mon) whereRO(blk []byte, idx int) (int64, *vio) { return m.where(blk, idx) }

func concCases(run *report.Run, heavy bool) []witness {
	seed := run.Seed()*7919 + 17
	var ws []witness
	type cg struct {
		bs      int
		size    int64
		fit     bool
		backend string
	}
	geoms := []cg{
		{1, 3 * segSize(1), true, "inmem"},    // 24 blocks: every goroutine works on the same three header bytes
		{2, 3*segSize(2) + 5, false, "inmem"}, // 48 blocks
		{8, 3 * segSize(8), true, "inmem"},    // 192 blocks
		{64, 3*segSize(64) + 1, false, "inmem"},
		{8, 4096, false, "mmfile"}, // 7 segments, 448 blocks
	}
	gs := []int{8}
	iter := 20_000
	if heavy {
		gs = []int{8, 12, 16}
		iter = run.Pick(8_000, 100_000)
	} else if run.Thorough() {
		iter = 100_000
	}
	n := 0
	for _, g := range geoms {
		count := int(g.size/segSize(g.bs)) * g.bs * 8
		for _, G := range gs {
			// bounded holding (the allocator can never be full => ErrExhausted is a violation) ...
			hold := (count-1)/G - 1
			if hold > 6 {
				hold = 6
			}
			if hold >= 1 {
				n++
				ws = append(ws, witness{Kind: "conc", BS: g.bs, Size: g.size, Fit: g.fit, Backend: g.backend, G: G, Hold: hold, Iter: iter, Seed: seed + int64(n)})
			}
			// ... and oversubscribed (runs at 100 %, ErrExhausted legitimate)
			if count <= 448 {
				n++
				ws = append(ws, witness{Kind: "conc", BS: g.bs, Size: g.size, Fit: g.fit, Backend: g.backend, G: G, Hold: 0, Iter: iter, Seed: seed + int64(n)})
			}
		}
	}
	return ws
}

func concurrency(run *report.Run, heavy bool) {
	cnt := map[string]int64{}
	for _, w := range concCases(run, heavy) { // one after the other: each uses G goroutines
		v, herr := runConc(w, cnt)
		if herr != nil {
			run.Inconclusive(fmt.Sprintf("concurrent bs=%d %s: %v", w.BS, w.Backend, herr))
			continue
		}
		run.Eval(1)
		run.Add("concurrent_runs", 1)
		run.Max("concurrent_max_goroutines", int64(w.G))
		run.DistinctStr(fmt.Sprintf("conc bs=%d %s G=%d bounded=%v", w.BS, w.Backend, w.G, w.Hold > 0))
		if v != nil {
			run.Violation(v.sig, v.what, w)
		}
	}
	for k, n := range cnt {
		run.Add(k, n)
	}
}

// ---------------------------------------------------------------------------------------------------
// long sequential runs on large segments (headers of many bytes / several pages)

// longBufs are the two buffers of one long run: the allocator's own and a shadow of the same size that only ever
// receives copies of the header block(s) and is reopened there. Both are NewInMemBytes(size) taken when the process
// has not yet freed any large object, so they are never-touched (lazily zeroed) memory: block contents are NEVER
// written by a long run, only ArrangeBlock/FreeBlock touch the headers, so a buffer of several GB stays virtual.
type longBufs struct {
	main, shadow cbytes.Buffer
}

func newLongBufs(size int64) *longBufs {
	return &longBufs{cbytes.NewInMemBytes(int(size)), cbytes.NewInMemBytes(int(size))}
}

func peakRSSkB() int64 {
	b, err := os.ReadFile("/proc/self/status")
	if err != nil {
		return -1
	}
	for _, l := range strings.Split(string(b), "\n") {
		if strings.HasPrefix(l, "VmHWM:") {
			var kb int64
			fmt.Sscanf(strings.TrimSpace(l[len("VmHWM:"):]), "%d", &kb)
			return kb
		}
	}
	return -1
}

// runLong fills every block of the geometry sequentially (result oracle after every call: index new, < Count,
// Available == Count - allocated, ErrExhausted only when full), probes a reopen of the header bytes at every
// 4096-byte boundary of the header (after k*32768 and k*32768+1 allocations), at 40000 and at the end, frees a
// spread of indices on both sides of those boundaries and of the segment boundaries plus random ones, re-allocates
// and requires exactly the freed indices to come back, each once, followed by ErrExhausted.
func runLong(w witness, lb *longBufs, cnt map[string]int64) (v *vio, herr error) {
	bs, size := w.BS, w.Size
	if !validBS(bs) || size < segSize(bs) || (w.Fit && size%segSize(bs) != 0) {
		return nil, errHarness{fmt.Errorf("runLong: geometry bs=%d size=%d is not acceptable", bs, size)}
	}
	if lb == nil {
		lb = newLongBufs(size)
	}
	segSz := segSize(bs)
	segs := int(size / segSz)
	B := bs * 8
	count := segs * B
	pre := fmt.Sprintf("long run bs=%d segments=%d (%d blocks, header %d bytes per segment) seed=%d: ", bs, segs, count, bs, w.Seed)
	fail := func(sig, format string, a ...any) *vio {
		return &vio{"blocks/longrun/" + sig, pre + fmt.Sprintf(format, a...)}
	}
	var bks *cbytes.Blocks
	var err error
	if p := guard(func() { bks, err = cbytes.NewBlocks(bs, lb.main, w.Fit) }); p != nil || err != nil || bks == nil {
		return fail("open", "NewBlocks(bs=%d, size=%d, fit=%v): err=%v panic=%v", bs, size, w.Fit, err, p), nil
	}
	if bks.Count() != count || bks.Available() != count || bks.Segments() != segs {
		return fail("open", "Count()=%d Available()=%d Segments()=%d want %d, %d, %d", bks.Count(), bks.Available(), bks.Segments(), count, count, segs), nil
	}
	var base []byte
	if p := guard(func() { base, err = lb.main.Buffer(0, int(size)) }); p != nil || err != nil || int64(len(base)) != size {
		return nil, errHarness{fmt.Errorf("Buffer(0,%d): %v %v", size, err, p)}
	}
	alloc := make([]bool, count)
	n := 0
	rng := rand.New(rand.NewSource(w.Seed))

	arrange := func(what string) (int, *vio) {
		var idx int
		var err error
		if p := guard(func() { idx, err = bks.ArrangeBlock() }); p != nil {
			return -1, fail("panic", "%s: ArrangeBlock panicked with %d of %d allocated: %v", what, n, count, p)
		}
		if err != nil {
			if !errors.Is(err, gerrors.ErrExhausted) {
				return -1, fail("Arrange/unexpected-error", "%s: ArrangeBlock with %d of %d allocated: %v", what, n, count, err)
			}
			if n != count {
				return -1, fail("exhausted-with-free-blocks", "%s: ErrExhausted with %d of %d blocks allocated", what, n, count)
			}
			return -1, nil
		}
		if idx < 0 || idx >= count {
			return -1, fail("index-out-of-range", "%s: ArrangeBlock #%d returned %d, Count()=%d", what, n+1, idx, count)
		}
		if alloc[idx] {
			return -1, fail("double-allocation", "%s: ArrangeBlock #%d returned %d which is still allocated (%d of %d allocated)", what, n+1, idx, n, count)
		}
		if n == count {
			return -1, fail("not-exhausted-when-full", "%s: ArrangeBlock returned %d with all %d blocks allocated", what, idx, count)
		}
		alloc[idx] = true
		n++
		if a := bks.Available(); a != count-n {
			return idx, fail("available", "%s: after ArrangeBlock #%d -> %d: Available()=%d want %d-%d=%d", what, n, idx, a, count, n, count-n)
		}
		return idx, nil
	}
	free := func(what string, idx int) *vio {
		var err error
		if p := guard(func() { err = bks.FreeBlock(idx) }); p != nil {
			return fail("panic", "%s: FreeBlock(%d) panicked: %v", what, idx, p)
		}
		if alloc[idx] {
			if err != nil {
				return fail("Free/allocated-refused", "%s: FreeBlock(%d) of an allocated block: %v", what, idx, err)
			}
			alloc[idx] = false
			n--
		} else {
			if err == nil {
				return fail("Free/free-block-accepted", "%s: FreeBlock(%d) of a free block returned nil", what, idx)
			}
			if !errors.Is(err, gerrors.ErrNotExist) {
				return fail("Free/free-block-wrong-class", "%s: FreeBlock(%d) of a free block: %v", what, idx, err)
			}
		}
		if a := bks.Available(); a != count-n {
			return fail("available", "%s: after FreeBlock(%d): Available()=%d want %d-%d=%d", what, idx, a, count, n, count-n)
		}
		return nil
	}
	// reopen: only the header block of every segment is copied into the shadow buffer (the rest of it has never
	// been written), a second allocator is opened there and probed.
	const (
		probeCheap   = 0 // free the model's blocks (nil each), then fill: every index exactly once, then ErrExhausted
		probeLiteral = 1 // FreeBlock on every index: nil = allocated, ErrNotExist = free (one error value per free block)
		probeNoAlloc = 2 // free the model's blocks (nil each), then Available == Count; no allocation, no garbage
	)
	reopen := func(what string, mode int) *vio {
		if cnt != nil {
			cnt["long_reopen_probes"]++
		}
		var v *vio
		if p := guard(func() {
			for s := 0; s < segs; s++ {
				src, e1 := lb.main.Buffer(int64(s)*segSz, bs)
				dst, e2 := lb.shadow.Buffer(int64(s)*segSz, bs)
				if e1 != nil || e2 != nil || len(src) != bs || len(dst) != bs {
					v = fail("reopen", "%s: header of segment %d not readable: %v %v", what, s, e1, e2)
					return
				}
				copy(dst, src)
			}
			b2, err := cbytes.NewBlocks(bs, lb.shadow, w.Fit)
			if err != nil || b2 == nil {
				v = fail("reopen", "%s: NewBlocks on a copy of the header bytes failed: %v", what, err)
				return
			}
			if a := b2.Available(); a != count-n || b2.Count() != count {
				v = fail("reopen", "%s: reopened on a copy of the header bytes: Available()=%d Count()=%d, the model has %d of %d allocated (want Available %d)", what, a, b2.Count(), n, count, count-n)
				return
			}
			if mode == probeLiteral {
				for i := 0; i < count; i++ {
					err := b2.FreeBlock(i)
					switch {
					case err == nil && !alloc[i]:
						v = fail("reopen", "%s: the reopened allocator has block %d allocated, the model has it free", what, i)
					case err != nil && alloc[i]:
						v = fail("reopen", "%s: the reopened allocator does not have block %d allocated (%v), the model has", what, i, err)
					case err != nil && !errors.Is(err, gerrors.ErrNotExist):
						v = fail("reopen", "%s: reopened FreeBlock(%d) of a free block: %v", what, i, err)
					}
					if v != nil {
						return
					}
				}
				if a := b2.Available(); a != count {
					v = fail("reopen", "%s: reopened allocator after freeing every block: Available()=%d want %d", what, a, count)
				}
				return
			}
			for i := 0; i < count; i++ {
				if alloc[i] {
					if err := b2.FreeBlock(i); err != nil {
						v = fail("reopen", "%s: the reopened allocator does not have block %d allocated (%v), the model has", what, i, err)
						return
					}
				}
			}
			if a := b2.Available(); a != count {
				v = fail("reopen", "%s: the reopened allocator after freeing the %d blocks of the model: Available()=%d want %d", what, n, a, count)
				return
			}
			if mode == probeNoAlloc {
				return
			}
			seen := make([]bool, count)
			for k := 0; k < count; k++ {
				idx, err := b2.ArrangeBlock()
				if err == nil && idx >= 0 && idx < count && seen[idx] {
					v = fail("reopen", "%s: the reopened allocator (emptied, then filled again) returned index %d twice, at its allocation #%d of %d", what, idx, k+1, count)
					return
				}
				if err != nil || idx < 0 || idx >= count {
					v = fail("reopen", "%s: the reopened allocator, after freeing the %d blocks of the model, hands out only %d of %d blocks (idx=%d err=%v): it has blocks allocated that the model has free", what, n, k, count, idx, err)
					return
				}
				seen[idx] = true
			}
			if _, err := b2.ArrangeBlock(); !errors.Is(err, gerrors.ErrExhausted) {
				v = fail("reopen", "%s: the reopened allocator is not exhausted after %d allocations: %v", what, count, err)
			}
		}); p != nil {
			return fail("panic", "%s: reopen probe panicked: %v", what, p)
		}
		return v
	}
	// address ranges of a sample of blocks (nothing is written or read)
	blocksAt := func(what string, idxs []int) *vio {
		type po struct {
			off int64
			idx int
		}
		var l []po
		var v *vio
		if p := guard(func() {
			for _, i := range idxs {
				if i < 0 || i >= count {
					continue
				}
				blk, err := bks.Block(i)
				if err != nil || len(blk) != bs {
					v = fail("Block", "%s: Block(%d): len=%d err=%v", what, i, len(blk), err)
					return
				}
				off := int64(uintptr(unsafe.Pointer(unsafe.SliceData(blk)))) - int64(uintptr(unsafe.Pointer(unsafe.SliceData(base))))
				if off < 0 || off+int64(bs) > size {
					v = fail("Block", "%s: Block(%d) = bytes [%d,%d) of a buffer of %d bytes", what, i, off, off+int64(bs), size)
					return
				}
				s0, s1 := off/segSz, (off+int64(bs)-1)/segSz
				if (s1 != s0 && s1 < int64(segs)) || (s0 < int64(segs) && off-s0*segSz < int64(bs)) {
					v = fail("Block", "%s: Block(%d) = bytes [%d,%d) overlaps a segment header", what, i, off, off+int64(bs))
					return
				}
				l = append(l, po{off, i})
			}
			for _, i := range []int{-1, count} {
				if _, err := bks.Block(i); !errors.Is(err, gerrors.ErrInvalid) {
					v = fail("Block", "%s: Block(%d) with Count()=%d: err=%v, want ErrInvalid", what, i, count, err)
					return
				}
			}
		}); p != nil {
			return fail("panic", "%s: Block panicked: %v", what, p)
		}
		if v != nil {
			return v
		}
		sort.Slice(l, func(a, b int) bool { return l[a].off < l[b].off })
		for i := 1; i < len(l); i++ {
			if l[i].idx != l[i-1].idx && l[i].off-l[i-1].off < int64(bs) {
				return fail("Block", "%s: Block(%d) = [%d,%d) and Block(%d) = [%d,%d) overlap", what, l[i-1].idx, l[i-1].off, l[i-1].off+int64(bs), l[i].idx, l[i].off, l[i].off+int64(bs))
			}
		}
		return nil
	}
	// indices on both sides of every 4096-byte boundary of a header (32768 blocks per header page), of every
	// segment boundary, the ends, and random ones
	var spread []int
	inSpread := map[int]bool{}
	add := func(i int) {
		if i >= 0 && i < count && !inSpread[i] {
			inSpread[i] = true
			spread = append(spread, i)
		}
	}
	for s := 0; s < segs; s++ {
		for b := 0; b <= B; b += 32768 {
			for d := -8; d < 8; d++ {
				add(s*B + b + d)
			}
		}
		for d := -8; d < 8; d++ {
			add(s*B + B + d)
			add(s*B + 65536 - 6 + d) // 65530..65545 and neighbours
		}
	}
	for i := 0; i < 3000 && i < count/4; i++ {
		add(rng.Intn(count))
	}

	probeAt := map[int]bool{40000: true, count: true}
	for k := 32768; k < count; k += 32768 {
		probeAt[k], probeAt[k+1], probeAt[k+2] = true, true, true
	}
	if count <= 32768 { // small headers: a few evenly spaced probes instead
		for k := 1; k <= 4; k++ {
			probeAt[k*count/5] = true
		}
	}
	// phase 1: fill sequentially
	for n < count {
		idx, v := arrange("filling")
		if v != nil {
			return v, nil
		}
		if idx < 0 {
			return fail("exhausted-with-free-blocks", "filling: ErrExhausted with %d of %d allocated", n, count), nil
		}
		if probeAt[n] {
			// around the header-page boundaries a probe that does not allocate in the reopened allocator, so that a
			// fault of ArrangeBlock shows up in the allocator under test first: the literal one at the first two
			// boundaries, the garbage-free one at the later ones; elsewhere the cheap one
			mode := probeCheap
			if n%32768 <= 2 {
				mode = probeNoAlloc
				if n <= 2*32768+2 {
					mode = probeLiteral
				}
			}
			if v := reopen(fmt.Sprintf("after %d sequential allocations", n), mode); v != nil {
				return v, nil
			}
			if v := blocksAt(fmt.Sprintf("after %d sequential allocations", n), []int{0, 1, idx - 1, idx, idx + 1, count - 1, rng.Intn(count), rng.Intn(count)}); v != nil {
				return v, nil
			}
		}
	}
	if cnt != nil {
		cnt["long_sequential_allocations"] += int64(count)
	}
	if _, v := arrange("full"); v != nil {
		return v, nil
	}
	if n != count {
		return fail("not-exhausted-when-full", "an allocation succeeded with all %d blocks allocated", count), nil
	}
	if v := blocksAt("full", spread); v != nil {
		return v, nil
	}
	// phase 2: rounds of free-a-spread / re-allocate
	for round := 0; round < 3; round++ {
		order := append([]int(nil), spread...)
		rng.Shuffle(len(order), func(i, j int) { order[i], order[j] = order[j], order[i] })
		if round == 2 {
			sort.Sort(sort.Reverse(sort.IntSlice(order))) // hint lowered step by step from the top
		}
		what := fmt.Sprintf("round %d, freeing %d blocks around the header-page and segment boundaries", round, len(order))
		for k, i := range order {
			if v := free(what, i); v != nil {
				return v, nil
			}
			if k%7 == 0 { // a second free of the same block must be refused
				if v := free(what+" (again)", i); v != nil {
					return v, nil
				}
			}
			if round == 1 && k%5 == 0 {
				// free one / allocate one: the hint is lowered into a header byte and must find exactly that block
				idx, v := arrange(what + ", re-allocating at once")
				if v != nil {
					return v, nil
				}
				if idx < 0 {
					return fail("exhausted-with-free-blocks", "%s: ErrExhausted right after FreeBlock(%d)", what, i), nil
				}
			}
		}
		if cnt != nil {
			cnt["long_frees"] += int64(len(order))
		}
		mode := probeCheap
		if round == 0 {
			mode = probeLiteral
		}
		if v := reopen(what, mode); v != nil {
			return v, nil
		}
		freed := map[int]bool{}
		for i, a := range alloc {
			if !a {
				freed[i] = true
			}
		}
		want := len(freed)
		for k := 0; k < want; k++ {
			idx, v := arrange(fmt.Sprintf("round %d, re-allocating %d freed blocks", round, want))
			if v != nil {
				return v, nil
			}
			if idx < 0 || !freed[idx] {
				return fail("refill-set", "round %d: re-allocation %d of %d returned %d which is not one of the freed blocks", round, k+1, want, idx), nil
			}
			delete(freed, idx)
		}
		if idx, v := arrange("full again"); v != nil {
			return v, nil
		} else if idx >= 0 || n != count {
			return fail("not-exhausted-when-full", "round %d: not exhausted after all freed blocks came back", round), nil
		}
	}
	if v := reopen("at the end (all blocks allocated)", probeCheap); v != nil {
		return v, nil
	}
	// drain the top half and a prefix, reopen with the literal probe
	for i := count - 1; i >= count/2; i-- {
		if v := free("draining the upper half", i); v != nil {
			return v, nil
		}
	}
	for i := 0; i < 100 && i < count/2; i++ {
		if v := free("draining a prefix", i); v != nil {
			return v, nil
		}
	}
	if v := reopen("after draining the upper half and blocks 0..99", probeLiteral); v != nil {
		return v, nil
	}
	for k := 0; k < 100 && k < count/2; k++ {
		idx, v := arrange("re-allocating the prefix")
		if v != nil {
			return v, nil
		}
		if idx < 0 {
			return fail("exhausted-with-free-blocks", "ErrExhausted with %d of %d allocated", n, count), nil
		}
	}
	return nil, nil
}

type longCase struct {
	w  witness
	lb *longBufs
}

// longCases allocates the buffers of all long runs. It must be called before anything large has been freed.
func longCases(run *report.Run) []longCase {
	seed := run.Seed()*104729 + 5
	type lg struct {
		bs, segs int
	}
	gs := []lg{{3 * page, 1}, {512, 3}, {page, 2}}
	if run.Thorough() {
		gs = append(gs, lg{3 * page, 2}, lg{5 * page, 1}, lg{6 * page, 1}, lg{2 * page, 1}, lg{7 * page, 1})
	}
	var l []longCase
	for i, g := range gs {
		w := witness{Kind: "long", BS: g.bs, Size: int64(g.segs) * segSize(g.bs), Fit: true, Backend: "inmem", Seed: seed + int64(i)}
		l = append(l, longCase{w, newLongBufs(w.Size)})
	}
	return l
}

func longRuns(run *report.Run, cases []longCase) {
	var wg sync.WaitGroup
	var mu sync.Mutex
	total := map[string]int64{}
	for _, c := range cases {
		wg.Add(1)
		go func(c longCase) {
			defer wg.Done()
			cnt := map[string]int64{}
			v, herr := runLong(c.w, c.lb, cnt)
			if herr != nil {
				run.Inconclusive(herr.Error())
				return
			}
			run.Eval(1)
			run.Add("long_runs", 1)
			run.DistinctStr(fmt.Sprintf("long bs=%d size=%d", c.w.BS, c.w.Size))
			if v != nil {
				run.Violation(v.sig, v.what, c.w)
			}
			mu.Lock()
			for k, n := range cnt {
				total[k] += n
			}
			mu.Unlock()
		}(c)
	}
	wg.Wait()
	for k, n := range total {
		run.Add(k, n)
	}
	var geoms []string
	var virt int64
	for _, c := range cases {
		geoms = append(geoms, fmt.Sprintf("bs=%d x %d segment(s) = %d blocks", c.w.BS, c.w.Size/segSize(c.w.BS), c.w.Size/segSize(c.w.BS)*int64(c.w.BS)*8))
		virt += 2 * c.w.Size
	}
	run.Note("long_run_geometries", geoms)
	run.Note("long_run_virtual_bytes", virt)
	run.Note("long_run_peak_rss_kB_after", peakRSSkB())
}

// ---------------------------------------------------------------------------------------------------

func TestCheck(t *testing.T) {
	run := report.New("C17", "exploration")
	defer run.Finish(t)
	defer tmpCleanup()
	run.Rule("distinct = (a) geometry classes (block size x accept/reject class x fit x backend) + (b) distinct (geometry, allocated set) model states reached by the enumerated sequences on the tiny geometries + (c) transition classes (block size/backend, operation, index position class, outcome class, fill-level class relative to the segment boundaries) observed in the enumerations and the random walks + (d) concurrent configurations. evaluations = geometry cases + enumerated sequences (every prefix is one monitored case) + walks + concurrent runs. The reopen monitor of the mapped-file walks includes mappings of only the head of the file (region shorter than the file, live or after Close): the covered segments' blocks must be reproduced and the whole file's set must be unchanged afterwards")
	run.Assume("valid block size = GetBlocksInSegment's documented rule (positive; power of two below the page size or a multiple of it); segment = (bs*8+1)*bs bytes; buffers start zeroed")
	run.Assume("bytes beyond the last whole segment of an oversized buffer (fit=false) are unused; a block there would only be judged for overlap")
	run.Assume("under concurrency ErrExhausted is judged only in runs where G*(hold+1) < Count(), i.e. where the allocator can at no instant be full")
	run.Assume("mapped files: Linux page cache coherence between two MAP_SHARED mappings of one file and read(2)")

	if p := os.Getenv("VERIF_REPLAY"); p != "" {
		replay(run, p)
		return
	}
	if os.Getenv("VERIF_PASS") == "race" {
		// race pass: the concurrent workload in full, and a small sequential part so that the monitors themselves
		// run under the detector
		concurrency(run, true)
		enumeration(run, enumPlan{maxDepth: 4, emptyDepth: func(int, int) int { return 4 }, leafCap: 2000})
		return
	}
	phases := map[string]float64{}
	t0 := time.Now()
	lap := func(name string) { phases[name] = time.Since(t0).Seconds(); t0 = time.Now() }
	defer func() { run.Note("phase_wall_s", phases) }()
	// the long runs first: their buffers (GBs, virtual) must be taken while the heap has never freed a large object,
	// and are dropped again before the allocation-heavy phases so that they do not distort the GC pacing
	lcs := longCases(run)
	var held int64
	for _, c := range lcs {
		held += 2 * c.w.Size
	}
	// the GC paces itself by the live heap, which is GBs of never-touched buffers here: without a limit the error
	// values produced by the literal probes would pile up unreclaimed
	oldLimit := debug.SetMemoryLimit(held + 384<<20)
	longRuns(run, lcs)
	lcs = nil
	debug.SetMemoryLimit(oldLimit)
	debug.FreeOSMemory()
	lap("long_runs")
	if os.Getenv("VERIF_C17_ONLY") == "long" { // development aid: only the long runs
		run.DistinctAdd(2)
		return
	}
	geometrySweep(run)
	lap("geometry")
	plan := enumPlan{maxDepth: 8, emptyDepth: func(int, int) int { return 8 }, leafCap: 150_000}
	if run.Thorough() {
		plan = enumPlan{maxDepth: 11, leafCap: 2_000_000, emptyDepth: func(bs, segs int) int {
			switch {
			case bs == 1 && segs == 2: // the 9th allocation crosses into the second segment
				return 11
			case bs == 1 || segs == 1:
				return 10
			}
			return 9
		}}
	}
	enumeration(run, plan)
	lap("enumeration")
	inmem, mmf, huge := walkCases(run)
	var wg sync.WaitGroup
	if len(huge) > 0 {
		wg.Add(1)
		go func() { defer wg.Done(); runWalks(run, huge, 1) }()
	}
	runWalks(run, append(inmem, mmf...), runtime.NumCPU())
	wg.Wait()
	lap("walks")
	run.Note("walk_full_check_every", "inmem bs=8: every operation; bs=64: every 25; bs=512: every 1000; mapped files: every 150-3000 (rotating second mapping / Close+reopen / os.ReadFile / mapping of only the head of the file - one file block, each segment boundary rounded down and up to a file block, the file less one file block; with the full mapping live and between Close and the reopen - which must show the blocks of the segments it covers and leave the whole file's set unchanged); plus whenever a target fill level (0, each segment boundary, 100 %) is first reached; the O(1) monitor (result class, Available, patterns of the touched block and its neighbours, address range) runs after every operation")
	if len(inmem) > 0 {
		run.Sample(inmem[0])
	}
	if len(mmf) > 0 {
		run.Sample(mmf[len(mmf)-1])
	}
	concurrency(run, false)
	lap("concurrency")
	run.Note("peak_rss_kB", peakRSSkB())
}

func replay(run *report.Run, path string) {
	b, err := os.ReadFile(path)
	if err != nil {
		run.Inconclusive("cannot read replay file: " + err.Error())
		return
	}
	var doc struct {
		Witness witness `json:"witness"`
	}
	if err := json.Unmarshal(b, &doc); err != nil {
		run.Inconclusive("cannot parse replay file: " + err.Error())
		return
	}
	w := doc.Witness
	run.Eval(1)
	run.DistinctAdd(2)
	run.Sample(w)
	var v *vio
	var herr error
	switch w.Kind {
	case "geom":
		v, _, herr = geomCase(w)
	case "seq":
		v, herr = runSeq(w, nil)
	case "walk":
		v, _, herr = runWalk(w, nil, nil)
	case "long":
		v, herr = runLong(w, nil, nil)
	case "conc":
		for i := 0; i < 20 && v == nil && herr == nil; i++ { // schedules differ from run to run
			v, herr = runConc(w, nil)
		}
	default:
		run.Inconclusive("unknown witness kind " + w.Kind)
		return
	}
	if herr != nil {
		run.Inconclusive(herr.Error())
		return
	}
	if v != nil {
		run.Violation(v.sig, v.what, w)
	} else {
		fmt.Println("REPLAY: no violation on this tree")
	}
}
